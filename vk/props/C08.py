"""C08 — segment detrending removes polynomial trends and nothing else.

  order p in {0,1,2}: adding a polynomial of degree <= p to either channel leaves XX, YY, XY, M2 (and Gxx, Gxy, coh) of every bin unchanged
  up to rounding RELATIVE TO THE SIZE OF THE ADDED TREND; a trend of degree p+1 does change the estimate; order −1 does no detrending
  (the estimate is that of the raw windowed segments, a constant changes it).  Every plan, every L (also L <= p), auto and cross mode,
  compute and compute_single_bin, backends numba / numpy / CUDA (simulator).
"""
from __future__ import annotations

import json
import math
import os
import subprocess
import sys
import warnings
from typing import Any, Dict, List, Optional, Tuple

import numpy as np

from .. import common as C
from . import _an

PROP = "C08"
# obligations of the properties this one is downstream of are obligations of this check too (vk.runner.collect_obligations)
UPSTREAM = ["C05"]
GEN_REGIONS = ["CoreKernels", "CudaKernels", "NumpyKernels", "BuildQ"]
THEOREMS = {
    # the NumPy fallbacks (translated each run) are the same reference estimator: every detrending theorem below holds for that backend too
    "SpecKitV.Props.NumpyKernelsGen": ["gen_np_win_only_auto_eq_ref", "gen_np_win_only_csd_eq_ref", "gen_np_detrend0_auto_eq_ref", "gen_np_detrend0_csd_eq_ref", "gen_np_poly_auto_eq_ref", "gen_np_poly_csd_eq_ref"],
    "SpecKitV.Lemmas.Detrend": ["detr_neg_one", "detr0_add_const", "detr0_sum_zero", "detr_poly_add_span", "detr_poly_kills_span",
                                "detr_poly_orthogonal", "detr_poly_idempotent", "detr_linear", "segDFT_add_const_order0", "segDFT_add_span",
                                "detr_poly_keeps_orthogonal"],
    # short segments: with a complete (square) orthonormal basis the detrended segment is identically zero
    "SpecKitV.Lemmas.DetrendComplete": ["ortho_rows_of_cols", "proj_complete", "detr_complete_basis_zero", "segDFT_complete_basis_zero"],
    "SpecKitV.Props.C01": ["stats_win_only_csd_eq_ref", "stats_win_only_auto_eq_ref", "stats_detrend0_csd_eq_ref", "stats_detrend0_auto_eq_ref",
                           "stats_poly_csd_eq_ref", "stats_poly_auto_eq_ref",
                           "stats_win_only_csd_cuda_eq_ref", "stats_win_only_auto_cuda_eq_ref", "stats_detrend0_csd_cuda_eq_ref",
                           "stats_detrend0_auto_cuda_eq_ref", "stats_poly_csd_cuda_eq_ref", "stats_poly_auto_cuda_eq_ref"],
    # `_build_Q` itself, TRANSLATED from core.py each run (Gen/BuildQ.lean): for every L >= 1 and order in {1,2} it returns an L x min(L, order+1)
    # matrix with orthonormal columns spanning exactly the polynomials of degree < min(L, order+1) in the sample index; hence the detrending
    # theorems above hold for the three backends CALLED WITH THE LIBRARY'S OWN BASIS with no hypothesis on the basis left: a polynomial trend of
    # degree <= p changes nothing (`*_libQ_add_poly`), degree p+1 is not annihilated for L >= p+2 (`detr_libQ_next_degree`), short segments
    # (2 <= L <= p+1: `*_libQ_short`; L = 1: `*_libQ_L1`, Numba and CUDA) give all-zero statistics
    "SpecKitV.Props.BuildQGen": ["BuildQ.qr_spec", "BuildQ.vander_indep", "BuildQ.linspace_affine", "BuildQ.linspace_slice_affine", "BuildQ.vander_qr_isPolyBasis", "BuildQ.gen_build_Q_none", "BuildQ.gen_build_Q_isPolyBasis", "BuildQ.libQ_eq_some", "BuildQ.libQ_isPolyBasis", "BuildQ.libQ_m", "BuildQ.libQ_n", "BuildQ.libQ_ortho", "BuildQ.libQ_inSpan_mono", "BuildQ.libQ_cols_poly", "BuildQ.libQ_inSpan_poly", "BuildQ.libQ_inSpan_line", "BuildQ.libQ_next_degree_not_inSpan", "BuildQ.libQ_complete", "BuildQ.libQ_line_contract", "BuildQ.segDFT_libQ_add_poly", "BuildQ.refStats_libQ_add_poly", "BuildQ.refStatsAuto_libQ_add_poly", "BuildQ.stats_poly_csd_libQ_eq_ref", "BuildQ.stats_poly_auto_libQ_eq_ref", "BuildQ.stats_poly_csd_cuda_libQ_eq_ref", "BuildQ.stats_poly_auto_cuda_libQ_eq_ref", "BuildQ.np_poly_csd_libQ_eq_ref", "BuildQ.np_poly_auto_libQ_eq_ref", "BuildQ.stats_poly_csd_libQ_add_poly", "BuildQ.stats_poly_auto_libQ_add_poly", "BuildQ.stats_poly_csd_cuda_libQ_add_poly", "BuildQ.stats_poly_auto_cuda_libQ_add_poly", "BuildQ.np_poly_csd_libQ_add_poly", "BuildQ.np_poly_auto_libQ_add_poly", "BuildQ.detr_libQ_next_degree", "BuildQ.segDFT_libQ_next_degree_ne_zero", "BuildQ.stats_poly_csd_libQ_short", "BuildQ.stats_poly_auto_libQ_short", "BuildQ.stats_poly_csd_cuda_libQ_short", "BuildQ.stats_poly_auto_cuda_libQ_short", "BuildQ.np_poly_csd_libQ_short", "BuildQ.np_poly_auto_libQ_short", "BuildQ.stats_poly_csd_libQ_L1", "BuildQ.stats_poly_auto_libQ_L1"],
}
CONTRACTS = ["speckit.core._build_Q(L, p) is translated from the source each run (Gen/BuildQ.lean) and PROVED (Props/BuildQGen.lean) to return orthonormal "
             "columns spanning the polynomials of degree <= p on the L-point grid (hypotheses OrthoCols / InSpan of the detrending theorems), GIVEN the "
             "contracts of the NumPy routines it calls, which are Lean definitions in lean/SpecKitV/Np/BuildQ.lean: "
             "(1) Np.linspace lo hi n = np.linspace(lo, hi, n): entry i is i*((hi-lo)/(n-1)) + lo, the last entry is overwritten by hi, and for n = 1 "
             "the single point is lo (NumPy's convention); (2) Np.ones n = np.ones(n); (3) Np.stackCols = np.stack([...], axis=1) of equally long vectors; "
             "(4) Np.qrReducedQ V = np.linalg.qr(V, mode='reduced')[0] UP TO THE SIGN OF EACH COLUMN: classical Gram-Schmidt orthonormalisation of the "
             "first min(rows, cols) columns of V. For a matrix whose first min(rows, cols) columns are linearly independent (proved for the Vandermonde "
             "matrix of _build_Q) the reduced QR factor is unique up to the sign of each column - the documented non-uniqueness of QR; LAPACK's Householder "
             "routine returns one sign choice, Gram-Schmidt the one with a positive diagonal of R; every statement proved (orthonormality, span, the projector "
             "Q Q^T and hence every detrended segment) is invariant under these signs. For rows < cols NumPy returns the rows x rows factor of the leading "
             "square block, as the definition does. The definitions are EXECUTED in Float against the real _build_Q every run (columns compared up to a "
             "sign, the projector Q Q^T v exactly) for every L in 1..64 and random L up to 4096; the numerical contract check "
             "(max|Q^T Q - I|, residual of 1, t, t^2, n, n^2 against span Q) for L in 1..64 and random L up to 5000 is kept",
             "CUDA kernels are translated from core_cuda.py source and executed only under Numba's CUDA simulator"]
ASSUMPTIONS = ["rounding / fastmath re-association are covered by the stated forward tolerance (vk.props._an.bin_tol evaluated with the magnitudes of the "
               "record INCLUDING the trend), not by theorem",
               "the theorems need p+1 orthonormal columns, i.e. L >= p+1; L = p+1 (complete basis, everything annihilated) is "
               "`detr_complete_basis_zero`; for L <= p the real basis is an L x L orthonormal matrix (the kernels read its column count, so the "
               "same theorem applies with p := L-1 when L >= 2); since the fourth session the library's own basis is translated and these short-segment "
               "cases are theorems for every backend (Props/BuildQGen `*_libQ_short`, `*_libQ_L1`; Props/PipelineClosed `pipeline_closed_short`, "
               "`np_poly_*_libQ_L1`)",
               "'a trend of degree p+1 does change it' is asserted on the bins where the reference estimator (direct windowed DFT in extended precision) "
               "changes by more than 1e4 x the rounding tolerance; that such bins exist for a generic record is measured, not proved"]
RULE = ("cases = (mode plan|single|neg1|edge, auto|cross, detrend order, scheduler, window, backend, trend scale 1|1e3|1e6 x noise, "
        "trend on channel 1|2|both, degree <= p or p+1); records/coefficients from a per-case seed, every (order x scheduler x window x mode) by rotation; "
        "distinct by (mode, cross, order, scheduler, window, backend, variant, scale, L); non-trivial = a bin with L >= 2 and a non-zero window whose "
        "estimate is compared before/after a trend of relative size >= 1; units stream: the same cases with the whole record (noise and trend) "
        "multiplied by 2**e, e drawn from each of the bands of UNIT_BANDS (2**-200 … 2**+130) on every run, orders -1..2, auto/cross, single-bin and "
        "compute(), numba and numpy, plus statistics(2**e x) == 2**(2e) statistics(x) (M2: 2**(4e)) bit for bit for e >= -160")

U = 2.0 ** -53
ORDERS = [0, 1, 2]
WINS = ["hann", "kaiser"]
BACKENDS = ["numba", "numpy"]
SCALES = [1.0, 1e3, 1e6]
# UNITS of the record (detrending is linear: it commutes with rescaling the record).  The whole analysed record (noise AND trend) is multiplied by
# 2**e, an exact operation.  Bounds: the base records are O(1) (|sample| <~ 5), the trends up to 1e6 x that and Tnext up to 1e5 x, so with
# e in [-200, +130] every sample that is not exactly 0 lies in about [2**-200 * 1e-4, 2**130 * 1e7] = [6e-65, 1.4e46], inside [1e-65, 1e60]:
# XX, YY, XY are QUADRATIC in the amplitude (>= ~1e-130, <= (1e46 * L)**2 ~ 1e100) and M2 is QUARTIC (>= ~1e-260 before the relative smallness of
# a bin, <= ~1e200): none of them overflows, none underflows to 0, and the rounding budgets (which are U * amplitude**2 / **4, i.e. they scale with
# the data and contain no absolute floor above 1e-300) stay representable.  Every band of binades below is visited on every run; the bands
# straddle the constants an absolute threshold is likely to be confused with (eps 2**-52, sqrt(tiny) 2**-511 is out of reach by the quartic M2,
# float32 tiny 2**-126 / max 2**128, 1e-30, 1e-50).
UNIT_BANDS = [(-200, -150), (-150, -100), (-100, -70), (-70, -45), (-45, -20), (20, 60), (60, 100), (100, 130)]
# the bit-for-bit predicate stats(c x) == c**2 stats(x) needs in addition that NO INTERMEDIATE of the scaled run becomes subnormal (then the
# scaled run rounds where the unscaled one did not): the smallest non-zero intermediates are the squares (d*d) of the deviations d = XY_k - mean
# in M2; d is a difference of doubles, so |d| >= 2**-53 x (the smaller XY_k), and for the O(1) noise records used there XY_k >~ 1e-30 x peak
# (200 dB Kaiser side lobes squared is 1e-40 in the worst case) -> d*d >~ 1e-110 x amplitude**4.  With e >= -160 amplitude**4 >= 2e-193 and the
# product stays above 1e-303 > 2.2e-308; results whose scaled value is non-zero and below 1e-290 (or above 1e290) are not compared (counted in
# `unstable`).
EXACT_MIN_EXP = -160


# ---------------------------------------------------------------- CUDA (simulator) at analyzer level, in a worker process
_WORKER = r'''
import os
os.environ["NUMBA_ENABLE_CUDASIM"] = "1"
import sys, json, warnings, logging
warnings.filterwarnings("ignore")
logging.disable(logging.CRITICAL)
import numpy as np
from speckit.analysis import compute_spectrum, compute_single_bin
for line in sys.stdin:
    line = line.strip()
    if not line:
        continue
    c = json.loads(line)
    try:
        data = np.array(c["data"], dtype=np.float64)
        if c.get("freq") is not None:
            r = compute_single_bin(data, c["fs"], c["freq"], L=c["L"], backend="cuda", **c["o"])
        else:
            r = compute_spectrum(data, c["fs"], backend="cuda", **c["o"])
        out = {"f": r.f.tolist(), "L": [int(v) for v in r.L], "D": [[int(s) for s in d] for d in r.D],
               "XX": r.XX.tolist(), "YY": r.YY.tolist(), "XYr": r.XY.real.tolist(), "XYi": r.XY.imag.tolist(), "M2": r.M2.tolist(),
               "S2": r.S2.tolist(), "S12": r.S12.tolist()}
        print(json.dumps(out), flush=True)
    except Exception as ex:
        print(json.dumps({"err": repr(ex)}), flush=True)
'''


class CudaAnalyzer:
    """`compute_spectrum(..., backend="cuda")` under NUMBA_ENABLE_CUDASIM=1 (own process: the variable must be set before numba is imported)"""
    def __init__(self):
        env = dict(os.environ, NUMBA_ENABLE_CUDASIM="1")
        self.p = subprocess.Popen([sys.executable, "-W", "ignore", "-c", _WORKER], cwd=C.VERIF, env=env, stdin=subprocess.PIPE,
                                  stdout=subprocess.PIPE, stderr=subprocess.DEVNULL, text=True, bufsize=1)

    def run(self, data: np.ndarray, fs: float, o: Dict[str, Any], iscsd: bool, freq: Optional[float] = None, L: Optional[int] = None):
        from speckit.analysis import SpectrumResult
        self.p.stdin.write(json.dumps({"data": np.asarray(data).tolist(), "fs": fs, "o": o, "freq": freq, "L": L}) + "\n")
        self.p.stdin.flush()
        line = self.p.stdout.readline()
        if not line:
            raise RuntimeError("cuda worker died")
        r = json.loads(line)
        if "err" in r:
            raise RuntimeError(r["err"])
        n = len(r["f"])
        K = np.array([len(d) for d in r["D"]], dtype=np.int64)
        d = {"f": np.array(r["f"], dtype=float), "r": np.zeros(n), "b": np.zeros(n), "L": np.array(r["L"], dtype=np.int64), "K": K, "navg": K,
             "D": [np.array(d, dtype=np.int64) for d in r["D"]], "O": np.zeros(n), "XX": np.array(r["XX"], dtype=float),
             "YY": np.array(r["YY"], dtype=float), "XY": np.array(r["XYr"], dtype=float) + 1j * np.array(r["XYi"], dtype=float),
             "S12": np.array(r["S12"], dtype=float), "S2": np.array(r["S2"], dtype=float), "M2": np.array(r["M2"], dtype=float),
             "compute_t": np.zeros(n)}
        return SpectrumResult(d, {}, iscsd, float(fs))

    def close(self):
        try:
            self.p.stdin.close()
            self.p.wait(timeout=10)
        except Exception:
            self.p.kill()


# ---------------------------------------------------------------- numerics
def seg_amp(x: np.ndarray, D, L: int, w: np.ndarray, order: int = -1) -> float:
    """magnitude scale of the rounding budget: max over the segments of Σ|x·w|; with detrending (order >= 0) the error of the fitted trend is
    proportional to the UNWEIGHTED size of the segment and enters every sample, hence + mean|x|·Σ|w| (sound also where the window suppresses
    the samples on which a trend is largest)"""
    D = np.asarray(D, dtype=np.int64)
    idx = D[:, None] + np.arange(L, dtype=np.int64)[None, :]
    ax = np.abs(x[idx])
    aw = np.abs(w)
    v = (ax * aw[None, :]).sum(axis=1)
    if order >= 0:
        v = v + ax.mean(axis=1) * float(aw.sum())
    return float(v.max()) + 1e-300


def poly_trend(N: int, coeffs: List[float], centred: bool = False) -> np.ndarray:
    """T(n) = Σ_k a_k (n/N)^k   (centred: in t = 2n/(N−1) − 1)"""
    n = np.arange(N, dtype=np.float64)
    t = (2 * n / max(N - 1, 1) - 1.0) if centred else n / N
    T = np.zeros(N)
    for k, a in enumerate(coeffs):
        T = T + a * t ** k
    return T


class Tols:
    """per-bin rounding budget of one (record pair, result): (tXX, tYY, tXY, tM2) from the magnitudes of the record AS ANALYSED"""
    def __init__(self, res, x1: np.ndarray, x2: Optional[np.ndarray], o: Dict[str, Any], fs: float, wcache: Dict[int, np.ndarray]):
        self.t = []
        f = np.asarray(res.f)
        for j in range(len(f)):
            L = int(res.L[j])
            if L not in wcache:
                wcache[L] = _an.window(o["win"], L, o.get("psll"))
            w = wcache[L]
            a = seg_amp(x1, res.D[j], L, w, o["order"])
            b = seg_amp(x2, res.D[j], L, w, o["order"]) if x2 is not None else a
            self.t.append(_an.bin_tol(L, 2 * np.pi * float(f[j]) / fs, a, b, o["order"]))


def fields(res, j: int, cross: bool) -> Dict[str, complex]:
    return {"XX": complex(res.XX[j]), "YY": complex(res.YY[j] if cross else res.XX[j]), "XY": complex(res.XY[j]), "M2": complex(res.M2[j])}


def same_plan(r0, r1) -> bool:
    return (np.array_equal(r0.f, r1.f) and np.array_equal(r0.L, r1.L) and len(r0.D) == len(r1.D)
            and all(np.array_equal(a, b) for a, b in zip(r0.D, r1.D)))


def compare_results(P: C.Part, r0, r1, t0: Tols, t1: Tols, cross: bool, fs: float, key: Tuple, what: str, sig: Dict[str, Any], rp: Dict[str, Any],
                    stats: Dict[str, float]) -> bool:
    """every bin: raw statistics (and Gxx, Gxy, coh) of r0 and r1 agree within the sum of the two rounding budgets"""
    if not same_plan(r0, r1):
        P.violations.append(C.Violation(what=f"{what}: the plan changed", signature={**sig, "sub": "plan"}, replay=rp))
        return False
    with warnings.catch_warnings(), np.errstate(all="ignore"):
        warnings.simplefilter("ignore")
        G0, G1 = np.asarray(r0.Gxx), np.asarray(r1.Gxx)
        Gxy0, Gxy1 = np.asarray(r0.Gxy), np.asarray(r1.Gxy)
        c0, c1 = (np.asarray(r0.coh), np.asarray(r1.coh)) if cross else (None, None)
    ok = True
    for j in range(len(r0.f)):
        L = int(r0.L[j])
        P.cases += 1
        tol = [a + b for a, b in zip(t0.t[j], t1.t[j])]
        F0, F1 = fields(r0, j, cross), fields(r1, j, cross)
        if L >= 2 and float(r0.S2[j]) > 0:
            P.nontrivial.add(key + (L,))
        for k, nm in enumerate(("XX", "YY", "XY", "M2")):
            dlt = abs(F0[nm] - F1[nm])
            if tol[k] > 0:
                stats["invariance_worst_ratio"] = max(stats.get("invariance_worst_ratio", 0.0), dlt / tol[k])
            if not dlt <= tol[k]:
                P.violations.append(C.Violation(
                    what=f"{what}: {nm}[{j}] = {F1[nm]!r} but {F0[nm]!r} without the trend (|diff| {dlt:.3g} > rounding budget {tol[k]:.3g}), L={L}, f={float(r0.f[j])!r}",
                    signature={**sig, "sub": "invariance", "field": nm}, replay={**rp, "bin": j}))
                ok = False
                break
        else:
            S2 = float(r0.S2[j])
            if S2 > 0:
                sc = 2.0 / (fs * S2)
                if not abs(G0[j] - G1[j]) <= sc * tol[0] + 8 * U * abs(G0[j]) or not abs(Gxy0[j] - Gxy1[j]) <= sc * tol[2] + 8 * U * abs(Gxy0[j]):
                    P.violations.append(C.Violation(what=f"{what}: Gxx/Gxy[{j}] changed: {G0[j]!r}->{G1[j]!r}, {Gxy0[j]!r}->{Gxy1[j]!r}",
                                                    signature={**sig, "sub": "invariance", "field": "Gxx/Gxy"}, replay={**rp, "bin": j}))
                    ok = False
            if cross:
                rr = 0.0
                for F, t in ((F0, t0.t[j]), (F1, t1.t[j])):
                    if F["XX"].real > 0 and F["YY"].real > 0 and abs(F["XY"]) > 0:
                        rr += 2 * t[2] / abs(F["XY"]) + t[0] / F["XX"].real + t[1] / F["YY"].real
                    else:
                        rr = math.inf
                if rr <= 0.05:
                    P.hit("coh.checked")
                    if not abs(float(c0[j]) - float(c1[j])) <= 1.2 * rr + 8 * U:
                        P.violations.append(C.Violation(what=f"{what}: coh[{j}] changed: {c0[j]!r} -> {c1[j]!r} (budget {1.2 * rr:.3g})",
                                                        signature={**sig, "sub": "invariance", "field": "coh"}, replay={**rp, "bin": j}))
                        ok = False
                else:
                    P.hit("coh.vacuous(budget not small against the estimate)")
    return ok


# ---------------------------------------------------------------- case specification (reproducible from the spec alone)
def make_spec(mode: str, idx: int, case_seed: int) -> Dict[str, Any]:
    r = np.random.default_rng([case_seed, idx])
    cross = bool(idx % 2)
    order = ORDERS[(idx // 2) % 3] if mode != "neg1" else -1
    sched = _an.SCHEDS[(idx // 6) % 4] if mode != "neg1" else _an.SCHEDS[(idx // 2) % 4]
    win = WINS[(idx // 3) % 2]
    o: Dict[str, Any] = {"scheduler": sched, "order": order, "win": win, "olap": [0.5, 0.75, "default", 0.3][int(r.integers(0, 4))],
                         "Jdes": int(r.integers(8, 22)), "Kdes": int(r.choice([2, 5, 20])), "bmin": float(r.choice([1.0, 2.0])),
                         "Lmin": int(r.choice([1, 1, 1, 8]))}
    if win == "kaiser":
        o["psll"] = float(r.choice([60.0, 100.0, 200.0]))
    N = int(r.integers(300, 2500))
    fs = float(r.choice([1.0, 2.0, 1000.0]))
    s: Dict[str, Any] = {"mode": mode, "idx": idx, "case_seed": case_seed, "cross": cross, "N": N, "fs": fs, "o": o, "rec_seed": int(r.integers(0, 2 ** 62)),
                         "scale": SCALES[idx % 3], "layout": ["2xN", "Nx2"][(idx // 2) % 2]}
    if mode == "single":
        L = int(1 + idx % 8) if idx % 5 else int(r.integers(9, 200))
        s["L"] = L
        s["N"] = int(L + r.choice([0, 1, 2, int(r.integers(0, 40)), int(r.integers(0, 4 * L + 1))]))
        s["freq"] = float(r.uniform(0.0, 0.5)) * fs if idx % 7 else [0.0, 0.5 * fs][(idx // 7) % 2]
    p = max(order, 0)
    # trends of degree <= p for each channel (top coefficient kept away from 0) and one of degree p+1 (centred)
    for nm in ("T1", "T2"):
        co = [float(s["scale"] * r.uniform(-1, 1)) for _ in range(p + 1)]
        co[-1] = float(s["scale"] * r.choice([-1.0, 1.0]) * r.uniform(0.3, 1.0))
        s[nm] = co
    s["Tnext"] = [0.0] * (order + 1) + [float(r.choice([-1.0, 1.0]) * r.choice([30.0, 1e3, 1e5]))]
    return s


def build_records(s: Dict[str, Any]) -> Tuple[np.ndarray, Optional[np.ndarray]]:
    r = np.random.default_rng(s["rec_seed"])
    N = s["N"]
    kind = s.get("kind", "noise")
    x1 = _an.record(r, N, kind)
    x2 = None
    if s["cross"]:
        x2 = 0.6 * np.concatenate([[0.0], x1[:-1]]) + _an.record(r, N, kind)
    c = unit_of(s)
    if c != 1.0:
        x1 = x1 * c
        x2 = x2 * c if x2 is not None else None
    return x1, x2


def unit_of(s: Dict[str, Any]) -> float:
    """the unit 2**unit_exp in which the record of this case is expressed (exact power of two; 1 when absent)"""
    return math.ldexp(1.0, int(s.get("unit_exp", 0) or 0))


def pack(x1, x2, how):
    if x2 is None:
        return np.ascontiguousarray(x1)
    return np.vstack([x1, x2]) if how == "2xN" else np.column_stack([x1, x2])


def run_impl(s: Dict[str, Any], x1, x2, backend: str, cuda: Optional[CudaAnalyzer], order: Optional[int] = None):
    o = dict(s["o"])
    if order is not None:
        o["order"] = order
    data = pack(x1, x2, s["layout"] if len(x1) > 2 else "2xN")
    keep = data.copy()
    if backend == "cuda":
        return cuda.run(pack(x1, x2, "2xN"), s["fs"], o, x2 is not None, s.get("freq"), s.get("L")), True
    with warnings.catch_warnings():
        warnings.simplefilter("ignore")
        if s["mode"] == "single":
            if s["idx"] % 4 == 1:
                from speckit.analysis import compute_single_bin
                res = compute_single_bin(data, s["fs"], s["freq"], L=s["L"], backend=backend, **o)
            else:
                res = _an.analyzer(data, s["fs"], backend=backend, **o).compute_single_bin(s["freq"], L=s["L"])
        elif s["idx"] % 4 == 2:
            from speckit.analysis import compute_spectrum
            res = compute_spectrum(data, s["fs"], backend=backend, **o)
        else:
            res = _an.compute(data, s["fs"], backend=backend, **o)
    return res, bool(np.array_equal(keep, data))


def short(s: Dict[str, Any]) -> Dict[str, Any]:
    return {k: s[k] for k in ("mode", "idx", "cross", "N", "fs", "scale", "layout", "L", "freq", "T1", "T2", "Tnext", "unit_exp") if k in s} | {"o": s["o"]}


def ref_delta_XX(x1a, x1b, res, j: int, o: Dict[str, Any], fs: float, order: int) -> Tuple[float, float]:
    """change of XX of bin j between records a and b by the definition (direct windowed DFT, extended precision)"""
    L = int(res.L[j])
    w = _an.window(o["win"], L, o.get("psll"))
    om = 2 * np.pi * float(res.f[j]) / fs
    D = [int(v) for v in res.D[j]]
    Xa = _an.ref_bin(x1a, None, D, L, w, om, order)[0]
    Xb = _an.ref_bin(x1b, None, D, L, w, om, order)[0]
    return Xa, Xb


def check_next_degree(P: C.Part, s: Dict[str, Any], be: str, r_base, r_next, t_base: Tols, t_next: Tols, x1, x1n, order: int, stats, sig, rp) -> None:
    """a trend of degree order+1 must change XX: asserted where the definition changes by >= 1e4 x the rounding budget"""
    o = dict(s["o"], order=order)
    cand = sorted(range(len(r_base.f)), key=lambda j: (-int(r_base.L[j]), j))[:3] if s["mode"] != "single" else [0]
    found = False
    for j in cand:
        L = int(r_base.L[j])
        if L < order + 2 or L * len(r_base.D[j]) > 40000:
            continue
        tol = t_base.t[j][0] + t_next.t[j][0]
        if not tol > 1e-290:                      # an all-zero window (e.g. hann(2)): nothing to compare
            P.hit("next-degree.zero-window")
            continue
        Xa, Xb = ref_delta_XX(x1, x1n, r_base, j, o, s["fs"], order)
        dref = Xb - Xa
        P.cases += 1
        if not abs(dref) >= 1e4 * tol:
            P.hit("next-degree.not-decisive(bin)")
            continue
        found = True
        dimp = float(r_next.XX[j]) - float(r_base.XX[j])
        P.hit("next-degree.decisive")
        P.nontrivial.add(("next", s["mode"], s["cross"], order, s["o"]["scheduler"], s["o"]["win"], be, L))
        stats["next_degree_min_ratio"] = min(stats.get("next_degree_min_ratio", math.inf), abs(dimp) / tol)
        if not (abs(dimp) >= 1e3 * tol and abs(dimp - dref) <= tol):
            P.violations.append(C.Violation(
                what=f"{be} order={order}: a trend of degree {order + 1} changes XX[{j}] by {dref:.6g} by the definition (= {abs(dref) / tol:.3g} x rounding budget) "
                     f"but the result changed by {dimp:.6g}; L={L}, scheduler={s['o']['scheduler']}, win={s['o']['win']}"
                     + (f" [record in units of 2**{int(s['unit_exp'])}]" if s.get("unit_exp") else ""),
                signature={**sig, "sub": "next-degree", "order": order}, replay={**rp, "bin": j}))
    if not found:
        P.hit("next-degree.no-decisive-bin(case)")


def run_spec(P: C.Part, s: Dict[str, Any], backends: List[str], cuda: Optional[CudaAnalyzer], stats: Dict[str, float]) -> None:
    x1, x2 = build_records(s)
    N, cross, fs = s["N"], s["cross"], s["fs"]
    o = s["o"]
    order = o["order"]
    rp0 = {"spec": s}
    if s["mode"] != "single":
        import logging
        try:
            logging.disable(logging.CRITICAL)
            with warnings.catch_warnings():
                warnings.simplefilter("ignore")
                _an.analyzer(pack(x1, x2, "2xN"), fs, **o).plan()
            logging.disable(logging.NOTSET)
        except (Exception, SystemExit) as ex:       # plan errors are C02's business (some schedulers call sys.exit() on an empty plan)
            logging.disable(logging.NOTSET)
            P.hit("plan-raised(skipped)")
            if len(P.notes) < 4:
                P.notes.append(f"plan raised for {short(s)}: {ex!r}"[:160])
            return
    cu = unit_of(s)
    ut = f" [record in units of 2**{int(s['unit_exp'])}]" if s.get("unit_exp") else ""
    T1 = poly_trend(N, s["T1"]) * cu
    T2 = poly_trend(N, s["T2"]) * cu
    variants: List[Tuple[str, np.ndarray, Optional[np.ndarray]]] = []
    if order >= 0:
        variants.append(("ch1", x1 + T1, x2))
        if cross:
            variants.append(("ch2", x1, x2 + T2))
            variants.append(("both", x1 + T1, x2 + T2))
    if s.get("cuda_light") and len(variants) > 1:
        variants = variants[-1:]                  # CUDA-simulator cases: only the "both channels" variant (the simulator is slow)
    # degree order+1, centred on the record, relative to the noise level
    Tn = poly_trend(N, s["Tnext"], centred=True) * cu
    x1n = x1 + Tn
    wc: Dict[int, np.ndarray] = {}
    results: Dict[str, Any] = {}
    for be in backends:
        if be == "cuda" and cuda is None:
            continue
        sig = {"mode": s["mode"], "backend": be, "order": order, "cross": cross, "scheduler": o["scheduler"], "win": o["win"]}
        if s.get("unit_exp"):
            sig["units"] = "small" if s["unit_exp"] < 0 else "large"
        rp = {**rp0, "backend": be}
        try:
            r_base, unchanged = run_impl(s, x1, x2, be, cuda)
            if not unchanged:
                P.violations.append(C.Violation(what=f"{be}: the analysis modified the caller's data", signature={**sig, "sub": "input-modified"}, replay=rp))
            t_base = Tols(r_base, x1, x2, o, fs, wc)
            P.hit(f"backend.{be}")
            P.hit(f"{s['mode']}.order{order}.{'cross' if cross else 'auto'}")
            P.hit(f"{s['mode']}.{o['scheduler']}")
            P.hit(f"win.{o['win']}")
            for j in range(len(r_base.f)):
                Lj = int(r_base.L[j])
                P.hit("L<=order" if Lj <= order else ("L=order+1" if Lj == order + 1 else ("L<=8" if Lj <= 8 else "L>8")))
            results[be] = r_base
            for vn, v1, v2 in variants:
                r_v, unchanged = run_impl(s, v1, v2, be, cuda)
                if not unchanged:
                    P.violations.append(C.Violation(what=f"{be}: the analysis modified the caller's data", signature={**sig, "sub": "input-modified"}, replay=rp))
                t_v = Tols(r_v, v1, v2, o, fs, wc)
                P.hit(f"variant.{vn}.scale{s['scale']:g}")
                key = (s["mode"], cross, order, o["scheduler"], o["win"], be, vn, s["scale"]) + ((("unit", int(s["unit_exp"])),) if s.get("unit_exp") else ())
                compare_results(P, r_base, r_v, t_base, t_v, cross, fs, key,
                                f"{be} {o['scheduler']} order={order} {'cross' if cross else 'auto'} win={o['win']}: polynomial of degree <= {max(order, 0)} "
                                f"(size {s['scale']:g} x noise) added to {vn}{ut}", {**sig, "variant": vn}, {**rp, "variant": vn}, stats)
                if vn == ("both" if cross else "ch1"):
                    results[be + "+trend"] = (r_v, t_v)
            # degree order+1 changes the estimate (order −1: a constant changes it)
            if be != "cuda":
                r_n, _ = run_impl(s, x1n, x2, be, cuda)
                t_n = Tols(r_n, x1n, x2, o, fs, wc)
                if same_plan(r_base, r_n):
                    check_next_degree(P, s, be, r_base, r_n, t_base, t_n, x1, x1n, order, stats, sig, rp)
            # order −1: the estimate is that of the raw windowed segments
            if order == -1:
                nb = len(r_base.f)
                bins = [j for j in range(nb) if int(r_base.L[j]) * len(r_base.D[j]) <= 6000][:: max(1, nb // 10)]
                for j, fld, obs, exp, tol in _an.check_result_against_ref(r_base, x1, x2, -1, o["win"], o.get("psll"), fs, bins=bins):
                    P.violations.append(C.Violation(what=f"{be} order=-1: {fld}[{j}]={obs!r} but the raw windowed segments give {exp!r} (tol {tol:.3g})",
                                                    signature={**sig, "sub": "raw-reference", "field": fld}, replay={**rp, "bin": j}))
                P.cases += len(bins)
                P.nontrivial.add(("neg1-ref", cross, o["scheduler"], o["win"], be))
        except (Exception, SystemExit) as ex:
            if be == "cuda":
                if len(P.notes) < 6:
                    P.notes.append(f"cuda simulator run failed: {ex!r}"[:160])
                continue
            P.violations.append(C.Violation(what=f"{be}: analysis raised {ex!r} for {short(s)}", signature={**sig, "sub": "raises"}, replay={**rp, "error": repr(ex)}))
    # backends agree (also on the trend-laden record)
    names = [b for b in backends if b in results]
    for nm in names[1:]:
        sig = {"mode": s["mode"], "backend": f"{names[0]}-vs-{nm}", "order": order, "cross": cross, "scheduler": o["scheduler"], "win": o["win"]}
        ta = Tols(results[names[0]], x1, x2, o, fs, wc)
        compare_results(P, results[names[0]], results[nm], ta, ta, cross, fs, ("agree", cross, order, o["scheduler"], o["win"], nm),
                        f"backends {names[0]} and {nm} disagree (order={order}, {o['scheduler']})", sig, {**rp0, "backend": nm}, stats)
        if names[0] + "+trend" in results and nm + "+trend" in results:
            (ra, tA), (rb, tB) = results[names[0] + "+trend"], results[nm + "+trend"]
            compare_results(P, ra, rb, tA, tB, cross, fs, ("agree+trend", cross, order, o["scheduler"], o["win"], nm),
                            f"backends {names[0]} and {nm} disagree on the trend-laden record (order={order}, {o['scheduler']})", sig,
                            {**rp0, "backend": nm}, stats)


def check_repeat(P: C.Part, s: Dict[str, Any], stats) -> None:
    """repeated compute() on one analyzer (state carried / record detrended in place would show) and analyzer data untouched"""
    x1, x2 = build_records(s)
    T1 = poly_trend(s["N"], s["T1"])
    v1 = x1 + T1
    for be in BACKENDS:
        sig = {"mode": "repeat", "backend": be, "order": s["o"]["order"], "cross": s["cross"], "scheduler": s["o"]["scheduler"], "win": s["o"]["win"]}
        try:
            with warnings.catch_warnings():
                warnings.simplefilter("ignore")
                an = _an.analyzer(pack(v1, x2, "2xN"), s["fs"], backend=be, **s["o"])
                keep = np.array(an.data, copy=True)
                ra = an.compute()
                rb = an.compute()
                rc = _an.compute(pack(v1, x2, "2xN"), s["fs"], backend=be, **s["o"])
        except (Exception, SystemExit):
            P.hit("repeat.skipped")
            continue
        P.cases += 1
        P.hit("repeat")
        if not np.array_equal(keep, an.data):
            P.violations.append(C.Violation(what=f"{be}: compute() modified the analyzer's record (detrending in place?)", signature={**sig, "sub": "record-modified"},
                                            replay={"spec": s, "backend": be}))
        t = Tols(ra, v1, x2, s["o"], s["fs"], {})
        compare_results(P, ra, rb, t, t, s["cross"], s["fs"], ("repeat", be, s["o"]["order"]), f"{be}: second compute() on the same analyzer differs", sig,
                        {"spec": s, "backend": be}, stats)
        compare_results(P, ra, rc, t, t, s["cross"], s["fs"], ("repeat-fresh", be, s["o"]["order"]), f"{be}: a fresh analyzer gives a different result", sig,
                        {"spec": s, "backend": be}, stats)



# ---------------------------------------------------------------- units: detrending is linear, it commutes with rescaling the record
def unit_spec(mode: str, idx: int, case_seed: int, unit_exp: int, order: Optional[int] = None, scale: Optional[float] = None) -> Dict[str, Any]:
    """a case of `make_spec` whose whole record (noise and trends) is expressed in units of 2**unit_exp"""
    s = make_spec(mode, idx, case_seed)
    s["unit_exp"] = int(unit_exp)
    s["N"] = min(int(s["N"]), 1200) if mode != "single" else s["N"]
    if scale is not None and scale != s["scale"]:
        q = float(scale) / float(s["scale"])
        s["T1"] = [float(v * q) for v in s["T1"]]
        s["T2"] = [float(v * q) for v in s["T2"]]
        s["scale"] = float(scale)
    if order == -1:
        s["o"]["order"] = -1
        s["Tnext"] = [float(s["Tnext"][-1])]
        if mode == "single":
            s["L"] = max(int(s["L"]), 2)
            s["N"] = max(int(s["N"]), s["L"])
    return s


def check_scale(P: C.Part, s: Dict[str, Any], stats: Dict[str, float]) -> None:
    """statistics of (c x) == c**2 statistics of x (M2: c**4), bit for bit, c = 2**unit_exp: the SAME code path on the same plan is run twice and
    every operation of it (products, sums, FMAs, divisions by counts, any re-association chosen at compile time) commutes exactly with a power-of-two
    factor as long as nothing under/overflows (bounds: see EXACT_MIN_EXP).  On the base record, on the record with a removable trend and on the record
    with a trend of the next degree; both backends; window sums S2, S12 and the plan must not depend on the units at all."""
    e = int(s.get("unit_exp", 0) or 0)
    if e == 0 or e < EXACT_MIN_EXP:
        return
    c = math.ldexp(1.0, e)
    s0 = {k: v for k, v in s.items() if k != "unit_exp"}
    u1, u2 = build_records(s0)
    o = s["o"]
    order, cross, N = o["order"], s["cross"], s["N"]
    recs: List[Tuple[str, np.ndarray, Optional[np.ndarray]]] = [("base", u1, u2)]
    if order >= 0:
        if cross:
            recs.append(("trend", u1 + poly_trend(N, s["T1"]), u2 + poly_trend(N, s["T2"])))
        else:
            recs.append(("trend", u1 + poly_trend(N, s["T1"]), None))
    recs.append(("next", u1 + poly_trend(N, s["Tnext"], centred=True), u2))
    for be in BACKENDS:
        sig = {"mode": s["mode"], "backend": be, "order": order, "cross": cross, "scheduler": o["scheduler"], "win": o["win"], "sub": "scale",
               "units": "small" if e < 0 else "large"}
        for nm, a1, a2 in recs:
            rp = {"spec": s, "backend": be, "kind": "scale", "record": nm}
            try:
                r0, _ = run_impl(s0, a1, a2, be, None)
                rc, _ = run_impl(s0, a1 * c, a2 * c if a2 is not None else None, be, None)
            except (Exception, SystemExit) as ex:
                P.hit("scale.raised(skipped; reported by the invariance stream)")
                continue
            P.cases += 1
            P.hit(f"scale.{be}.order{order}.{'cross' if cross else 'auto'}.{s['mode']}")
            if not same_plan(r0, rc) or not np.array_equal(r0.S2, rc.S2) or not np.array_equal(r0.S12, rc.S12):
                P.violations.append(C.Violation(what=f"{be} order={order}: the plan / window sums depend on the units of the record (x 2**{e}), record={nm}",
                                                signature={**sig, "field": "plan"}, replay=rp))
                continue
            bad = None
            for fld, pw in (("XX", 2), ("YY", 2), ("XY", 2), ("M2", 4)):
                if fld == "YY" and not cross:
                    continue
                v0 = np.asarray(getattr(r0, fld))
                vc = np.asarray(getattr(rc, fld))
                k = math.ldexp(1.0, pw * e)
                for j in range(len(v0)):
                    parts0 = (v0[j].real, v0[j].imag) if np.iscomplexobj(v0) else (float(v0[j]),)
                    partsc = (vc[j].real, vc[j].imag) if np.iscomplexobj(vc) else (float(vc[j]),)
                    for q0, qc in zip(parts0, partsc):
                        want = float(q0) * k
                        if not (math.isfinite(want) and math.isfinite(float(qc))) or (want != 0.0 and not 1e-290 <= abs(want) <= 1e290):
                            P.unstable += 1
                            P.hit("scale.out-of-range(not compared)")
                            continue
                        if int(r0.L[j]) >= 2 and want != 0.0:
                            P.nontrivial.add(("scale", s["mode"], cross, order, be, nm, fld, int(r0.L[j]), e))
                        if float(qc) != want and bad is None:
                            rel = abs(float(qc) - want) / max(abs(want), 1e-300)
                            stats["scale_worst_rel"] = max(stats.get("scale_worst_rel", 0.0), rel)
                            bad = (fld, j, float(qc), want, rel, pw)
            if bad is not None:
                fld, j, got, want, rel, pw = bad
                P.violations.append(C.Violation(
                    what=f"{be} {o['scheduler']} order={order} {'cross' if cross else 'auto'} win={o['win']} ({s['mode']}, record={nm}): {fld}[{j}] of the record "
                         f"multiplied by 2**{e} is {got!r} but 2**{pw * e} x the {fld} of the record itself is {want!r} (relative difference {rel:.3g}; a power-of-two "
                         f"rescaling is exact, the estimator is homogeneous of degree {pw}), L={int(r0.L[j])}, f={float(r0.f[j])!r}",
                    signature={**sig, "field": fld}, replay={**rp, "bin": j}))


def units_stream(P: C.Part, ctx, n_rounds: int, off: int, stats: Dict[str, float], enough) -> None:
    """the trend-invariance / next-degree / raw-reference / backends-agree predicates of `run_spec` on records expressed in units of 2**e, every band of
    UNIT_BANDS on every run, orders 0, 1, 2 (and −1), auto and cross, compute_single_bin and compute(), numba and numpy; plus `check_scale`"""
    k = 0
    for rnd in range(n_rounds):
        for i in range(14):
            if enough():
                return
            lo, hi = UNIT_BANDS[(k + rnd) % len(UNIT_BANDS)]
            e = int(ctx.rng.integers(lo, hi + 1))
            cs = int(ctx.rng.integers(0, 2 ** 62))
            sc = SCALES[(k // 2 + rnd) % 3]
            if i < 12:
                mode = "single" if i < 6 else "plan"
                s = unit_spec(mode, off + i + 6 * rnd, cs, e, scale=sc)      # idx rotation: cross = idx % 2, order = (idx // 2) % 3
                if mode == "single" and s["L"] < 4 and rnd % 2 == 0:
                    s["L"] = int(4 + (s["rec_seed"] % 60))                    # mostly L > p+1 here (short L are covered by stream 1); N >= L
                    s["N"] = max(int(s["N"]), s["L"] + int(s["rec_seed"] % 7))
            else:
                s = unit_spec("single" if i == 12 else "plan", off + (i - 12) + 2 * rnd, cs, e, order=-1)
                s["cross"] = bool((i + rnd) % 2)
                s["kind"] = ["offset", "drift"][(i + rnd) % 2]
            k += 1
            P.hit(f"units.2**[{lo},{hi}]")
            run_spec(P, s, BACKENDS, None, stats)
            check_scale(P, s, stats)
            if k <= 2:
                P.sample({"op": "oracle-units", **short(s)})

# ---------------------------------------------------------------- correspondence
def check_Q_contract(P: C.Part, L: int, order: int) -> None:
    """`OrthoCols` / `InSpan` on the real speckit.core._build_Q(L, order)"""
    from speckit.core import _build_Q
    P.cases += 1
    try:
        Q = _build_Q(L, order)
    except Exception as ex:
        P.disagreements.append({"op": "Q-contract", "L": L, "order": order, "impl_raised": repr(ex)})
        return
    p1 = min(L, order + 1)
    P.hit(f"Q.order{order}." + ("L<=order" if L <= order else "L>order"))
    if L >= 2:
        P.nontrivial.add(("Q", order, L))
    if Q.shape != (L, p1) or Q.dtype != np.float64 or not np.all(np.isfinite(Q)):
        P.disagreements.append({"op": "Q-contract", "L": L, "order": order, "shape": list(Q.shape), "expected_shape": [L, p1], "dtype": str(Q.dtype)})
        return
    Ql = Q.astype(np.longdouble)
    orth = float(np.abs(Ql.T @ Ql - np.eye(p1)).max())
    t = np.linspace(-1.0, 1.0, L, dtype=np.longdouble)
    n = np.arange(L, dtype=np.longdouble)
    worst = 0.0
    for k in range(order + 1):
        for mono in (t ** k, n ** k):           # the centred grid of _build_Q and the sample index (the same polynomial space)
            nrm = float(np.sqrt(np.dot(mono, mono)))
            res = mono - Ql @ (Ql.T @ mono)
            worst = max(worst, float(np.sqrt(np.dot(res, res))) / max(nrm, 1e-300))
    if not (orth <= 1e-12 * (order + 1) and worst <= 1e-10):
        P.disagreements.append({"op": "Q-contract", "L": L, "order": order, "max|QtQ-I|": orth, "monomial_residual_rel": worst,
                                "limits": [1e-12 * (order + 1), 1e-10]})


def ref_line(order: int, cross: bool, x1, x2, starts, L: int, w, omega: float, Q) -> str:
    parts = ["ref", str(order), "1" if cross else "0", C.arr(x1)] + ([C.arr(x2)] if cross else []) + [C.iarr(starts), str(L), C.arr(w), C.f2h(omega)]
    if order >= 1:
        parts.append(f"{Q.shape[0]} {Q.shape[1]} " + " ".join(C.f2h(v) for v in Q.reshape(-1)))
    return " ".join(parts)


def correspondence(ctx) -> C.Part:
    """(a) the CONTRACT of the theorems on the real `_build_Q`: orthonormal columns spanning the polynomials of degree <= p;
       (b) the reference estimator of the theorems (Model.refStats with the real Q, Float) vs the real kernels (numba, numpy) on
           trend-laden records, orders −1…2, auto and cross, L from p+1 up"""
    P = C.Part()
    for order in (1, 2):
        for L in range(1, 65):
            check_Q_contract(P, L, order)
        for _ in range(ctx.scale(20, 200)):
            check_Q_contract(P, int(ctx.rng.integers(65, 5001)), order)
    P.sample({"op": "Q-contract", "orders": [1, 2], "L": "1..64 + random up to 5000"})
    from speckit import core
    n = ctx.scale(36, 360)
    for i in range(n):
        if ctx.time_left() < 30:
            P.notes.append("time budget reached")
            break
        r = ctx.rng
        order = [-1, 0, 1, 2][i % 4]
        cross = bool((i // 4) % 2)
        Lmin = max(order + 1, 1)
        L = int(r.choice([Lmin, Lmin + 1, int(r.integers(Lmin, 9)), int(r.integers(Lmin, 49))]))
        N = L + int(r.integers(0, 50))
        K = int(r.integers(1, 6))
        starts = np.sort(r.integers(0, N - L + 1, size=K)).astype(np.int64)
        w = np.ascontiguousarray(np.hanning(L + 2)[1:-1] if i % 3 else np.kaiser(L + 1, 5.0)[:-1], dtype=np.float64)
        omega = float(r.choice([0.0, np.pi, float(r.uniform(0.05, 3.0)), float(r.uniform(0.05, 3.0))]))
        scale = SCALES[i % 3]
        x1 = r.standard_normal(N) + poly_trend(N, [scale * float(r.uniform(-1, 1)) for _ in range(max(order, 0) + 2)])
        x2 = r.standard_normal(N) + poly_trend(N, [scale * float(r.uniform(-1, 1)) for _ in range(max(order, 0) + 1)])
        try:
            Q = core._build_Q(L, order) if order >= 1 else None
        except Exception as ex:      # a `_build_Q` that raises on a valid (L, order) is a broken correspondence, not an infrastructure error
            P.cases += 1
            P.disagreements.append({"op": "ref-vs-kernel", "L": L, "order": order, "impl_raised": "_build_Q: " + repr(ex)})
            continue
        name = {-1: "_stats_win_only_", 0: "_stats_detrend0_"}.get(order, "_stats_poly_") + ("csd" if cross else "auto")
        args = [x1] + ([x2] if cross else []) + [starts, L, w, omega] + ([Q] if order >= 1 else [])
        a = seg_amp(x1, starts, L, w, order)
        b = seg_amp(x2, starts, L, w, order) if cross else a
        tXX, tYY, tXY, tM2 = _an.bin_tol(L, omega, a, b, order)
        tol = (tXX, tYY, tXY, tXY, tM2)
        mdl = tuple(ctx.driver.floats(ref_line(order, cross, x1, x2, starts, L, w, omega, Q)))
        for be, fn in (("numba", getattr(core, name)), ("numpy", getattr(core, name + "_np"))):
            imp = tuple(float(v) for v in fn(*args))
            P.cases += 1
            P.hit(f"ref.{be}.order{order}.{'cross' if cross else 'auto'}")
            P.nontrivial.add(("ref", be, order, cross, L, K, scale))
            bad = [k for k in range(5) if not abs(imp[k] - mdl[k]) <= tol[k]]
            if bad:
                P.disagreements.append({"op": "ref-vs-kernel", "backend": be, "fn": name, "components": bad, "impl": imp, "model": mdl, "tol": tol,
                                        "case": {"L": L, "starts": starts.tolist(), "omega": omega, "order": order, "w": w.tolist(),
                                                 "x1": x1.tolist(), "x2": x2.tolist() if cross else None}})
        if i < 3:
            P.sample({"op": "ref-vs-kernel", "fn": name, "L": L, "K": K, "order": order, "omega": omega, "trend_scale": scale, "model": mdl})
    # (c) `_build_Q` as TRANSLATED from the source (Gen/BuildQ.lean, executed in Float) vs the real `_build_Q`; its random choices come from a child
    #     generator seeded by ONE integer drawn here, after everything above
    buildq_generated_vs_real(ctx, P, np.random.default_rng(int(ctx.rng.integers(0, 2 ** 31 - 1))))
    return P


def buildq_tol(L: int) -> float:
    """bound on sqrt(L)*|dQ_ij| (the entries of Q are O(1/sqrt(L)), so this is a bound relative to the column norm 1).
    Both sides orthonormalise the same L x (p+1) Vandermonde matrix V of nodes in [-1, 1], whose 2-norm condition number is below 4 for every L
    (Gram matrix ~ L*[[1,0,1/3],[0,1/3,0],[1/3,0,1/5]]): Householder QR (LAPACK) is backward stable, |dQ| <= c*(p+1)*L*u*kappa in norm, classical
    Gram-Schmidt with left-to-right sums of L terms loses at most c*L*u*kappa^2; (64 + 16 L) u covers both with kappa^2 < 16 (measured: below 1e-13
    for every L <= 4096, i.e. < 2% of the bound at L = 4096).  A wrong node, sign or column changes sqrt(L)*Q_ij by at least ~1/L >= 2e-4."""
    return (64.0 + 16.0 * L) * U


def buildq_generated_vs_real(ctx, P: C.Part, rng: np.random.Generator) -> None:
    from speckit.core import _build_Q
    Ls = list(range(1, 65)) + [int(v) for v in rng.integers(65, 4097, size=ctx.scale(6, 60))] + [4096]
    cases = [(L, order) for order in (1, 2) for L in Ls] + [(int(rng.integers(1, 40)), o) for o in (0, 3, -1, 4)]
    for L, order in cases:
        P.cases += 1
        try:
            Q = np.asarray(_build_Q(L, order))
            raised = None
        except Exception as ex:
            Q, raised = None, repr(ex)
        r = ctx.driver.ask(f"buildq {L} {order}")
        cls = "raises" if raised else ("L<=order" if L <= order else ("L=order+1" if L == order + 1 else ("L<=64" if L <= 64 else "L>64")))
        P.hit(f"buildq.order{order}.{cls}")
        if raised is not None or r.strip() == "none":
            if not (raised is not None and r.strip() == "none"):
                P.disagreements.append({"op": "buildq", "L": L, "order": order, "impl_raised": raised, "generated_lean": r[:80],
                                        "note": "the translated definition returns `none` exactly where the Python raises"})
            continue
        if r.startswith("ERR"):
            P.disagreements.append({"op": "buildq", "L": L, "order": order, "driver": r[:200]})
            continue
        head, _, cells = r.partition("|")
        shape = [int(t) for t in head.split()]
        if shape != list(Q.shape) or Q.dtype != np.float64:
            P.disagreements.append({"op": "buildq", "L": L, "order": order, "impl_shape": list(Q.shape), "generated_shape": shape, "dtype": str(Q.dtype)})
            continue
        G = np.array([C.h2f(t) for t in cells.split()], dtype=np.float64).reshape(Q.shape)
        if L >= 2:
            P.nontrivial.add(("buildq", order, L))
        dots = (G * Q).sum(axis=0)
        sg = np.where(dots < 0, -1.0, 1.0)
        err = float(np.abs(G * sg[None, :] - Q).max() * np.sqrt(L)) if np.all(np.isfinite(G)) else float("inf")
        tol = buildq_tol(L)
        v = rng.standard_normal(L) * float(rng.choice([1.0, 1e3]))
        pr = np.array(ctx.driver.floats(f"buildqproj {L} {order} " + C.arr(v)))
        Ql = Q.astype(np.longdouble)
        want = np.asarray(Ql @ (Ql.T @ v.astype(np.longdouble)), dtype=np.float64)
        perr = float(np.abs(pr - want).max()) if pr.shape == want.shape and np.all(np.isfinite(pr)) else float("inf")
        ptol = tol * (order + 1) * float(np.abs(v).max())
        if L in (3, 17) and order == 2:
            P.sample({"op": "buildq", "L": L, "order": order, "sqrtL_max_abs_diff_up_to_sign": err, "tol": tol, "projector_max_abs_diff": perr,
                      "projector_tol": ptol, "signs": sg.tolist()})
        if not (err <= tol and perr <= ptol):
            small = L <= 8
            P.disagreements.append({"op": "buildq", "L": L, "order": order, "sqrtL_max_abs_diff_up_to_sign": err, "tol": tol,
                                    "projector_max_abs_diff": perr, "projector_tol": ptol, "column_signs": sg.tolist(),
                                    "impl": Q.tolist() if small else "(L x cols matrix of _build_Q(L, order))",
                                    "generated_lean": G.tolist() if small else "(reply of the driver op `buildq L order`)", "v_seeded": "child rng"})


# ---------------------------------------------------------------- oracle
def edge_stream(P: C.Part, stats) -> None:
    """zero / constant base records (the analysed record is then a pure polynomial), tiny records"""
    k = 0
    for kind, N, order, cross in (("zero", 400, 0, False), ("zero", 400, 1, True), ("zero", 300, 2, True), ("const", 300, 0, True), ("const", 300, 2, False),
                                  ("noise", 8, 0, True), ("noise", 5, 1, False), ("noise", 3, 2, True), ("noise", 2, 0, False), ("noise", 1, 0, False)):
        for sched in ("ltf", "vectorized_ltf"):
            s = make_spec("plan", 7000 + k, 99)
            s.update({"N": N, "kind": kind, "cross": cross})
            s["o"].update({"order": order, "scheduler": sched, "Jdes": 8, "Kdes": 2, "olap": 0.5, "Lmin": 1})
            p = order
            s["T1"] = [s["scale"] * (0.5 + 0.1 * j) for j in range(p + 1)]
            s["T2"] = [-s["scale"] * (0.7 + 0.1 * j) for j in range(p + 1)]
            s["Tnext"] = [0.0] * (order + 1) + [1e3]
            k += 1
            P.hit(f"edge.{kind}.N{N}")
            run_spec(P, s, BACKENDS, None, stats)


def oracle(ctx, intensive: bool = False, hints: List[Dict[str, Any]] = ()) -> C.Part:
    P = C.Part()
    stats: Dict[str, float] = {}
    mult = 4 if intensive else 1
    cuda = None
    try:
        cuda = CudaAnalyzer()
    except Exception as ex:  # noqa
        P.notes.append(f"CUDA simulator worker unavailable: {ex!r}"[:160])
    budget = min(ctx.time_left() - 15, (600.0 if ctx.thorough else 75.0) * (2 if intensive else 1))
    import time as _t
    t_start = _t.time()

    def used() -> float:
        return (_t.time() - t_start) / max(budget, 1.0)

    def cs() -> int:
        return int(ctx.rng.integers(0, 2 ** 62))

    def enough() -> bool:
        return len(P.violations) >= 5

    off = int(ctx.rng.integers(0, 10 ** 6)) * 144
    # 0. CUDA through the simulator (analyzer level).  The simulator costs ~0.5 s per kernel launch (= per bin), so: single-bin cases on the six
    #    kernels (orders 0,1,2 x auto/cross, short L) and full `compute_spectrum(backend="cuda")` runs restricted by `band` to three bins:
    #    invariance on the CUDA backend and agreement with numba
    if cuda is not None:
        n_cu = ctx.scale(7, 28) * (2 if intensive else 1)
        for i in range(n_cu):
            if used() > 0.3 or enough():
                if used() > 0.3:
                    P.notes.append(f"time budget reached after {i} of {n_cu} CUDA-simulator cases")
                break
            k = i % 7
            s = make_spec("single" if k < 6 else "plan", off + (i if k < 6 else 1 + 2 * (i // 7)), cs())   # idx rotation: cross = idx%2, order = (idx//2)%3
            s["layout"] = "2xN"
            s["cuda_light"] = True
            if s["mode"] == "plan":
                s["N"] = 400
                s["o"].update({"Jdes": 6, "Kdes": 2, "olap": 0.5, "Lmin": 24})
                try:
                    x1, x2 = build_records(s)
                    with warnings.catch_warnings():
                        warnings.simplefilter("ignore")
                        f = np.asarray(_an.analyzer(pack(x1, x2, "2xN"), s["fs"], **s["o"]).plan()["f"])
                    j0 = int(np.random.default_rng(s["rec_seed"]).integers(0, max(1, len(f) - 2)))
                    j1 = min(j0 + 2, len(f) - 1)
                    s["o"]["band"] = [float(f[j0]) * (1 - 1e-12), float(f[j1]) * (1 + 1e-12)]
                except (Exception, SystemExit):
                    continue
            run_spec(P, s, ["numba", "cuda"], cuda, stats)
    else:
        P.notes.append("CUDA backend not exercised (simulator worker unavailable)")
    # 0a. units: every predicate on records scaled by exact powers of two (2**-200 … 2**+130), and the bit-for-bit homogeneity of the statistics
    units_stream(P, ctx, ctx.scale(2, 8) * (2 if intensive else 1), off, stats, enough)
    # 0b. order −1 through the single-bin entry point, auto and cross, every backend, on records with an offset: the raw-windowed-segment reference
    for i in range(ctx.scale(6, 24) * mult):
        if enough():
            break
        s = make_spec("single", off + 2 * i, cs())
        s["o"]["order"] = -1
        s["Tnext"] = [float(s["Tnext"][-1])]
        s["cross"] = bool(i % 2)
        s["kind"] = ["offset", "drift"][(i // 2) % 2]
        s["L"] = max(int(s["L"]), 2 + i % 7)
        s["N"] = max(min(s["N"], 1200), s["L"])
        run_spec(P, s, BACKENDS, None, stats)
    # 1. every L in 1..8 (and some larger) through compute_single_bin, orders 0..2, auto and cross
    n_single = ctx.scale(96, 720) * mult
    for i in range(n_single):
        if used() > 0.5 or enough():
            break
        s = make_spec("single", off + i, cs())
        run_spec(P, s, BACKENDS, None, stats)
        if i < 2:
            P.sample({"op": "oracle", **short(s)})
    # 2. full plans (Lmin = 1 plans reach short segments), schedulers x windows x orders x auto/cross
    n_plan = ctx.scale(48, 432) * mult
    for i in range(n_plan):
        if used() > 0.8 or enough():
            if used() > 0.8:
                P.notes.append(f"time budget reached in the plan sweep after {i} of {n_plan} cases")
            break
        s = make_spec("plan", off + i, cs())
        run_spec(P, s, BACKENDS, None, stats)
        if i < 2:
            P.sample({"op": "oracle", **short(s)})
    # 3. order −1: no detrending at all
    n_neg = ctx.scale(16, 96) * mult
    for i in range(n_neg):
        if used() > 0.9 or enough():
            break
        s = make_spec("neg1" if i % 4 else "single", off + i, cs())
        s["o"]["order"] = -1
        s["Tnext"] = [float(s["Tnext"][-1])]
        s["N"] = min(s["N"], 1200)
        if i % 4 == 0:
            # single-bin entry point (its own kernel dispatch): `off + i` is even there, so auto/cross is set explicitly; records with a segment mean
            # (offset / drift), so that a mean-removing kernel reached by mistake cannot pass for the raw estimate
            s["cross"] = bool((i // 4) % 2)
            s["kind"] = ["offset", "drift", "noise"][(i // 8) % 3]
            s["L"] = max(int(s["L"]), 2 + (i // 4) % 7)
            s["N"] = max(s["N"], s["L"])
        run_spec(P, s, BACKENDS, None, stats)
    # 4. state: repeated compute on one analyzer, record untouched
    for i in range(ctx.scale(3, 12)):
        if used() > 0.95 or enough():
            break
        check_repeat(P, make_spec("plan", off + 2 * i + 1, cs()), stats)
    # 5. edge stream
    if not enough() and used() < 1.0:
        edge_stream(P, stats)
    if cuda:
        cuda.close()
    P.notes.append("worst observed: " + ", ".join(f"{k}={v:.3g}" for k, v in sorted(stats.items())))
    return P


def replay(ctx, data) -> C.Part:
    P = C.Part()
    stats: Dict[str, float] = {}
    cuda = None
    for v in data.get("violations", []):
        rp = v["replay"]
        s = rp["spec"]
        be = rp.get("backend", "numba")
        if v.get("signature", {}).get("mode") == "repeat":
            check_repeat(P, s, stats)
            continue
        if rp.get("kind") == "scale":
            check_scale(P, s, stats)
            continue
        bes = ["numba", "cuda"] if "cuda" in str(be) else BACKENDS
        if "cuda" in bes and cuda is None:
            try:
                cuda = CudaAnalyzer()
            except Exception:
                cuda = None
        run_spec(P, s, bes, cuda, stats)
    if cuda:
        cuda.close()
    return P
