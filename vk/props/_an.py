"""Shared helpers for the analysis-level properties (C05–C14, C20): record generators, running the real
analyzer, an INDEPENDENT reference evaluation of a result from its own plan (direct windowed DFT in extended
precision), sound tolerances, and the attribute correspondence against the generated Lean attribute table."""
from __future__ import annotations

import math
from typing import Any, Dict, List, Optional, Tuple

import numpy as np

from .. import common as C

U = 2.0 ** -53
SCHEDS = ["ltf", "lpsd", "vectorized_ltf", "new_ltf"]


# ---------------------------------------------------------------- records
def record(rng: np.random.Generator, N: int, kind: str = "noise") -> np.ndarray:
    t = np.arange(N)
    if kind == "noise":
        return rng.standard_normal(N)
    if kind == "offset":
        return rng.standard_normal(N) + float(rng.uniform(-1e3, 1e3))
    if kind == "drift":
        return rng.standard_normal(N) + 0.01 * float(rng.standard_normal()) * t + 1e-6 * float(rng.standard_normal()) * t * t
    if kind == "red":
        return np.cumsum(rng.standard_normal(N))
    if kind == "tone":
        return np.sin(2 * np.pi * float(rng.uniform(0.01, 0.4)) * t + float(rng.uniform(0, 6))) + 0.1 * rng.standard_normal(N)
    if kind == "zero":
        return np.zeros(N)
    if kind == "const":
        return np.full(N, float(rng.uniform(-5, 5)))
    raise ValueError(kind)


def options(rng: np.random.Generator, N: int, small: bool = True) -> Dict[str, Any]:
    """random valid analysis options (kept small so that a check stays fast)"""
    win = rng.choice(["kaiser", "hann", "kaiser"])
    o = {"order": int(rng.choice([-1, 0, 1, 2])), "olap": float(rng.choice([0.0, 0.5, 0.75, float(rng.uniform(0, 0.9))])),
         "Jdes": int(rng.integers(4, 30 if small else 120)), "Kdes": int(rng.choice([1, 2, 5, 20])),
         "bmin": float(rng.choice([1.0, 1.0, 2.0, 3.5])), "Lmin": int(rng.choice([1, 1, 8, max(1, N // 50)])),
         "scheduler": str(rng.choice(SCHEDS)), "win": str(win)}
    if win == "kaiser":
        o["psll"] = float(rng.choice([60.0, 100.0, 200.0, float(rng.uniform(40, 200))]))
    return o


def analyzer(data, fs: float, **o):
    from speckit.analysis import SpectrumAnalyzer
    return SpectrumAnalyzer(data, fs, **o)


def compute(data, fs: float, **o):
    return analyzer(data, fs, **o).compute()


# ---------------------------------------------------------------- windows
def kaiser_alpha(psll: float) -> float:
    x = psll / 100.0
    return ((((0.0889732 * x) + -0.493285) * x) + 4.71469) * x + -0.0821377


def window(win: Any, L: int, psll: Optional[float]) -> np.ndarray:
    """the window the analyzer must hand to the kernels, built independently of speckit"""
    if isinstance(win, str) and win.lower() == "kaiser":
        beta = kaiser_alpha(psll) * np.pi
        n = np.arange(L, dtype=np.longdouble)
        a = np.longdouble(L) / 2
        u = (n - a) / a
        arg = np.sqrt(np.maximum(0, 1 - u * u))
        return (np.i0(np.asarray(beta * arg, dtype=float)) / np.i0(float(beta))).astype(float)
    if isinstance(win, str) and win.lower() in ("hann", "hanning"):
        return np.hanning(L)
    if callable(win):
        return np.asarray(win(L), dtype=float)
    raise ValueError(win)


# ---------------------------------------------------------------- reference evaluation
def poly_basis(L: int, order: int) -> np.ndarray:
    """orthonormal basis of polynomials of degree <= order on the L-point grid (independent of _build_Q)"""
    t = np.linspace(-1.0, 1.0, L, dtype=np.longdouble) if L > 1 else np.zeros(1, dtype=np.longdouble)
    cols = []
    for k in range(order + 1):
        v = t ** k
        for c in cols:
            v = v - c * np.dot(c, v)
        for c in cols:                      # second pass (re-orthogonalisation)
            v = v - c * np.dot(c, v)
        nrm = np.sqrt(np.dot(v, v))
        if nrm > 1e-12 * max(1.0, float(np.sqrt(L))):
            cols.append(v / nrm)
    return np.stack(cols, axis=1) if cols else np.zeros((L, 0), dtype=np.longdouble)


def seg_dft(x: np.ndarray, s: int, L: int, w: np.ndarray, omega: float, order: int) -> Tuple[complex, float]:
    ld = np.longdouble
    v = x[s:s + L].astype(ld)
    if order == 0:
        v = v - v.mean()
    elif order >= 1:
        Q = poly_basis(L, order)
        v = v - Q @ (Q.T @ v)
    raw = float(np.abs(x[s:s + L] * w).sum())
    v = v * w.astype(ld)
    n = np.arange(L, dtype=ld)
    X = complex(float((v * np.cos(ld(omega) * n)).sum()), float(-(v * np.sin(ld(omega) * n)).sum()))
    return X, raw


def ref_bin(x1: np.ndarray, x2: Optional[np.ndarray], D, L: int, w: np.ndarray, omega: float, order: int):
    """(XX, YY, XY, M2) by the definition, plus magnitude scales for tolerances"""
    Xs, Ys, a, b = [], [], 0.0, 0.0
    for s in D:
        X, ra = seg_dft(x1, int(s), L, w, omega, order)
        Xs.append(X)
        a = max(a, ra)
        if x2 is not None:
            Y, rb = seg_dft(x2, int(s), L, w, omega, order)
            Ys.append(Y)
            b = max(b, rb)
    Xs = np.array(Xs)
    if x2 is None:
        Z = np.abs(Xs) ** 2 + 0j
        YY = float(np.mean(np.abs(Xs) ** 2))
        b = a
    else:
        Ys = np.array(Ys)
        Z = Xs * np.conj(Ys)
        YY = float(np.mean(np.abs(Ys) ** 2))
    mu = Z.mean()
    M2 = float(np.mean(np.abs(Z - mu) ** 2)) if len(Z) >= 2 else 0.0
    return float(np.mean(np.abs(Xs) ** 2)), YY, complex(mu), M2, a + 1e-300, b + 1e-300


def bin_tol(L: int, omega: float, a: float, b: float, order: int) -> Tuple[float, float, float, float]:
    """forward rounding budget for (XX, YY, |XY|, M2) — same model as C01 (Goertzel growth L*min(L,1/|sin w|))"""
    sn = max(abs(math.sin(omega)), 1e-300)
    g = 64.0 * U * (L + 4) * min(float(L) + 1.0, 1.0 / sn)
    if order >= 1:
        g *= 8.0
    return g * a * a, g * b * b, g * a * b, 4 * g * (a * b) ** 2


def check_result_against_ref(res, x1, x2, order: int, win, psll, fs: float, bins=None):
    """yield (bin index, field, observed, expected, tol) for every field of every checked bin that is off"""
    f = np.asarray(res.f)
    Ls = np.asarray(res.L)
    idx = range(len(f)) if bins is None else bins
    for j in idx:
        L = int(Ls[j])
        D = [int(d) for d in res.D[j]]
        w = window(win, L, psll)
        omega = 2 * np.pi * float(f[j]) / fs
        XX, YY, XY, M2, a, b = ref_bin(x1, x2, D, L, w, omega, order)
        tXX, tYY, tXY, tM2 = bin_tol(L, omega, a, b, order)
        # window sums
        s1, s2 = float(np.sum(w)), float(np.sum(w * w))
        wt = 64 * U * L * max(float(np.abs(w).max()), 1e-300) * max(float(np.abs(w).sum()), 1e-300) + 1e-12 * max(s1 * s1, 1e-300)
        obs = {"XX": float(res.XX[j]), "YY": float(res.YY[j]) if x2 is not None else float(res.XX[j]), "M2": float(res.M2[j]),
               "S12": float(res.S12[j]), "S2": float(res.S2[j])}
        exp = {"XX": XX, "YY": YY, "M2": M2, "S12": s1 * s1, "S2": s2}
        tol = {"XX": tXX, "YY": tYY, "M2": tM2, "S12": wt, "S2": wt}
        for k in ("XX", "YY", "M2", "S12", "S2"):
            if not abs(obs[k] - exp[k]) <= tol[k]:
                yield j, k, obs[k], exp[k], tol[k]
        z = complex(res.XY[j])
        zexp = XY if x2 is not None else complex(XX, 0.0)
        if not abs(z - zexp) <= tXY:
            yield j, "XY", z, zexp, tXY


# ---------------------------------------------------------------- attribute correspondence
CANCEL = {"GyyRx", "GyySx", "Hxy_dev", "Hxy_mag_error", "Hxy_rad_error", "Hxy_deg_error", "coh_dev", "coh_error"}
BIN_FIELDS = ("XX", "YY", "XY", "S12", "S2", "M2", "navg", "fs")


def fake_result(bins: List[Dict[str, Any]], iscsd: bool, fs: float):
    """a real SpectrumResult built from given per-bin base estimates"""
    from speckit.analysis import SpectrumResult
    n = len(bins)
    d = {"f": np.linspace(0.1, 1.0, n), "r": np.full(n, 0.1), "b": np.ones(n), "L": np.full(n, 10, dtype=np.int64),
         "K": np.array([int(b["navg"]) for b in bins], dtype=np.int64), "navg": np.array([int(b["navg"]) for b in bins], dtype=np.int64),
         "D": [np.arange(int(b["navg"]), dtype=np.int64) for b in bins], "O": np.zeros(n),
         "XX": np.array([b["XX"] for b in bins], dtype=float), "YY": np.array([b["YY"] for b in bins], dtype=float),
         "XY": np.array([b["XY"] for b in bins], dtype=complex), "S12": np.array([b["S12"] for b in bins], dtype=float),
         "S2": np.array([b["S2"] for b in bins], dtype=float), "M2": np.array([b["M2"] for b in bins], dtype=float),
         "compute_t": np.zeros(n)}
    return SpectrumResult(d, {"Jdes": n}, iscsd, fs)


def gen_bin(rng: np.random.Generator, iscsd: bool, edge: bool = False) -> Dict[str, Any]:
    """per-bin base estimates satisfying Cauchy–Schwarz; `edge` draws the degenerate corners"""
    XX = float(10 ** rng.uniform(-6, 6))
    YY = float(10 ** rng.uniform(-6, 6))
    coh = float(rng.choice([rng.uniform(0, 1), rng.uniform(0.9, 1.0), rng.uniform(0, 0.05), 1.0]))
    ph = float(rng.uniform(-np.pi, np.pi))
    if edge:
        k = int(rng.integers(0, 5))
        XX, YY, coh = [(0.0, YY, 0.0), (XX, 0.0, 0.0), (0.0, 0.0, 0.0), (XX, YY, 0.0), (XX, YY, 1.0)][k]
    XY = math.sqrt(coh * XX * YY) * complex(math.cos(ph), math.sin(ph))
    if not iscsd:
        YY, XY = XX, complex(XX, 0.0)
    w = 10 ** rng.uniform(-2, 2)
    S1 = float(w * rng.uniform(1, 50))
    S2 = float(w * w * rng.uniform(1, 30))
    if edge and rng.random() < 0.3:
        S2 = 0.0
    navg = int(rng.choice([1, 2, 3, 10, 100, int(rng.integers(1, 5000))]))
    M2 = float((XX * YY) * rng.uniform(0, 1)) if navg > 1 else 0.0
    return {"XX": XX, "YY": YY, "XY": XY, "S12": S1 * S1, "S2": S2, "M2": M2, "navg": navg}


def driver_attr(drv, mode: str, name: str, b: Dict[str, Any], fs: float):
    z = complex(b["XY"])
    line = " ".join(["attr", mode, name, C.f2h(b["XX"]), C.f2h(b["YY"]), C.f2h(z.real), C.f2h(z.imag), C.f2h(b["S12"]), C.f2h(b["S2"]),
                     C.f2h(b["M2"]), C.f2h(float(b["navg"])), C.f2h(fs)])
    r = drv.ask(line)
    if r.startswith("ERR"):
        raise RuntimeError(r + " for " + line[:80])
    if r == "NONE":
        return None
    t = r.split()
    if t[0] == "R":
        return C.h2f(t[1])
    return complex(C.h2f(t[1]), C.h2f(t[2]))


def close(a, b, rel: float = 1e-11, absol: float = 0.0) -> bool:
    """both non-finite in the same way, or within tolerance"""
    if a is None or b is None:
        return a is None and b is None
    za, zb = complex(a), complex(b)
    fa = math.isfinite(za.real) and math.isfinite(za.imag)
    fb = math.isfinite(zb.real) and math.isfinite(zb.imag)
    if not fa or not fb:
        if fa != fb:
            return False
        return (math.isnan(za.real) == math.isnan(zb.real)) and (math.isnan(za.imag) == math.isnan(zb.imag)) and \
               ((math.isnan(za.real) or za.real == zb.real) and (math.isnan(za.imag) or za.imag == zb.imag))
    return abs(za - zb) <= rel * max(abs(za), abs(zb)) + absol


def attr_correspondence(ctx, P: C.Part, names: List[str], n_bins: int) -> None:
    """generated Lean attribute table (driver, Float) vs the real SpectrumResult.__getattr__ on the same per-bin numbers"""
    import warnings
    for mode, iscsd in (("auto", False), ("cross", True)):
        fs = float(ctx.rng.choice([1.0, 2.0, 1000.0, float(ctx.rng.uniform(0.1, 1e4))]))
        bins = [gen_bin(ctx.rng, iscsd, edge=(i % 5 == 4)) for i in range(n_bins)]
        res = fake_result(bins, iscsd, fs)
        for name in names:
            with warnings.catch_warnings(), np.errstate(all="ignore"):
                warnings.simplefilter("ignore")
                try:
                    val = getattr(res, name)
                except Exception as ex:  # noqa
                    P.disagreements.append({"op": "attr", "mode": mode, "name": name, "impl_raised": repr(ex)})
                    continue
            for i, b in enumerate(bins):
                P.cases += 1
                m = driver_attr(ctx.driver, mode, name, b, fs)
                iv = None if val is None else (complex(val[i]) if np.iscomplexobj(val) else float(val[i]))
                P.nontrivial.add((mode, name, i % 5 == 4))
                if i == 0:
                    P.hit(f"{mode}.{name}")
                rel, ab = 1e-11, 1e-300
                if iscsd and name in CANCEL and b["XX"] > 0 and b["YY"] > 0:
                    coh_t = abs(complex(b["XY"])) ** 2 / (b["XX"] * b["YY"])
                    if name in ("GyyRx", "GyySx"):
                        ab = 256 * U * (2 * b["YY"] / (fs * b["S2"]) if b["S2"] != 0 else 0.0) + 1e-300
                    elif abs(1 - coh_t) < 1e-6:
                        P.unstable += 1       # sqrt(|1-coh|) at coh ~ 1 amplifies the last-ulp difference of |XY|^2
                        continue
                    else:
                        rel = 1e-8
                if not close(iv, m, rel=rel, absol=ab):
                    # angle of a (numerically) zero transfer function is decided by signed zeros: not a disagreement
                    if name in ("cf_rad", "cf_deg") and iv is not None and m is not None and (b["XX"] == 0 or abs(complex(b["XY"])) == 0):
                        P.unstable += 1
                        continue
                    P.disagreements.append({"op": "attr", "mode": mode, "name": name, "bin": {k: b[k] for k in b}, "fs": fs, "impl": iv, "model": m})
        P.sample({"op": "attr", "mode": mode, "fs": fs, "bin": bins[0]})
