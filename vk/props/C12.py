"""C12 — the Kaiser window delivers the requested side-lobe suppression (PARTIAL: see ASSUMPTIONS).

Shares the sinusoid machinery of C06 (tone generation, independent window, single-bin entry points)."""
from __future__ import annotations

import math
from typing import Any, Dict, List

import numpy as np

from .. import common as C
from . import _an
from .C06 import LD, U, tone, omega_of, hw_bins, viol as _viol, remember, win_opts, ref_window, win_transform, fres_gives, dirichlet_abs


def full(P: C.Part) -> bool:
    """stop searching after 8 violations that are NOT the recorded finding D12"""
    return len([v for v in P.violations if v.signature.get("envelope") != "within-1.5dB"]) >= 8


def viol(P: C.Part, what: str, sig, case, **extra):
    if sig.get("envelope") == "within-1.5dB" and len([v for v in P.violations if v.signature.get("envelope") == "within-1.5dB"]) >= 6:
        return          # keep a few instances of the recorded finding, not hundreds
    _viol(P, what, sig, case, **extra)

PROP = "C12"
# obligations of the properties this one is downstream of are obligations of this check too (vk.runner.collect_obligations)
UPSTREAM = ["C05"]
GEN_REGIONS = ["CoreKernels"]
THEOREMS = {
    "SpecKitV.Lemmas.Sinusoid": ["leakage_bound", "onpeak_lower", "sinusoid_identity", "winT_le_sum"],
    "SpecKitV.Lemmas.AnalyzerGlue": ["kaiserWin_dft_even", "kaiserWin_nonneg", "kaiserAlpha_cubic"],
    "SpecKitV.Lemmas.Goertzel": ["goertzelS_dft"],
}
CONTRACTS = ["np.kaiser(M, beta)[n] = I0(beta*sqrt(1-((n-(M-1)/2)/((M-1)/2))^2))/I0(beta) (tied by correspondence to Model.kaiserWin, an 80-term I0 series, to 1e-12)"]
ASSUMPTIONS = [
    "PARTIAL. NOT a theorem: the numeric side-lobe bound of the sampled Kaiser window itself, |W(theta)| <= 10^(-(P-1)/20) * W(0) for every "
    "theta more than sqrt(1+alpha^2) bins from 0, all L >= 64, all P in [40,200] (a statement about sampled I0 windows). What is proved is the "
    "reduction of the leakage ratio to that bound: sinusoid_identity / leakage_bound (response = two images of the window transform), "
    "onpeak_lower, winT_le_sum (|W| <= W(0) for a non-negative window), kaiserWin_dft_even, kaiserWin_nonneg, kaiserAlpha_cubic "
    "(kaiser_alpha is the stated cubic) and goertzelS_dft (the recurrence equals the DFT at fractional bins)",
    "the side-lobe claim is therefore decided by the oracle, which measures leakage on the real single-bin and full-plan paths; measured on the "
    "unchanged tree the window transform alone comes within 0.06 dB of the requested P-1 dB (L=64, P~195: first side lobe at -(P-0.94) dB) and "
    "the image term W(w+w0) of a tone one main-lobe width from 0 or Nyquist adds to it: the triangle bound (|W(w-w0)|+|W(w+w0)|)/(S1-|W(2w0)|) "
    "reaches -(P-1)+1.20 dB (L=64, P=44.75, tone at L/2 - main lobe) and the real single-bin path was measured at -(P-1)+0.95 dB "
    "(L=127, P=40). Read literally the 'P-1 dB' claim is therefore missed by up to ~1 dB for tones within a few main-lobe widths of 0 or "
    "Nyquist; this is a property of the sampled window plus the negative-frequency image. It is recorded as known finding D12 "
    "(KNOWN_FINDINGS.txt): a miss of the stated level by less than 1.5 dB is reported as KNOWN-FINDING, anything larger is a violation "
    "(the worst measured margin is written to the evidence notes every run)",
    "leakage at rounding level: responses are compared against max(requested level, rounding floor) with floor amplitude "
    "A*S1*u*(4L + 2*sqrt(L)/|sin w|), an empirical (not proved) bound >= 20x the largest rounding error observed for L <= 65536",
    "rounding / fastmath re-association are covered by tolerances, not by theorem",
    "attributes of a multi-bin result (ps, Gxx, psd, asd) are judged as amplitudes sqrt(ps*S1^2/2) = sqrt(Gxx*fs*S2/2) = sqrt(XX) with S1, S2 from the independent window; the "
    "attribute arithmetic (one multiplication / division / square root each) is allowed 8u of the value itself; a bin of a spectrum and the single-bin analysis at the same frequency "
    "and segment length with identical segment starts run the same kernel on the same numbers: compared within 2*floor_amp, the budget of the sweeps",
    "order 0 (the library default) analyses the sinusoid minus each segment's mean, not a pure sinusoid: the sweeps judge it at the literal level plus the "
    "amplitude the removed constant can add, cmax*(|W(w)| + sqrt(t)*|W(w0)|) with cmax = A*|D_L(w0)|/L (triangle inequality, W from the independent window; "
    "measured < 0.1% of the limit); orders 1, 2 are not swept (no such bound). History independence (same request on a fresh analyzer and a pristine copy "
    "of the record) is compared within twice the rounding floor above: both runs execute the same code on the same numbers; the same budget is used for "
    "independence of OTHER live analyzers (crowds: a member used interleaved vs its twin that was created, used and discarded before the session existed; measured "
    "bit-identical on the unchanged tree, in process and from a fresh interpreter)",
]
RULE = ("cases: unit-amplitude tone at fractional bin position m0 (at least 1.0001*sqrt(1+alpha^2) bins from 0 and L/2, often exactly there), "
        "L in {64,100,256,1000,4096,16384} (+ odd and larger lengths in thorough), P in [40,200], order -1, single segment (N=L, olap=0) and "
        "multi-segment records; analysis offsets delta on both sides from 1.0001*sqrt(1+alpha^2) bins (dense over the first side lobes) up to L/4 bins; "
        "plus full-plan analyses of a tone where every bin beyond the main lobe is compared with the single-bin response at the tone. "
        "The single-bin analysis is requested in every documented way: by segment length `L=`, by resolution `fres=fs/L` and by a resolution "
        "with NON-integer fs/fres = L + eps (0.05 <= |eps| <= 0.45: the library rounds to L samples and reports r = fres), through the method and "
        "the module-level wrapper, default / numba / numpy backend; offsets and the tone position are always in bins of fs/L with L the REPORTED "
        "segment length, and the response is demanded at the frequency that was requested (in Hz). "
        "SWEEPS (call history, the way a user scans around a line): ONE analyzer (method) or ONE record (module-level function) analyses the line, then ~8 offsets on both "
        "sides in random order, then the line again, for EVERY combination of backend {numpy, numba, auto} x order {-1, 0} x segmentation "
        "{olap=0 with N = K*L for K = 1, 2, 4, 8; olap=0 with N not a multiple of L; olap=0.5 with N a multiple of L; a random overlap; the default overlap}, "
        "each through the method and the function every run, requested by `L=`, `fres=fs/L` or a fractional `fres`, record handed in as a contiguous float64 array "
        "or as a strided view; every response is judged against the literal level AND compared with the same request on a fresh analyzer over a pristine copy "
        "of the record (a single-bin result does not depend on earlier analyses), and the caller's buffer must be bit-identical afterwards. "
        "Plans are run on the default / numpy / numba backend and must leave the record untouched too. "
        "PLAN-PS (the spectrum as the user reads it): a clean sinusoid, amplitude 1e-6 ... 1e6, analysed over a whole plan for EVERY combination of scheduler {ltf, lpsd, vectorized_ltf, "
        "new_ltf} x backend {numpy, numba/auto} x order {-1, 0} each round, psll in {120, 160, 180, 200} rotated so that every scheduler and every (backend, order) meets every psll "
        "each round, through analyzer.compute() / compute_spectrum() / lpsd() (bmin at or above the main-lobe half-width in half of the cases, Jdes of the lpsd scheduler chosen so that "
        "its bins lie beyond the main lobe of 0); for EVERY bin of the result (first round; an even spread of 40 in later quick rounds) farther than sqrt(1+alpha^2) bins of its "
        "own fs/L_i from the line, bin and line one half-width from 0 and Nyquist: result.ps[i] against ps of the single-bin analysis AT the line with the same L_i, literally -(P-1) dB, and "
        "ps / Gxx / psd / asd / XX of the bin against the single-bin analysis at the same (f_i, L_i) (identical segment starts; else the definition in extended precision over the "
        "bin's own segments) within twice the rounding floor, an absolute amount relative to the peak. "
        "CROWDS (a 'compare the settings' session: other live objects must not matter): 2-4 Kaiser analyzers with DIFFERENT psll (e.g. 200 / 140 / 80; constructed larger-first, "
        "smaller-first and in random order, each pattern every run) plus 0-2 non-Kaiser bystanders (hann / callables, often constructed last) are ALL set up first -- on one shared "
        "record and on different records, alternately differing in psll only and in everything (Kaiser spelling, order -1/0, overlap, backend, fs, L, request form) -- and only "
        "then used round-robin in a fresh random order each round (a, b, c, a, c, b, ...) for the line, ~6 offsets on both sides and the line again; in half of the sessions "
        "'intruders' run between the rounds (an analyzer constructed late and kept or dropped, a module-level compute_single_bin / compute_spectrum with other settings). Every "
        "response of a Kaiser member is judged literally for ITS OWN psll and main lobe (so a small-psll analyzer that picked up a wider main lobe fails at its first offsets), its "
        "window sums against the independent window, and it is compared (twice the rounding floor; L and K exactly) with a TWIN analyzer with the same arguments on a pristine copy "
        "of the record that was created, used and discarded BEFORE the session's first analyzer existed (a twin created during the session would itself rewrite shared state and "
        "repair the member it is compared with); for the hand-made sessions and the first generated ones the twins also come from a fresh interpreter, one analyzer at a time. "
        "distinct by (L, P rounded, side, near/far offset, K class, entry point, request form, backend) / sweeps by (L, P rounded, segmentation, backend, order, "
        "entry point, request form) / plan-ps by (scheduler, backend, order, P, entry point, side) / crowds by (L, P rounded, construction pattern, position in the construction order, same/different records, backend, order, intruders); non-trivial = the requested level is above the rounding floor")

SLACK_DB = 0.0
STATS: Dict[str, Any] = {}
LSET = [64, 100, 256, 1000, 4096, 16384]
LSET_THOROUGH = [65, 127, 1001, 4097, 65536, 100003]


def floor_amp(A: float, S1: float, L: int, omega: float) -> float:
    return abs(A) * S1 * U * (4.0 * L + 2.0 * math.sqrt(L) / max(abs(math.sin(omega)), 1e-300))


def note_margin(margin: float, info, key: str = "worst") -> None:
    if key not in STATS or margin < STATS[key][0]:
        STATS[key] = (margin, info)


# ================================================================ single-bin leakage
def gen_leak(rng: np.random.Generator, thorough: bool, i: int) -> Dict[str, Any]:
    Ls = LSET + (LSET_THOROUGH if thorough else [])
    L = int(Ls[i % len(Ls)])
    P = float(rng.choice([40.0, 60.0, 100.0, 150.0, 200.0, float(rng.uniform(40, 200)), float(rng.uniform(40, 200)), float(rng.uniform(180, 200))]))
    dmin = 1.0001 * hw_bins(P)
    lo, hi = dmin, L / 2 - dmin
    u = rng.random()
    m0 = lo if u < 0.15 else hi if u < 0.3 else float(rng.uniform(lo, hi))
    deltas: List[float] = []
    for side in (1.0, -1.0):
        room = min(L / 4.0, (hi - m0) if side > 0 else (m0 - lo))
        if room < dmin:
            continue
        ds = [dmin] + [dmin + float(rng.uniform(0, 1.5)) for _ in range(3)] + [float(rng.uniform(dmin, room)) for _ in range(3)] + [room]
        deltas += [side * min(d, room) for d in ds]
    multi = rng.random() < 0.25 and L <= 4096
    N = L if not multi else int(L * int(rng.integers(2, 5)) + rng.integers(0, L))
    phi = float(rng.uniform(0, 2 * np.pi))
    if deltas and not multi and L <= 4096 and rng.random() < 0.35:
        # adversarial phase: the two images e^{i phi} W(w-w0) and e^{-i phi} W(w+w0) add in phase at one of the first offsets
        d = deltas[int(rng.integers(0, min(4, len(deltas))))]
        w = _an.window("kaiser", L, P)
        t0, t1 = 2 * np.pi * m0 / L, 2 * np.pi * (m0 + d) / L
        phi = float((np.angle(win_transform(w, t1 + t0)) - np.angle(win_transform(w, t1 - t0))) / 2 + (np.pi if rng.random() < 0.5 else 0.0))
    c = {"kind": "leak", "L": L, "N": N, "P": P, "fs": float(rng.choice([1.0, 2.0, 1000.0, float(10 ** rng.uniform(-2, 4))])),
         "m0": m0, "phi": phi, "A": float(rng.choice([1.0, 1.0, float(10 ** rng.uniform(-3, 3))])),
         "deltas": deltas, "olap": 0.0 if not multi else float(rng.choice([0.0, 0.5, float(rng.uniform(0, 0.9))])),
         "via": str(rng.choice(["method", "func"])), "win": str(rng.choice(["kaiser", "kaiser", "np_kaiser", "sp_kaiser"]))}
    # how the segment is requested (drawn last, from a child stream, so that the cases above are those of earlier runs)
    r2 = np.random.default_rng(int(rng.integers(0, 2 ** 62)))
    c["how"] = str(r2.choice(["L", "L", "fres", "fres-frac", "fres-frac"]))
    c["backend"] = str(r2.choice(["auto", "auto", "numba", "numpy"]))
    if c["how"] == "fres-frac":
        c["q"] = L + float(r2.choice([-1.0, 1.0])) * float(r2.choice([0.4, 0.45, float(r2.uniform(0.05, 0.45)), float(r2.uniform(0.05, 0.45))]))
        if r2.random() < 0.5 and L >= 256:
            # a tone at a high bin number: an error of the analysis frequency proportional to the bin number is largest there
            c["m0"] = float(r2.uniform(max(lo, 0.6 * hi), hi))
            c["deltas"] = [math.copysign(min(abs(d), (hi - c["m0"]) if d > 0 else (c["m0"] - lo)), d) for d in deltas
                           if ((hi - c["m0"]) if d > 0 else (c["m0"] - lo)) >= dmin]
    # one more offset per side on the skirt just outside the main lobe (edge + 0.02 ... 0.3 bins)
    for side in (1.0, -1.0):
        room = min(L / 4.0, (hi - c["m0"]) if side > 0 else (c["m0"] - lo))
        if room >= dmin:
            c["deltas"] = c["deltas"] + [side * min(max(hw_bins(P) + float(r2.uniform(0.02, 0.3)), dmin), room)]
    return c


def request_kw(c: Dict[str, Any]) -> Dict[str, Any]:
    """the keyword that selects the segment: `L=`, `fres=fs/L` (integer fs/fres) or `fres=fs/q` with q = L + eps not an integer
    (the library then uses round(fs/fres) = L samples and reports r = fres).  Falls back to `L=` when the float quotient would not
    round back to L (a tie / representability corner that is C03's business, not a leakage question)."""
    L, fs, how = c["L"], c["fs"], c.get("how", "L")
    if how == "fres" and fres_gives(fs, L):
        return {"fres": float(fs) / L}
    if how == "fres-frac":
        fres = float(fs) / float(c["q"])
        if fres > 0 and math.isfinite(fres) and abs(float(fs) / fres - L) <= 0.47 and int(round(float(fs) / fres)) == L:
            return {"fres": fres}
    return {"L": L}


ENVELOPE_DB = 1.5   # known finding D12: on the unchanged code the literal P-1 dB level is missed by up to ~1.2 dB in two corners


def _judge(P: C.Part, c, sig, XX, XX0, Pdb, A, S1, L, omega, K, info, extra: float = 0.0, stat: str = "worst"):
    """the predicate sqrt(XX) <= sqrt(thr*XX0) + floor at the level the property states, -(P-1) dB (SLACK_DB = 0);
    returns (holds, floor-dominated, limit).  A miss by less than ENVELOPE_DB is labelled `within-1.5dB` in the
    violation signature (that is the recorded finding D12); a larger miss is labelled `beyond` and is never suppressed.
    `extra` (0 for order -1, i.e. for every case that existed before the order-0 sweeps) is an amplitude the caller has PROVED to be
    added by something that is not the sinusoid (the removed segment mean of order 0, see mean_allowance)."""
    thr = 10.0 ** ((-(Pdb - 1.0) + SLACK_DB) / 10.0)
    fl = floor_amp(A, S1, L, omega) + extra
    lim = math.sqrt(thr * XX0) + fl
    dominated = math.sqrt(thr * XX0) < 4.0 * fl
    P.hit("leak.floor-dominated" if dominated else "leak.above-floor")
    if XX > 0 and XX0 > 0 and not dominated:
        note_margin(-(Pdb - 1.0) - 10.0 * math.log10(XX / XX0), info, stat)
    holds = math.sqrt(max(XX, 0.0)) <= lim
    lim_env = math.sqrt(10.0 ** ((-(Pdb - 1.0) + ENVELOPE_DB) / 10.0) * XX0) + fl
    sig["envelope"] = "within-1.5dB" if math.sqrt(max(XX, 0.0)) <= lim_env else "beyond"
    if not holds:
        P.hit("leak.above-P-1dB:" + sig["envelope"])
    return holds, dominated, lim


def check_leak(P: C.Part, c: Dict[str, Any]) -> None:
    import speckit
    remember(c)
    L, N, fs, Pdb, m0, A = c["L"], c["N"], c["fs"], c["P"], c["m0"], c["A"]
    f0 = m0 * fs / L
    x = tone(N, A, omega_of(f0, fs), c["phi"])
    o = dict(win_opts(c["win"], Pdb), order=-1, olap=c["olap"])
    if c.get("backend", "auto") != "auto":
        o["backend"] = c["backend"]
    kw = request_kw(c)
    form = "L" if "L" in kw else c["how"]
    sig0 = {"subclaim": "leakage", "path": "single"}
    P.cases += 1
    P.hit(f"leak.request={form},{c['via']},{c.get('backend', 'auto')}")
    try:
        an = speckit.SpectrumAnalyzer(x, fs, **o)
        get = (lambda f: an.compute_single_bin(f, **kw)) if c["via"] == "method" else (lambda f: speckit.compute_single_bin(x, fs, f, **kw, **o))
        r0 = get(f0)
    except Exception as ex:  # noqa
        viol(P, f"single-bin analysis of a tone raised {ex!r} (request {kw}, N={N}, psll={Pdb})", dict(sig0, raises=True), c)
        return
    # the bins of the property are those of the segment length actually used = the reported one
    Lr = int(np.asarray(r0.L).ravel()[0])
    deltas = c["deltas"]
    if Lr != L:
        P.hit("leak.reported-L-differs")
        if Lr < 64 or Lr > N:
            return
        sc = Lr / L
        dmin_r, m0r = 1.0001 * hw_bins(Pdb), m0 * sc
        if min(m0r, Lr / 2 - m0r) < dmin_r:
            return
        deltas = [d * sc for d in deltas if abs(d * sc) >= dmin_r and dmin_r <= m0r + d * sc <= Lr / 2 - dmin_r]
        L, m0 = Lr, m0r
    w = ref_window(c["win"], L, Pdb).astype(LD)
    S1, S2 = float(w.sum()), float((w * w).sum())
    for nm, ob, ex in (("S12", float(r0.S12[0]), S1 * S1), ("S2", float(r0.S2[0]), S2), ("ENBW", float(r0.ENBW[0]), fs * S2 / (S1 * S1))):
        if not abs(ob - ex) <= 1e-10 * abs(ex):
            viol(P, f"{nm} = {ob!r} but the DFT-even Kaiser window with beta = kaiser_alpha({Pdb})*pi and length {L} gives {ex!r}: "
                    f"the window handed to the kernel is not the requested one", dict(sig0, subclaim="window", field=nm), c, observed=ob, expected=ex)
            return
    XX0 = float(r0.XX[0])
    K = len(r0.D[0])
    peak = (A / 2 * S1) ** 2
    if not (0.5 * peak <= XX0 <= 2.0 * peak):
        viol(P, f"response at the tone's own frequency is {XX0!r}, expected about (A*S1/2)^2 = {peak!r}", dict(sig0, subclaim="peak"), c)
        return
    for d in deltas:
        if full(P):
            return
        f = (m0 + d) * fs / L
        omega = 2.0 * np.pi * f / fs
        P.cases += 1
        try:
            XX = float(get(f).XX[0])
        except Exception as ex:  # noqa
            viol(P, f"single-bin analysis raised {ex!r} at offset {d} bins", dict(sig0, raises=True), c, delta=d)
            continue
        ok, dominated, lim = _judge(P, c, sig0, XX, XX0, Pdb, A, S1, L, omega, K, {"L": L, "P": Pdb, "m0": m0, "delta": d, "K": K})
        if not dominated:
            P.nontrivial.add((L, round(Pdb), d > 0, abs(d) < 1.0001 * hw_bins(Pdb) + 1.5, min(K, 2), c["via"], form, c.get("backend", "auto")))
        if not ok:
            rel = 10 * math.log10(max(XX, 1e-320) / XX0)
            viol(P, f"Kaiser psll={Pdb:.2f} dB, L={L} (requested by {kw}, {c['via']}), tone at bin {m0:.4f}, analysed at {f!r} Hz = {d:+.4f} bins away (main lobe half-width {hw_bins(Pdb):.3f}): response is "
                    f"{rel:.2f} dB relative to the response at the tone, required <= {-(Pdb - 1):.2f} dB (rounding floor included)",
                 dict(sig0, side="+" if d > 0 else "-", request=form), c, delta=d, observed_db=rel, XX=XX, XX0=XX0)
            if sig0.get("envelope") == "beyond":
                break
    P.sample({"op": "leak", **{k: c[k] for k in ("L", "N", "P", "fs", "m0", "via")}, "request": kw, "K": K, "offsets": [round(d, 3) for d in c["deltas"][:4]]}, cap=3)


# ================================================================ sweeps: one analyzer / one record, many analyses in sequence
# (seeded defect C12e: the NumPy kernels windowed a VIEW of the stored record in place for back-to-back segments, so the first analysis was
#  right and every later one used the window squared, cubed, ...).  The property quantifies over the whole single-bin path: every backend,
#  every segmentation of the record, and it is a statement about ONE analysis -- its result cannot depend on what was analysed before.
SWEEP_CLASSES = ["K2", "K4", "K8", "K1", "default", "half", "rand", "zero-ragged"]
SWEEP_BACKENDS = ["numpy", "numba", "auto"]
SWEEP_ORDERS = [-1, 0]
SWEEP_COMBOS = len(SWEEP_CLASSES) * len(SWEEP_BACKENDS) * len(SWEEP_ORDERS)     # 48; two cases each (method / function) per round


def gen_sweep(rng: np.random.Generator, thorough: bool, i: int) -> Dict[str, Any]:
    """case i of a round of 2*SWEEP_COMBOS: (segmentation class, backend, order) is enumerated, so every run covers every combination through
    both entry points; everything else is drawn"""
    combo, rep = i % SWEEP_COMBOS, i // SWEEP_COMBOS
    cls = SWEEP_CLASSES[combo % len(SWEEP_CLASSES)]
    backend = SWEEP_BACKENDS[(combo // len(SWEEP_CLASSES)) % len(SWEEP_BACKENDS)]
    order = SWEEP_ORDERS[combo // (len(SWEEP_CLASSES) * len(SWEEP_BACKENDS))]
    via = ("method", "func")[(rep + combo) % 2]
    L = int(rng.choice([64, 100, 256, 1000] + ([65, 127, 1001, 4096] if thorough else [])))
    P = float(rng.choice([40.0, 60.0, 120.0, 200.0, float(rng.uniform(40, 200)), float(rng.uniform(40, 200))]))
    dmin = 1.0001 * hw_bins(P)
    lo, hi = dmin, L / 2 - dmin
    u = rng.random()
    m0 = lo if u < 0.1 else hi if u < 0.2 else float(round(rng.uniform(lo + 0.5, hi - 0.5))) if u < 0.3 else float(rng.uniform(lo, hi))
    k, r = int(rng.integers(2, 5)), int(rng.integers(1, L))
    N, olap = {"K1": (L, 0.0), "K2": (2 * L, 0.0), "K4": (4 * L, 0.0), "K8": (8 * L, 0.0), "default": (k * L + r - 1, None), "half": (k * L, 0.5),
               "rand": (k * L + r - 1, float(rng.uniform(0.05, 0.9))), "zero-ragged": (k * L + r, 0.0)}[cls]
    deltas: List[float] = []
    for side in (1.0, -1.0):
        room = min(L / 4.0, (hi - m0) if side > 0 else (m0 - lo))
        if room < dmin:
            continue
        ds = [dmin, max(hw_bins(P) + float(rng.uniform(0.02, 0.3)), dmin), dmin + float(rng.uniform(0, 1.5)), float(rng.uniform(dmin, room))]
        deltas += [side * min(d, room) for d in ds]
    deltas = [deltas[j] for j in rng.permutation(len(deltas))]
    return {"kind": "sweep", "cls": cls, "L": L, "N": int(N), "P": P, "fs": float(rng.choice([1.0, 2.0, 1000.0, float(10 ** rng.uniform(-2, 4))])),
            "m0": m0, "phi": float(rng.uniform(0, 2 * np.pi)), "A": float(rng.choice([1.0, 1.0, float(10 ** rng.uniform(-3, 3))])),
            "deltas": deltas, "olap": olap, "order": order, "backend": backend, "via": via,
            "how": str(rng.choice(["L", "fres", "fres", "fres-frac"])), "q": L + float(rng.choice([-1.0, 1.0])) * float(rng.uniform(0.05, 0.45)),
            "win": str(rng.choice(["kaiser", "kaiser", "np_kaiser", "sp_kaiser"])), "layout": str(rng.choice(["contig", "contig", "strided"]))}


def mean_allowance(A: float, w: np.ndarray, L: int, omega0, omega, Pdb: float) -> float:
    """order 0 analyses x - mean(x) per segment, which is the sinusoid MINUS a constant c_k with |c_k| <= A*|D_L(w0)|/L (D_L the Dirichlet sum);
    the constant adds c_k*W(w) to the segment's DFT, so by the triangle inequality in l2 over the segments
        sqrt(XX_0(w)) <= sqrt(XX_-1(w)) + cmax*|W(w)|   and   sqrt(XX_-1(w0)) <= sqrt(XX_0(w0)) + cmax*|W(w0)|:
    if the sinusoid obeys the property at level t, the order-0 responses obey it up to cmax*(|W(w)| + sqrt(t)*|W(w0)|).  W from the independent
    window in extended precision; t taken at the envelope level so that the amount is sound for both labels.  (Measured: < 0.1% of the limit.)"""
    cmax = abs(A) * dirichlet_abs(L, omega0) / L
    t = 10.0 ** ((-(Pdb - 1.0) + ENVELOPE_DB) / 20.0)
    return 1.0001 * cmax * (abs(win_transform(w, omega)) + t * abs(win_transform(w, omega0)))


def sweep_record(c: Dict[str, Any]):
    """(the array handed to the library, the caller's underlying buffer): contiguous float64 (the library may keep a reference: it must not write to
    it) or a strided view of a larger buffer (the library has to copy)"""
    x = tone(c["N"], c["A"], omega_of(c["m0"] * c["fs"] / c["L"], c["fs"]), c["phi"])
    if c.get("layout") == "strided":
        base = np.full(2 * c["N"], 0.25 * c["A"])
        base[::2] = x
        return base[::2], base
    return x, x


def check_sweep(P: C.Part, c: Dict[str, Any]) -> None:
    import speckit
    remember(c)
    L, N, fs, Pdb, m0, A, order, backend = c["L"], c["N"], c["fs"], c["P"], c["m0"], c["A"], c["order"], c["backend"]
    f0 = m0 * fs / L
    x, base = sweep_record(c)
    pristine, base_bytes = np.array(x, dtype=np.float64), base.tobytes()
    o = dict(win_opts(c["win"], Pdb), order=order)
    if c["olap"] is not None:
        o["olap"] = c["olap"]
    if backend != "auto":
        o["backend"] = backend
    kw = request_kw(c)
    form = "L" if "L" in kw else c["how"]
    sig0 = {"subclaim": "leakage", "path": "single"}
    tag = f"{c['cls']},{backend},order={order},{c['via']}"
    P.cases += 1
    P.hit(f"sweep.{c['cls']},{backend},order={order}")
    P.hit(f"sweep.request={form},{c['via']},{c['layout']}")

    def intact() -> bool:
        if base.tobytes() == base_bytes:
            return True
        nbad = int(np.count_nonzero(np.asarray(x) != pristine))
        viol(P, f"the caller's record was MODIFIED by single-bin analyses ({tag}, request {kw}, N={N}, L={L}, olap={c['olap']}, psll={Pdb}): "
                f"{nbad} of {N} samples differ from the values handed in", {"subclaim": "record-intact", "path": "single"}, c, changed=nbad)
        return False

    def fresh(f):
        xc = pristine.copy()
        return speckit.SpectrumAnalyzer(xc, fs, **o).compute_single_bin(f, **kw) if c["via"] == "method" else speckit.compute_single_bin(xc, fs, f, **kw, **o)
    try:
        an = speckit.SpectrumAnalyzer(x, fs, **o)          # ONE analyzer for the whole sweep (method) / ONE record (function)
        get = (lambda f: an.compute_single_bin(f, **kw)) if c["via"] == "method" else (lambda f: speckit.compute_single_bin(x, fs, f, **kw, **o))
        r0 = get(f0)
    except Exception as ex:  # noqa
        viol(P, f"single-bin analysis of a tone raised {ex!r} ({tag}, request {kw}, N={N}, psll={Pdb})", dict(sig0, raises=True), c)
        return
    if int(np.asarray(r0.L).ravel()[0]) != L:
        P.hit("sweep.reported-L-differs")      # leakage in the bins of another length is check_leak's business
        intact()
        return
    w = ref_window(c["win"], L, Pdb).astype(LD)
    S1, S2 = float(w.sum()), float((w * w).sum())
    for nm, ob, ex in (("S12", float(r0.S12[0]), S1 * S1), ("S2", float(r0.S2[0]), S2)):
        if not abs(ob - ex) <= 1e-10 * abs(ex):
            viol(P, f"{nm} = {ob!r} but the DFT-even Kaiser window with beta = kaiser_alpha({Pdb})*pi and length {L} gives {ex!r} ({tag})",
                 dict(sig0, subclaim="window", field=nm), c, observed=ob, expected=ex)
            return
    XX0, K = float(r0.XX[0]), len(r0.D[0])
    peak = (A / 2 * S1) ** 2
    if not (0.5 * peak <= XX0 <= 2.0 * peak):
        viol(P, f"response at the tone's own frequency is {XX0!r}, expected about (A*S1/2)^2 = {peak!r} ({tag})", dict(sig0, subclaim="peak"), c)
        intact()
        return
    omega0 = 2.0 * np.pi * f0 / fs
    stop = False
    for n_done, d in enumerate(list(c["deltas"]) + [0.0]):       # ... and back to the line at the end
        if full(P) or stop:
            break
        f = (m0 + d) * fs / L
        omega = 2.0 * np.pi * f / fs
        P.cases += 1
        try:
            XX = float(get(f).XX[0])
            XXf = float(fresh(f).XX[0])
        except Exception as ex:  # noqa
            viol(P, f"single-bin analysis raised {ex!r} at offset {d} bins ({tag})", dict(sig0, raises=True), c, delta=d)
            break
        # (i) a single-bin result does not depend on earlier analyses: the same request on a fresh analyzer and a pristine copy of the record
        #     runs the same code on the same numbers; both are within the rounding floor of the exact value
        fl = floor_amp(A, S1, L, omega)
        if not abs(math.sqrt(max(XX, 0.0)) - math.sqrt(max(XXf, 0.0))) <= 2.0 * fl:
            viol(P, f"analysis number {n_done + 2} on the same {'analyzer' if c['via'] == 'method' else 'record'} ({tag}, request {kw}, N={N}, K={K}, olap={c['olap']}, "
                    f"psll={Pdb:.2f}) at {f!r} Hz = {d:+.4f} bins from the tone gives XX = {XX!r}, a fresh analyzer on a pristine copy of the record gives {XXf!r} "
                    f"({10 * math.log10(max(XX, 1e-320) / max(XXf, 1e-320)):+.2f} dB): the result depends on the analyses made before",
                 {"subclaim": "history", "path": "single"}, c, delta=d, XX=XX, XX_fresh=XXf, analysis_number=n_done + 2)
            stop = True
        if d == 0.0:
            break
        # (ii) the property's level, literally, on the analyzer that has the history
        extra = mean_allowance(A, w, L, omega0, omega, Pdb) if order == 0 else 0.0
        ok, dominated, lim = _judge(P, c, sig0, XX, XX0, Pdb, A, S1, L, omega, K, {"L": L, "P": Pdb, "m0": m0, "delta": d, "K": K, "order": order, "backend": backend},
                                    extra=extra, stat="worst" if order == -1 else "worst-order0")
        if not dominated:
            P.nontrivial.add(("sweep", L, round(Pdb), c["cls"], backend, order, c["via"], form))
        if not ok:
            rel = 10 * math.log10(max(XX, 1e-320) / XX0)
            viol(P, f"Kaiser psll={Pdb:.2f} dB, L={L} (requested by {kw}, {tag}, N={N}, K={K}, olap={c['olap']}), tone at bin {m0:.4f}, analysis number {n_done + 2} on the same "
                    f"{'analyzer' if c['via'] == 'method' else 'record'} at {f!r} Hz = {d:+.4f} bins away (main lobe half-width {hw_bins(Pdb):.3f}): response is "
                    f"{rel:.2f} dB relative to the response at the tone, required <= {-(Pdb - 1):.2f} dB (rounding floor included)",
                 dict(sig0, side="+" if d > 0 else "-", request=form), c, delta=d, observed_db=rel, XX=XX, XX0=XX0, analysis_number=n_done + 2)
            if sig0.get("envelope") == "beyond":
                stop = True
    intact()
    P.sample({"op": "sweep", **{k: c[k] for k in ("cls", "L", "N", "P", "order", "backend", "via", "layout")}, "request": kw, "K": K,
              "offsets": [round(d, 3) for d in c["deltas"][:4]]}, cap=3)


# ================================================================ crowds: SEVERAL analyzers alive at once, used interleaved
# (seeded defect C12g: the resolved-settings dict became a CLASS attribute that __init__ fills with .update(), so every live analyzer builds its
#  Kaiser window with the shape parameter -- and window function, order, overlap, backend -- of whichever analyzer was constructed LAST.)
# The property is a statement about ONE analyzer and ITS OWN construction arguments: what else is alive in the process, what was constructed
# before or after it, and what other objects analysed in between cannot matter.  A case is a "settings session": every analyzer is set up
# first, with different psll (larger first / smaller first / random), Kaiser spellings, non-Kaiser bystanders (hann / callables), orders,
# overlaps, backends, fs and segment lengths, on one shared record or on different records; then they are used round-robin in a fresh random
# order every round (a, b, c, a, c, b, ...) for the line and the offsets, optionally with "intruders" between the rounds (an analyzer
# constructed late and kept or dropped, a module-level compute_single_bin / compute_spectrum call with other settings: the wrappers construct
# analyzers internally).  Every response of a Kaiser member is judged
#   (i)  literally, -(P-1) dB for ITS OWN P beyond ITS OWN main lobe (`_judge`; so a psll=80 analyzer that got the wider psll=200 main lobe fails at
#        its first offsets, and a psll=200 one that got the psll=80 window fails in the side lobes), window sums against the independent window;
#   (ii) against a TWIN: an analyzer with the same arguments on a pristine copy of the record, created, used for the same requests and DISCARDED
#        before any member of the crowd exists.  The order matters: a twin created while the crowd is alive would itself be "the analyzer constructed
#        last" -- it would rewrite whatever state is shared and so REPAIR (same settings) the very member it is compared with, hiding the defect (this is
#        why the per-analysis `fresh` analyzer of the sweeps cannot see it).  Create-use-discard in sequence is the one pattern in which a
#        constructor has just rewritten everything an analysis reads, so the twin is right under any "the latest construction wins" sharing.
#        State that is pinned by the FIRST construction / import-time history of this process would contaminate an in-process twin too: that is
#        what (i) is for (it uses no twin), and for a few cases per run the twins are additionally computed in a fresh interpreter that has
#        imported the library and done nothing else (`_child_main`), one analyzer at a time.
#        Same code on the same numbers: compared within twice the rounding floor (as the sweeps do); L and K compare exactly.
CROWD_BYSTANDERS = ["hann", "ramp", "blackman", "neglobe", "hanning", "rect"]
CROWD_PATTERNS = [(a, r) for a in ("desc", "asc", "random") for r in ("same", "different")]
CROWD_MARK = "@@C12-FRESH-TWINS@@"


def gen_crowd(rng: np.random.Generator, thorough: bool, i: int) -> Dict[str, Any]:
    arr, recmode = CROWD_PATTERNS[i % len(CROWD_PATTERNS)]
    uniform = (i // len(CROWD_PATTERNS)) % 2 == 0        # a "compare the settings" session: the Kaiser members differ in psll ONLY
    nk = int(rng.choice([2, 3, 3, 4]))
    Ps: List[float] = [200.0, 140.0, 80.0, 40.0][:nk] if rng.random() < 0.4 else []
    if not Ps:
        while len(Ps) < nk:
            p = float(rng.choice([200.0, 200.0, 40.0, 60.0, 80.0, 100.0, 120.0, 160.0, float(rng.uniform(40, 200)), float(rng.uniform(40, 200))]))
            if all(abs(p - q) >= 8.0 for q in Ps):
                Ps.append(p)
    Ps = sorted(Ps, reverse=True) if arr == "desc" else sorted(Ps) if arr == "asc" else [Ps[j] for j in rng.permutation(nk)]
    Lpool = [64, 100, 256, 1000] + ([65, 127, 1001, 4096] if thorough else [])

    def settings():
        return {"L": int(rng.choice(Lpool)), "order": int(rng.choice([-1, 0])), "olap": [0.0, 0.5, None, float(rng.uniform(0.05, 0.9))][int(rng.integers(0, 4))],
                "backend": str(rng.choice(SWEEP_BACKENDS)), "fs": float(rng.choice([1.0, 2.0, 1000.0, float(10 ** rng.uniform(-2, 4))])),
                "how": str(rng.choice(["L", "L", "fres", "fres-frac"]))}
    common = settings()
    nrec = 1 if recmode == "same" else 2
    members: List[Dict[str, Any]] = []
    for j, p in enumerate(Ps):
        s = dict(common) if uniform else settings()
        members.append({"role": "kaiser", "P": p, "win": str(rng.choice(["kaiser", "kaiser", "np_kaiser", "sp_kaiser"])), "rec": j % nrec, **s,
                        "q": s["L"] + float(rng.choice([-1.0, 1.0])) * float(rng.uniform(0.05, 0.45))})
    for _ in range(int(rng.choice([0, 1, 1, 2]))):
        s = settings()
        b = {"role": "bystander", "P": None, "win": str(rng.choice(CROWD_BYSTANDERS)), "rec": int(rng.integers(0, nrec)), **s, "order": int(rng.choice([-1, 0, 1, 2])),
             "how": "L", "q": float(s["L"])}
        members.insert(len(members) if rng.random() < 0.5 else int(rng.integers(0, len(members) + 1)), b)     # often the LAST one constructed
    records = []
    for r in range(nrec):
        on = [m for m in members if m["rec"] == r]
        kz = [m for m in on if m["role"] == "kaiser"]
        lo = max(1.0001 * hw_bins(m["P"]) / m["L"] for m in kz)
        hi = min(0.5 - 1.0001 * hw_bins(m["P"]) / m["L"] for m in kz)
        u = rng.random()
        nu = lo if u < 0.1 else hi if u < 0.2 else float(rng.uniform(lo, hi))
        Lmax = max(m["L"] for m in on)
        k = int(rng.choice([1, 2, 3, 5, 8]))
        records.append({"N": int(k * Lmax + (0 if rng.random() < 0.5 else rng.integers(0, Lmax))), "nu": nu, "phi": float(rng.uniform(0, 2 * np.pi)),
                        "A": float(rng.choice([1.0, 1.0, float(10 ** rng.uniform(-3, 3))]))})
    for m in members:
        if m["role"] != "kaiser":
            m["deltas"] = []
            continue
        L, dmin = m["L"], 1.0001 * hw_bins(m["P"])
        m0, lo, hi = records[m["rec"]]["nu"] * L, dmin, L / 2 - dmin
        deltas: List[float] = []
        for side in (1.0, -1.0):
            room = min(L / 4.0, (hi - m0) if side > 0 else (m0 - lo))
            if room < dmin:
                continue
            ds = [dmin, max(hw_bins(m["P"]) + float(rng.uniform(0.02, 0.3)), dmin), dmin + float(rng.uniform(0, 1.5)) if rng.random() < 0.5 else float(rng.uniform(dmin, room))]
            deltas += [side * min(d, room) for d in ds]
        m["deltas"] = [deltas[j] for j in rng.permutation(len(deltas))]
    # intruders: things that happen between two rounds of a session and construct analyzers of their own
    intruders: List[Dict[str, Any]] = []
    if rng.random() < 0.5:
        for _ in range(int(rng.integers(1, 4))):
            s = settings()
            kaiser = rng.random() < 0.7
            intruders.append({"what": str(rng.choice(["ctor-keep", "ctor-drop", "func", "func", "spectrum"])), "rec": int(rng.integers(0, nrec)),
                              "P": float(rng.choice([40.0, 60.0, 110.0, 200.0, float(rng.uniform(40, 200))])) if kaiser else None,
                              "win": "kaiser" if kaiser else str(rng.choice(CROWD_BYSTANDERS)), **s, "order": int(rng.choice([-1, 0, 1, 2])),
                              "L": int(min(s["L"], 256))})
    rounds = max(len(m["deltas"]) for m in members) + 2
    slots = sorted(int(v) for v in rng.integers(1, rounds, size=len(intruders)))
    schedule: List[List[Any]] = []
    for j in range(rounds):
        schedule += [["x", n] for n, a in enumerate(slots) if a == j]
        schedule += [[int(mi), j] for mi in rng.permutation(len(members)) if members[mi]["role"] != "kaiser" or j < len(members[mi]["deltas"]) + 2]
    return {"kind": "crowd", "arr": arr, "recmode": recmode, "uniform": bool(uniform), "records": records, "members": members, "intruders": intruders,
            "schedule": schedule}


def _crowd_opts(m: Dict[str, Any]) -> Dict[str, Any]:
    o = dict(win_opts(m["win"], m.get("P")), order=m["order"])
    if m.get("olap") is not None:
        o["olap"] = m["olap"]
    if m.get("backend", "auto") != "auto":
        o["backend"] = m["backend"]
    return o


def crowd_records(c: Dict[str, Any]) -> List[np.ndarray]:
    return [tone(r["N"], r["A"], LD(2) * np.arccos(LD(-1)) * LD(r["nu"]), r["phi"]) for r in c["records"]]


def member_freqs(c: Dict[str, Any], m: Dict[str, Any]):
    """(tone position in bins of fs/L, the frequencies this member is asked for: the line, its offsets, the line again)"""
    m0 = c["records"][m["rec"]]["nu"] * m["L"]
    return m0, [(m0 + d) * m["fs"] / m["L"] for d in [0.0] + list(m["deltas"]) + [0.0]]


def _crowd_one(an, f: float, kw: Dict[str, Any]) -> Dict[str, Any]:
    try:
        r = an.compute_single_bin(f, **kw)
        return {"XX": float(r.XX[0]), "L": int(np.asarray(r.L).ravel()[0]), "K": int(len(r.D[0])), "S12": float(r.S12[0]), "S2": float(r.S2[0])}
    except Exception as ex:  # noqa
        return {"raises": repr(ex)}


def crowd_twins(c: Dict[str, Any]) -> Dict[str, Any]:
    """member index -> its requests answered by a twin analyzer on a pristine copy of the record that is created, used and discarded before
    the next one is created (and, in check_crowd, before any member of the crowd exists)"""
    import speckit
    recs = crowd_records(c)
    out: Dict[str, Any] = {}
    for mi, m in enumerate(c["members"]):
        if m["role"] != "kaiser":
            continue
        try:
            an = speckit.SpectrumAnalyzer(recs[m["rec"]].copy(), m["fs"], **_crowd_opts(m))
        except Exception as ex:  # noqa
            out[str(mi)] = [{"raises": repr(ex)}] * (len(m["deltas"]) + 2)
            continue
        kw = request_kw(m)
        out[str(mi)] = [_crowd_one(an, f, kw) for f in member_freqs(c, m)[1]]
        del an              # discarded (reference counting frees it here) before the next analyzer is constructed
    return out


def _child_main() -> None:
    """fresh interpreter: imports the library and answers the twins' requests of every case read from stdin, one analyzer at a time"""
    import json
    import os
    import sys
    req = json.load(sys.stdin)
    import speckit
    outs = [crowd_twins(c) for c in req["cases"]]
    sys.stdout.write("\n" + CROWD_MARK + json.dumps({"speckit": os.path.dirname(speckit.__file__), "twins": outs}) + "\n")


def fresh_twins(cases: List[Dict[str, Any]], notes: List[str]) -> List[Any]:
    """the twins of `cases` from a fresh interpreter ([None, ...] when that is unavailable: infrastructure, not the library)"""
    import json
    import os
    import subprocess
    import sys
    if not cases:
        return []
    try:
        import speckit
        env = dict(os.environ, PYTHONPATH=C.VERIF + os.pathsep + os.environ.get("PYTHONPATH", ""))
        r = subprocess.run([sys.executable, "-W", "ignore", "-c", "from vk.props.C12 import _child_main; _child_main()"],
                           input=json.dumps({"cases": cases}), capture_output=True, text=True, cwd=C.VERIF, env=env, timeout=120)
        ans = json.loads(r.stdout.split(CROWD_MARK, 1)[1])
        if ans["speckit"] != os.path.dirname(speckit.__file__) or len(ans["twins"]) != len(cases):
            raise RuntimeError(f"fresh interpreter imported {ans['speckit']}")
        return ans["twins"]
    except Exception as ex:  # noqa
        notes.append(f"crowd: fresh-interpreter twins unavailable ({type(ex).__name__}: {str(ex)[:120]}); in-process twins (created, used and discarded before the crowd exists) only")
        return [None] * len(cases)


def _run_intruder(c: Dict[str, Any], x: Dict[str, Any], recs: List[np.ndarray], keep: List[Any]) -> None:
    import speckit
    o = _crowd_opts(x)
    rec, fs = recs[x["rec"]], x["fs"]
    L = int(min(x["L"], len(rec)))
    try:
        if x["what"].startswith("ctor"):
            an = speckit.SpectrumAnalyzer(rec, fs, **o)
            if x["what"] == "ctor-keep":
                keep.append(an)
        elif x["what"] == "func":
            speckit.compute_single_bin(rec, fs, c["records"][x["rec"]]["nu"] * fs, L=L, **o)
        else:
            speckit.compute_spectrum(rec[:3000], fs, Jdes=6, Kdes=2, Lmin=32, scheduler="lpsd", **o)
    except Exception:  # noqa  (whether an intruder's own request is accepted is not this property's business)
        pass


def check_crowd(P: C.Part, c: Dict[str, Any], fresh: Any = None) -> None:
    import speckit
    remember(c)
    members = c["members"]
    recs = crowd_records(c)
    before = [r.tobytes() for r in recs]
    P.cases += 1
    P.hit(f"crowd.{c['arr']},{c['recmode']}-record,{'psll-only' if c['uniform'] else 'mixed-settings'},{'intruders' if c['intruders'] else 'no-intruders'}")
    # (1) the twins: each created, used and discarded BEFORE any member exists
    twins = {"in-process": crowd_twins(c)}
    if fresh:
        twins["fresh-interpreter"] = fresh
        P.hit("crowd.fresh-interpreter-twins")
    # (2) the session: everything is set up first ...
    lineup = " | ".join(f"#{k} {m['win']}" + (f" psll={m['P']:.2f}" if m["role"] == "kaiser" else "") + f" order={m['order']} olap={m['olap']} {m['backend']} fs={m['fs']:g} "
                        f"L={m['L']} rec{m['rec']}" for k, m in enumerate(members))
    ans: List[Any] = []
    for k, m in enumerate(members):
        try:
            ans.append(speckit.SpectrumAnalyzer(recs[m["rec"]], m["fs"], **_crowd_opts(m)))
        except Exception as ex:  # noqa
            ans.append(None)
            if m["role"] == "kaiser":
                viol(P, f"constructing analyzer #{k} of [{lineup}] raised {ex!r}", {"subclaim": "leakage", "path": "single", "raises": True}, c, member=k)
                return
    # ... then used interleaved
    intr = [x["what"] + ":" + x["win"] + ("" if x["P"] is None else f" psll={x['P']:.1f}") for x in c["intruders"]]
    kws = [request_kw(m) if m["role"] == "kaiser" else {"L": m["L"]} for m in members]
    freqs = [member_freqs(c, m) for m in members]
    got: Dict[int, Dict[int, Any]] = {k: {} for k in range(len(members))}
    keep: List[Any] = []
    for ev in c["schedule"]:
        if ev[0] == "x":
            _run_intruder(c, c["intruders"][ev[1]], recs, keep)
            continue
        k, j = int(ev[0]), int(ev[1])
        if ans[k] is None:
            continue
        if members[k]["role"] != "kaiser":
            _crowd_one(ans[k], freqs[k][1][0], kws[k])      # a bystander analyses its line every round; its answers are not this property's business
            continue
        P.cases += 1
        got[k][j] = _crowd_one(ans[k], freqs[k][1][j], kws[k])
    # (3) every Kaiser member against ITS OWN arguments
    nk = [k for k, m in enumerate(members) if m["role"] == "kaiser"]
    for k in nk:
        if full(P):
            break
        m = members[k]
        L, Pdb, fs, order, A = m["L"], m["P"], m["fs"], m["order"], c["records"][m["rec"]]["A"]
        m0, fl_ = freqs[k]
        kw, form = kws[k], ("L" if "L" in kws[k] else m["how"])
        sig0 = {"subclaim": "leakage", "path": "single"}
        later = [f"#{q} ({members[q]['win']}" + (f" psll={members[q]['P']:.2f})" if members[q]["role"] == "kaiser" else ")") for q in range(k + 1, len(members))]
        who = (f"analyzer #{k} of a session [{lineup}]" + (f" + intruders between the rounds {intr}" if intr else "")
               + f", used interleaved; constructed after it: {', '.join(later) if later else 'none'}")
        g0 = got[k].get(0)
        if g0 is None:
            continue
        if "raises" in g0:
            viol(P, f"single-bin analysis of the line raised {g0['raises']} on {who}", dict(sig0, raises=True), c, member=k)
            continue
        w = ref_window(m["win"], L, Pdb).astype(LD)
        S1, S2 = float(w.sum()), float((w * w).sum())
        judged = g0["L"] == L
        if not judged:
            P.hit("crowd.reported-L-differs")
        else:
            for nm, ob, ex in (("S12", g0["S12"], S1 * S1), ("S2", g0["S2"], S2)):
                if not abs(ob - ex) <= 1e-10 * abs(ex):
                    viol(P, f"{nm} = {ob!r} but the DFT-even Kaiser window with beta = kaiser_alpha({Pdb})*pi and length {L} gives {ex!r}: the window is not the one "
                            f"requested at construction, on {who}", dict(sig0, subclaim="window", field=nm), c, member=k, observed=ob, expected=ex)
                    break
            XX0, K = g0["XX"], g0["K"]
            peak = (A / 2 * S1) ** 2
            if not (0.5 * peak <= XX0 <= 2.0 * peak):
                viol(P, f"response at the tone's own frequency is {XX0!r}, expected about (A*S1/2)^2 = {peak!r}, on {who}", dict(sig0, subclaim="peak"), c, member=k)
                judged = XX0 > 0
        omega0 = 2.0 * np.pi * fl_[0] / fs
        pos = "first" if k == nk[0] else "last" if k == nk[-1] else "middle"
        stop_twin, stop_leak = set(), not judged
        for j in sorted(got[k]):
            if full(P):
                break
            g = got[k][j]
            d = ([0.0] + list(m["deltas"]) + [0.0])[j]
            f = fl_[j]
            omega = 2.0 * np.pi * f / fs
            if "raises" in g:
                viol(P, f"single-bin analysis raised {g['raises']} at offset {d} bins on {who}", dict(sig0, raises=True), c, member=k, delta=d)
                break
            # (ii) the twin(s)
            fl = floor_amp(A, S1, L, omega)
            for tname, tw in twins.items():
                t = (tw.get(str(k)) or [None] * (j + 1))[j] if isinstance(tw, dict) else None
                if t is None or tname in stop_twin:
                    continue
                P.cases += 1
                if "raises" in t:
                    continue            # the same request is rejected for an analyzer used alone: nothing to compare (and not a leakage question)
                same = g["L"] == t["L"] and g["K"] == t["K"]
                P.hit(f"crowd.twin[{tname}]:" + ("bit-identical" if same and g["XX"] == t["XX"] else "within-floor" if same else "differs"))
                if not (same and abs(math.sqrt(max(g["XX"], 0.0)) - math.sqrt(max(t["XX"], 0.0))) <= 2.0 * fl):
                    viol(P, f"{who}: request number {j + 1} on it, at {f!r} Hz = {d:+.4f} bins from the tone (request {kw}), gives XX = {g['XX']!r} with L = {g['L']}, K = {g['K']}; "
                            f"a twin with the same construction arguments on a pristine copy of the record, created, used and discarded before the others existed ({tname}), gives "
                            f"XX = {t['XX']!r} with L = {t['L']}, K = {t['K']} ({10 * math.log10(max(g['XX'], 1e-320) / max(t['XX'], 1e-320)):+.2f} dB): "
                            f"the result depends on other analyzers in the process", {"subclaim": "other-analyzers", "path": "single", "twin": tname}, c, member=k, delta=d,
                         XX=g["XX"], XX_twin=t["XX"], request_number=j + 1)
                    stop_twin.add(tname)
            if d == 0.0 or stop_leak or g["L"] != L:
                continue
            # (i) the property's level, literally, for this analyzer's own psll
            extra = mean_allowance(A, w, L, omega0, omega, Pdb) if order == 0 else 0.0
            ok, dominated, lim = _judge(P, c, sig0, g["XX"], XX0, Pdb, A, S1, L, omega, K,
                                        {"L": L, "P": Pdb, "m0": m0, "delta": d, "K": K, "order": order, "backend": m["backend"], "path": "crowd"},
                                        extra=extra, stat="worst" if order == -1 else "worst-order0")
            if not dominated:
                P.nontrivial.add(("crowd", L, round(Pdb), c["arr"], pos, c["recmode"], m["backend"], order, bool(c["intruders"])))
            if not ok:
                rel = 10 * math.log10(max(g["XX"], 1e-320) / XX0)
                viol(P, f"Kaiser psll={Pdb:.2f} dB, L={L} (requested by {kw}), tone at bin {m0:.4f}, request number {j + 1} at {f!r} Hz = {d:+.4f} bins away (main lobe half-width "
                        f"{hw_bins(Pdb):.3f}) on {who}: response is {rel:.2f} dB relative to the response at the tone, required <= {-(Pdb - 1):.2f} dB (rounding floor included)",
                     dict(sig0, side="+" if d > 0 else "-", request=form), c, member=k, delta=d, observed_db=rel, XX=g["XX"], XX0=XX0, request_number=j + 1)
                if sig0.get("envelope") == "beyond":
                    stop_leak = True
    if [r.tobytes() for r in recs] != before:
        viol(P, f"a caller's record was MODIFIED during a session of several analyzers [{lineup}]", {"subclaim": "record-intact", "path": "single"}, c)
    P.sample({"op": "crowd", "arr": c["arr"], "records": [r["N"] for r in c["records"]],
              "members": [[m["win"], m["P"], m["L"], m["order"], m["backend"], m["rec"]] for m in members], "intruders": [x["what"] for x in c["intruders"]],
              "schedule": c["schedule"][:12]}, cap=3)


# ================================================================ full-plan leakage
def gen_plan(rng: np.random.Generator, thorough: bool) -> Dict[str, Any]:
    N = int(rng.integers(2000, 20000 if thorough else 6000))
    c = {"kind": "plan", "N": N, "fs": float(rng.choice([1.0, 2.0, 1000.0])), "P": float(rng.choice([60.0, 100.0, 200.0, float(rng.uniform(40, 200))])),
         "q0": float(rng.uniform(0.05, 0.45)), "phi": float(rng.uniform(0, 6.28)), "Jdes": int(rng.integers(8, 25)), "Kdes": int(rng.choice([1, 2, 5])),
         "olap": float(rng.choice([0.0, 0.5])), "scheduler": str(rng.choice(_an.SCHEDS)), "Lmin": int(rng.choice([64, 128, 300]))}
    # the backend (drawn last, so that the cases above are those of earlier runs)
    c["backend"] = str(rng.choice(["auto", "auto", "auto", "auto", "auto", "numba", "numba", "numpy"]))   # numpy rarely: its plan analyses are ~50x slower
    return c


def check_plan(P: C.Part, c: Dict[str, Any]) -> None:
    """the plan analysis and the single-bin analyses of the line run on ONE record, as a user's script would; the record must come back untouched"""
    x = tone(c["N"], 1.0, omega_of(c["q0"] * c["fs"], c["fs"]), c["phi"])
    before = x.tobytes()
    _check_plan(P, c, x)
    if x.tobytes() != before:
        viol(P, f"the caller's record was MODIFIED by compute_spectrum / compute_single_bin (backend {c.get('backend', 'auto')}, olap={c['olap']}, psll={c['P']}, "
                f"scheduler {c['scheduler']}, N={c['N']})", {"subclaim": "record-intact", "path": "plan"}, c)


def _check_plan(P: C.Part, c: Dict[str, Any], x: np.ndarray) -> None:
    import speckit
    remember(c)
    N, fs, Pdb = c["N"], c["fs"], c["P"]
    f0 = c["q0"] * fs
    o = dict(win="kaiser", psll=Pdb, order=-1, olap=c["olap"])
    if c.get("backend", "auto") != "auto":
        o["backend"] = c["backend"]
    sig0 = {"subclaim": "leakage", "path": "plan"}
    P.cases += 1
    try:
        res = speckit.compute_spectrum(x, fs, Jdes=c["Jdes"], Kdes=c["Kdes"], scheduler=c["scheduler"], Lmin=c["Lmin"], **o)
    except Exception:  # noqa  (a rejected plan is C02's business)
        P.hit("plan.raised")
        return
    dmin = 1.0001 * hw_bins(Pdb)
    f, Ls = np.asarray(res.f), np.asarray(res.L)
    peaks: Dict[int, float] = {}
    done = 0
    for j in range(len(f)):
        L = int(Ls[j])
        b, b0 = float(f[j]) * L / fs, f0 * L / fs
        d = b - b0
        if L < 64 or abs(d) < dmin or abs(d) > L / 4 or min(b, L / 2 - b) < dmin or min(b0, L / 2 - b0) < dmin:
            continue
        if done >= 8 or full(P):
            break
        done += 1
        if L not in peaks:
            peaks[L] = float(speckit.compute_single_bin(x, fs, f0, L=L, **o).XX[0])
        w = _an.window("kaiser", L, Pdb).astype(LD)
        S1, S2 = float(w.sum()), float((w * w).sum())
        P.cases += 1
        if not (abs(float(res.S12[j]) - S1 * S1) <= 1e-10 * S1 * S1 and abs(float(res.S2[j]) - S2) <= 1e-10 * S2):
            viol(P, f"plan bin {j} (L={L}): window sums S12={float(res.S12[j])!r}, S2={float(res.S2[j])!r} differ from the DFT-even Kaiser window "
                    f"with beta=kaiser_alpha({Pdb})*pi ({S1 * S1!r}, {S2!r})", dict(sig0, subclaim="window"), c, bin=j)
            return
        omega = 2.0 * np.pi * float(f[j]) / fs
        XX, XX0 = float(res.XX[j]), peaks[L]
        ok, dominated, lim = _judge(P, c, sig0, XX, XX0, Pdb, 1.0, S1, L, omega, int(res.K[j]), {"L": L, "P": Pdb, "m0": b0, "delta": d, "path": "plan"})
        if not dominated:
            P.nontrivial.add(("plan", L, round(Pdb), d > 0, c["scheduler"]))
        if not ok:
            rel = 10 * math.log10(max(XX, 1e-320) / XX0)
            viol(P, f"full analysis ({c['scheduler']}), Kaiser psll={Pdb:.2f} dB: bin {j} (L={L}) lies {d:+.3f} bins from the tone but its response is {rel:.2f} dB "
                    f"relative to the response at the tone, required <= {-(Pdb - 1):.2f} dB", dict(sig0), c, bin=j, observed_db=rel)
            if sig0.get("envelope") == "beyond":
                return
    P.hit(f"plan.bins-checked={min(done, 8)}")


# ================================================================ full-plan leakage as the user reads it: `ps` / `Gxx` of EVERY bin of a multi-bin result
# (seeded defect C12h: the `Gxx` branch of SpectrumResult.__getattr__ clamped the density at eps*max(Gxx) of the SAME result "so that log plots never hit 0":
#  the raw statistic XX that `check_plan` reads is untouched and a one-element result is its own maximum, but no bin of a multi-bin spectrum can read more
#  than ~156 dB below the largest density bin, so a clean line analysed with psll >= 160 bottoms out at -157 ... -142 dB.)
# The property's observable is `SpectrumResult.ps`, and its quantifier is over every analysis frequency beyond the main lobe: in a spectrum those are the
# BINS OF THE RESULT, each with its own segment length L_i.  A case is one clean sinusoid (amplitude 1e-6 ... 1e6) analysed over a whole plan -- every
# scheduler x backend {numpy, numba/auto} x order {-1, 0} each round, psll in {120, 160, 180, 200} rotated so that every scheduler and every (backend, order)
# meets every psll each round, through analyzer.compute() / compute_spectrum() / lpsd().  For EVERY bin farther than sqrt(1+alpha^2) bins (of ITS OWN fs/L_i)
# from the line, with bin and line one main-lobe half-width from 0 and Nyquist:
#   (i)  `ps[i]` against `ps` of a single-bin analysis AT the line with the same L_i (same analyzer), literally -(P-1) dB: `_judge`, the D12 envelope
#        unchanged.  ps = 2*XX/S1^2 with the same S1 on both sides, so the amplitudes handed to `_judge` are sqrt(ps*S1^2/2), S1 from the independent
#        window; `extra` carries the rounding of the attribute arithmetic (a few ulp of the value itself, 8u*sqrt(.)) and, for order 0, the proved allowance
#        for the removed segment mean (mean_allowance);
#   (ii) `ps`, `Gxx`, `psd`, `asd` and the raw `XX` of the bin against the same attributes of a single-bin analysis at the same (f_i, L_i): a bin of a spectrum is the
#        same estimator as that single-bin analysis -- when the segment starts agree (they do for ~95% of the bins) both run the same kernel on the same
#        numbers; otherwise, for up to PS_REF_MAX bins per case, against the estimator's definition in extended precision over the bin's OWN reported
#        segments (C06.ref_bin_fast).  Compared as amplitudes sqrt(XX)-equivalent with an ABSOLUTE budget relative to the PEAK: 2*floor_amp + 8u*value
#        (two evaluations, each within floor_amp of the exact value; the 8u term is the attribute arithmetic); floor_amp = A*S1*u*(4L + 2 sqrt(L)/|sin w|) is the module's existing rounding floor of one Goertzel evaluation
#        (>= 20x the largest error measured), scaled by the data (A*S1 = 2x the on-line amplitude: about -234 dB re the peak in power at L = 1000) and never by the
#        bin's own, possibly vanishing, value.  So any floor / clamp / smoothing / wrong-row bookkeeping between the kernels and the attributes of a
#        multi-bin result shows, whatever psll (at psll = 120 the far bins are below -156 dB as well).
PS_PSLL = [120.0, 160.0, 180.0, 200.0]
PS_BACKENDS = ["numpy", "numba"]
PS_ORDERS = [-1, 0]
PS_ENTRIES = ["compute", "compute_spectrum", "lpsd"]
PS_COMBOS = len(_an.SCHEDS) * len(PS_BACKENDS) * len(PS_ORDERS)        # 16 per round
PS_AMPS = [1.0, 1e-6, 1e6, 3.0, None]
PS_FIELDS = ("ps", "Gxx", "psd", "asd", "XX")
PS_REF_MAX = 4
PS_MAXBINS = 400


def gen_planps(rng: np.random.Generator, thorough: bool, i: int, rot: int = 0) -> Dict[str, Any]:
    combo, rep = i % PS_COMBOS, i // PS_COMBOS
    s, b, o = combo % 4, (combo // 4) % 2, combo // 8
    A = PS_AMPS[(i + rep + rot) % len(PS_AMPS)]
    Lmin = int(rng.choice([64, 128, 300]))
    P = PS_PSLL[(s + b + 2 * o + rep + rot) % 4]
    N = int(rng.integers(3000, 20000 if thorough else 8000))
    hw = hw_bins(P)
    # the line: far enough from 0 and Nyquist that the shortest segments of the plan (Lmin) still have it a main-lobe half-width inside, mostly
    qlo = min(0.2, 1.05 * hw / Lmin)
    backend = PS_BACKENDS[b]
    if backend == "numba" and rng.random() < 0.25:
        backend = "auto"
    sched = _an.SCHEDS[s]
    Jdes, bmin = int(rng.integers(30, 90)), None
    if sched == "lpsd":
        # the lpsd scheduler ignores bmin / Lmin and keeps every bin at bin number ~ (Jdes-1)/ln(N/2) of its own fs/L: that has to exceed the main-lobe
        # half-width (bins closer to 0 than that are outside the property's quantifier), so its plans get more bins
        Jdes = int(math.ceil((hw + float(rng.uniform(2.0, 25.0))) * math.log(N / 2.0))) + 1
    elif rng.random() < 0.5:
        bmin = float(math.ceil(hw) + rng.integers(0, 4)) if rng.random() < 0.5 else float(1.0001 * hw + rng.uniform(0.0, 3.0))    # the low, long-segment bins eligible too
    return {"kind": "planps", "N": N, "fs": float(rng.choice([1.0, 2.0, 1000.0, float(10 ** rng.uniform(-2, 4))])),
            "P": P, "A": float(A if A is not None else 10 ** rng.uniform(-6, 6)), "q0": float(rng.uniform(qlo, 0.5 - qlo)) if rng.random() < 0.8 else float(rng.uniform(0.01, 0.49)),
            "phi": float(rng.uniform(0, 2 * np.pi)), "Jdes": Jdes, "Kdes": int(rng.choice([2, 5, 20])), "Lmin": Lmin, "bmin": bmin,
            "olap": [None, 0.0, 0.5, None][int(rng.integers(0, 4))], "scheduler": sched, "backend": backend, "order": PS_ORDERS[o],
            "entry": PS_ENTRIES[(combo + rep + rot) % len(PS_ENTRIES)],
            # every eligible bin in the first round of a quick run and in every round of a thorough one; an even spread of 40 of them in the later quick rounds (run time:
            # each bin costs two single-bin analyses)
            "maxbins": PS_MAXBINS if (thorough or rep == 0) else 40}


def _amp_equiv(name: str, v: float, fs: float, S1: float, S2: float) -> float:
    """the attribute value as an amplitude on the scale of sqrt(XX): ps = 2 XX/S1^2, Gxx = psd = 2 XX/(fs S2), asd = sqrt(psd)"""
    if name == "asd":
        return v * math.sqrt(fs * S2 / 2.0) if v >= 0 else float("nan")
    if not v >= 0:
        return float("nan")            # negative or NaN power
    return math.sqrt(v) if name == "XX" else math.sqrt(v * S1 * S1 / 2.0) if name == "ps" else math.sqrt(v * fs * S2 / 2.0)


def check_planps(P: C.Part, c: Dict[str, Any]) -> None:
    x = tone(c["N"], c["A"], omega_of(c["q0"] * c["fs"], c["fs"]), c["phi"])
    before = x.tobytes()
    _check_planps(P, c, x)
    if x.tobytes() != before:
        viol(P, f"the caller's record was MODIFIED by {c['entry']} / compute_single_bin (backend {c['backend']}, order {c['order']}, olap={c['olap']}, psll={c['P']}, "
                f"scheduler {c['scheduler']}, N={c['N']})", {"subclaim": "record-intact", "path": "plan-ps"}, c)


def _check_planps(P: C.Part, c: Dict[str, Any], x: np.ndarray) -> None:
    import speckit
    from .C06 import ref_bin_fast
    remember(c)
    N, fs, Pdb, A, order = c["N"], c["fs"], c["P"], c["A"], c["order"]
    f0 = c["q0"] * fs
    o = dict(win="kaiser", psll=Pdb, order=order, Jdes=c["Jdes"], Kdes=c["Kdes"], scheduler=c["scheduler"], Lmin=c["Lmin"])
    if c["olap"] is not None:
        o["olap"] = c["olap"]
    if c.get("bmin") is not None:
        o["bmin"] = c["bmin"]
    if c["backend"] != "auto":
        o["backend"] = c["backend"]
    tag = f"{c['entry']}(), scheduler {c['scheduler']}, backend {c['backend']}, order {order}, olap {c['olap']}, bmin {c.get('bmin')}, Jdes={c['Jdes']}, Kdes={c['Kdes']}, Lmin={c['Lmin']}, N={N}, fs={fs!r}, A={A!r}"
    sig0 = {"subclaim": "leakage", "path": "plan-ps"}
    P.cases += 1
    try:
        an = speckit.SpectrumAnalyzer(x, fs, **o)
        res = an.compute() if c["entry"] == "compute" else getattr(speckit, c["entry"])(x, fs, **o)
    except Exception:  # noqa  (a rejected plan is C02's business)
        P.hit("planps.raised")
        return
    P.hit(f"planps.{c['scheduler']},{c['backend']},order={order},psll={Pdb:.0f}")
    P.hit(f"planps.entry={c['entry']}")
    try:
        f, Ls = np.asarray(res.f, dtype=float), np.asarray(res.L)
        got = {nm: np.asarray(getattr(res, nm), dtype=float) for nm in PS_FIELDS + ("S12", "S2")}
        nf = len(f)
        if any(v.shape != (nf,) for v in got.values()) or Ls.shape != (nf,):
            raise ValueError("shapes " + repr({nm: v.shape for nm, v in got.items()}))
    except Exception as ex:  # noqa
        viol(P, f"reading f / L / {PS_FIELDS} of the result of {tag} failed: {ex!r}", dict(sig0, raises=True), c)
        return
    dmin = 1.0001 * hw_bins(Pdb)
    omega0 = 2.0 * np.pi * f0 / fs
    perL: Dict[int, Any] = {}
    n_judged = n_ref = 0
    dead_leak = False
    dead_fields: set = set()
    elig = []
    for j in range(nf):
        L = int(Ls[j])
        b, b0 = float(f[j]) * L / fs, f0 * L / fs
        if not (L < 64 or L > N or abs(b - b0) < dmin or min(b, L / 2 - b) < dmin or min(b0, L / 2 - b0) < dmin):
            elig.append(j)
    cap = int(c.get("maxbins", PS_MAXBINS))
    if len(elig) > cap:                 # a plan with thousands of bins (new_ltf with few averages): an even spread over the eligible bins, first and last included
        P.hit("planps.more-eligible-bins-than-cap")
        elig = sorted({elig[int(round(k * (len(elig) - 1) / (cap - 1)))] for k in range(cap)})
    for j in elig:
        if full(P) or (dead_leak and len(dead_fields) == len(PS_FIELDS)):
            break
        L = int(Ls[j])
        b, b0 = float(f[j]) * L / fs, f0 * L / fs
        d = b - b0
        if L not in perL:
            w = _an.window("kaiser", L, Pdb)
            wl = w.astype(LD)
            try:
                r0 = an.compute_single_bin(f0, L=L)
                ps0, XX0 = float(r0.ps[0]), float(r0.XX[0])
            except Exception as ex:  # noqa
                viol(P, f"single-bin analysis of the line with L={L} raised {ex!r} ({tag})", dict(sig0, raises=True), c, bin=j)
                return
            perL[L] = (w, wl, float(wl.sum()), float((wl * wl).sum()), ps0, XX0, abs(A) * dirichlet_abs(L, omega0) / L, abs(win_transform(wl, omega0)))
        w, wl, S1, S2, ps0, XX0, cmax, W0 = perL[L]
        P.cases += 1
        if not (abs(got["S12"][j] - S1 * S1) <= 1e-10 * S1 * S1 and abs(got["S2"][j] - S2) <= 1e-10 * S2):
            viol(P, f"plan bin {j} (L={L}): window sums S12={float(got['S12'][j])!r}, S2={float(got['S2'][j])!r} differ from the DFT-even Kaiser window "
                    f"with beta=kaiser_alpha({Pdb})*pi ({S1 * S1!r}, {S2!r}) ({tag})", dict(sig0, subclaim="window"), c, bin=j)
            return
        peak = A * A / 2.0
        if not (0.5 * peak <= ps0 <= 2.0 * peak and 0.5 * peak <= 2.0 * XX0 / (S1 * S1) <= 2.0 * peak):
            viol(P, f"single-bin analysis at the tone's own frequency with L={L}: ps = {ps0!r}, 2*XX/S1^2 = {2.0 * XX0 / (S1 * S1)!r}, expected about A^2/2 = {peak!r} ({tag})",
                 dict(sig0, subclaim="peak"), c, bin=j)
            return
        omega = 2.0 * np.pi * float(f[j]) / fs
        fl = floor_amp(A, S1, L, omega)
        K = int(len(res.D[j]))
        # (i) the property's level, literally, on the attribute the property names
        if not dead_leak:
            a_ps, a_ps0 = _amp_equiv("ps", float(got["ps"][j]), fs, S1, S2), _amp_equiv("ps", ps0, fs, S1, S2)
            extra = 8.0 * U * (a_ps if math.isfinite(a_ps) else 0.0)
            if order == 0:
                # mean_allowance with the per-L parts (cmax, |W(w0)|) computed once
                extra += 1.0001 * cmax * (abs(win_transform(wl, omega)) + 10.0 ** ((-(Pdb - 1.0) + ENVELOPE_DB) / 20.0) * W0)
            XXe = a_ps * a_ps            # NaN (a negative or NaN ps) fails the predicate below
            ok, dominated, lim = _judge(P, c, sig0, XXe, a_ps0 * a_ps0, Pdb, A, S1, L, omega, K,
                                        {"L": L, "P": Pdb, "m0": b0, "delta": d, "K": K, "order": order, "backend": c["backend"], "path": "plan-ps"},
                                        extra=extra, stat="worst" if order == -1 else "worst-order0")
            n_judged += 1
            if not dominated:
                P.nontrivial.add(("planps", c["scheduler"], c["backend"], order, round(Pdb), c["entry"], d > 0))
            if not ok:
                rel = 10 * math.log10(max(float(got["ps"][j]), 1e-320) / ps0) if got["ps"][j] == got["ps"][j] else float("nan")
                relxx = 10 * math.log10(max(float(got["XX"][j]), 1e-320) / XX0)
                viol(P, f"full analysis {tag}, Kaiser psll={Pdb:.2f} dB: bin {j} of {nf} (f={float(f[j])!r}, L={L}, K={K}) lies {d:+.3f} bins of fs/L from the tone (main lobe "
                        f"half-width {hw_bins(Pdb):.3f}) but result.ps[{j}] = {float(got['ps'][j])!r} is {rel:.2f} dB relative to ps = {ps0!r} of the single-bin analysis at the tone "
                        f"with the same L, required <= {-(Pdb - 1):.2f} dB (rounding floor included; the raw XX[{j}] is at {relxx:.2f} dB)",
                     dict(sig0), c, bin=j, observed_db=rel, ps=float(got["ps"][j]), ps0=ps0)
                if sig0.get("envelope") == "beyond":
                    dead_leak = True
        # (ii) a bin of a spectrum is the single-bin analysis at the same (f, L): every calibrated attribute, absolute budget relative to the PEAK
        if len(dead_fields) == len(PS_FIELDS):
            continue
        ref, how = None, ""
        try:
            r1 = an.compute_single_bin(float(f[j]), L=L)
            if np.array_equal(np.asarray(r1.D[0]), np.asarray(res.D[j])) and int(np.asarray(r1.L).ravel()[0]) == L:
                ref = {nm: float(np.asarray(getattr(r1, nm), dtype=float)[0]) for nm in PS_FIELDS}
                how, budget = "a single-bin analysis at the same frequency and segment length on the same analyzer (identical segment starts)", 2.0 * fl
        except Exception:  # noqa  (whether THAT single-bin request is accepted is not this property's business)
            pass
        if ref is None:
            if n_ref >= PS_REF_MAX or K * L > 4_000_000:
                P.hit("planps.fields:not-compared")
                continue
            n_ref += 1
            XXr = float(ref_bin_fast(x, None, np.asarray(res.D[j]), L, w, omega_of(float(f[j]), fs), order)[0])
            ref = {"XX": XXr, "ps": 2.0 * XXr / (S1 * S1), "Gxx": 2.0 * XXr / (fs * S2), "psd": 2.0 * XXr / (fs * S2), "asd": math.sqrt(2.0 * XXr / (fs * S2))}
            how, budget = "the estimator's definition in extended precision over the bin's own segments", 2.0 * fl
        P.hit("planps.fields-vs-" + ("single-bin" if how.startswith("a single") else "definition"))
        bad = []
        for nm in PS_FIELDS:
            P.cases += 1
            am, ar = _amp_equiv(nm, float(got[nm][j]), fs, S1, S2), _amp_equiv(nm, ref[nm], fs, S1, S2)
            if not abs(am - ar) <= budget + 8.0 * U * max(abs(am), abs(ar)):
                bad.append((nm, am, ar))
        if bad:
            nm, am, ar = bad[0]
            dbp = 20 * math.log10(max(am, 1e-320) / (abs(A) * S1 / 2.0)) if am == am else float("nan")
            viol(P, f"full analysis {tag}, Kaiser psll={Pdb:.2f} dB: result.{nm}[{j}] = {float(got[nm][j])!r} (bin {j} of {nf}, f={float(f[j])!r}, L={L}, K={K}, {d:+.3f} bins from the "
                    f"tone; {dbp:.2f} dB re the on-line response) but {how} gives {nm} = {ref[nm]!r}: as amplitudes {am!r} vs {ar!r}, allowed difference {budget!r} "
                    f"(rounding floor relative to the peak A*S1/2 = {abs(A) * S1 / 2.0!r}); fields that differ at this bin: {[b_[0] for b_ in bad]} of {list(PS_FIELDS)}: "
                    f"the value of a bin depends on the OTHER bins of the result",
                 {"subclaim": "bin-is-single-bin", "path": "plan-ps", "field": nm}, c, bin=j, observed=float(got[nm][j]), expected=ref[nm], fields=[b_[0] for b_ in bad])
            dead_fields.update(PS_FIELDS)       # one report per case
    P.hit(f"planps.bins-judged={'0' if n_judged == 0 else '1-9' if n_judged < 10 else '10-29' if n_judged < 30 else '30+'}")
    P.sample({"op": "planps", **{k: c[k] for k in ("N", "P", "A", "q0", "scheduler", "backend", "order", "entry", "Jdes", "Kdes", "Lmin", "olap")}, "bmin": c.get("bmin"), "bins": int(nf),
              "judged": n_judged}, cap=3)


def _crowd_case(arr: str, Ps: List[float], last: Any) -> Dict[str, Any]:
    """a hand-made session on one record of 5 segments of L = 1000: Kaiser analyzers with the library's default order / overlap / backend that differ in psll only"""
    mk = lambda role, P, win: {"role": role, "P": P, "win": win, "rec": 0, "L": 1000, "order": 0, "olap": None, "backend": "auto", "fs": 1.0, "how": "L", "q": 1000.0,  # noqa: E731
                               "deltas": [] if P is None else [s * (1.0001 * hw_bins(P) + e) for e in (0.0, 0.15, 1.0, 12.3) for s in (1.0, -1.0)]}
    members = [mk("kaiser", P, "np_kaiser") for P in Ps] + ([mk("bystander", None, last)] if last else [])
    return {"kind": "crowd", "arr": arr, "recmode": "same", "uniform": True, "records": [{"N": 5000, "nu": 0.25037, "phi": 0.4, "A": 0.8}], "members": members,
            "intruders": [], "schedule": [[k, j] for j in range(10) for k in ((j + np.arange(len(members))) % len(members)).tolist()[::(1 if j % 2 else -1)]]}


CHECKS = {"leak": check_leak, "plan": check_plan, "planps": check_planps, "sweep": check_sweep, "crowd": check_crowd}
CORPUS = [
    # tightest configurations found on the unchanged tree: short window / high P (first side lobe at -(P-0.94) dB), tone one main lobe from DC at low P
    {"kind": "leak", "L": 64, "N": 64, "P": 195.0, "fs": 1.0, "m0": 8.2, "phi": 0.3, "A": 1.0, "deltas": [8.0234375, 8.5, 9.0, 12.0], "olap": 0.0, "via": "func", "win": "kaiser"},
    {"kind": "leak", "L": 64, "N": 64, "P": 44.75, "fs": 2.0, "m0": 29.8199, "phi": 1.1, "A": 1.0, "deltas": [-2.4066, -2.6, -3.0, -7.5], "olap": 0.0, "via": "method", "win": "kaiser"},
    # call history: same L, different psll in one process (a stale window would show as leakage or wrong sums)
    {"kind": "leak", "L": 256, "N": 256, "P": 200.0, "fs": 1.0, "m0": 40.3, "phi": 0.0, "A": 1.0, "deltas": [8.2, 9.0, -8.2, -20.0], "olap": 0.0, "via": "func", "win": "kaiser"},
    {"kind": "leak", "L": 256, "N": 256, "P": 60.0, "fs": 1.0, "m0": 40.3, "phi": 0.0, "A": 1.0, "deltas": [3.05, 3.6, -3.05, -20.0], "olap": 0.0, "via": "func", "win": "kaiser"},
    # seeded defect C12e (wave 5): NumPy backend, back-to-back segments (olap 0, N = K*L), ONE analyzer / ONE record analysed many times: the kernels
    # windowed a view of the stored record in place, the 2nd, 3rd, ... analysis saw the window squared, cubed, ... (side lobes at -25 ... -40 dB)
    {"kind": "sweep", "cls": "K8", "L": 256, "N": 2048, "P": 60.0, "fs": 1.0, "m0": 40.37, "phi": 0.7, "A": 1.0, "deltas": [3.07, 3.68, -3.07, 4.29, 9.0], "olap": 0.0,
     "order": 0, "backend": "numpy", "via": "method", "how": "L", "q": 256.3, "win": "kaiser", "layout": "contig"},
    {"kind": "sweep", "cls": "K4", "L": 1000, "N": 4000, "P": 200.0, "fs": 1.0, "m0": 123.5, "phi": 0.7, "A": 1.0, "deltas": [8.2, -8.2, 8.7, 12.0], "olap": 0.0,
     "order": -1, "backend": "numpy", "via": "func", "how": "fres", "q": 1000.3, "win": "kaiser", "layout": "contig"},
    # seeded defect C12g (wave 7): the resolved settings became a class-level dict shared by all live analyzers; three analyzers with psll 200 / 140 / 80
    # (library defaults otherwise) are set up on one record and only then used: the first two leaked at -94 / -92 dB.  Larger psll first, then smaller first
    # (there the psll=80 analyzer gets the psll=200 main lobe), with a hann analyzer constructed last in the second session
    _crowd_case("desc", [200.0, 140.0, 80.0], None),
    _crowd_case("asc", [80.0, 140.0, 200.0], "hann"),
    # seeded defect C12h (wave 8): Gxx clamped at eps*max(Gxx) of the same result: in a multi-bin spectrum of a clean line no bin's ps / Gxx / psd / asd reads more than
    # ~156 dB below the largest density bin (psll >= 160 bottoms out at -157 ... -142 dB; the raw XX and one-element results are untouched)
    {"kind": "planps", "N": 8000, "fs": 1.0, "P": 200.0, "A": 3.0, "q0": 0.0537, "phi": 0.4, "Jdes": 80, "Kdes": 20, "Lmin": 300, "olap": None, "scheduler": "lpsd",
     "backend": "auto", "order": -1, "entry": "compute"},
    {"kind": "planps", "N": 6000, "fs": 1000.0, "P": 160.0, "A": 1.0e-4, "q0": 0.21234, "phi": 1.9, "Jdes": 60, "Kdes": 5, "Lmin": 64, "olap": None, "scheduler": "vectorized_ltf",
     "backend": "numpy", "order": 0, "entry": "lpsd"},
]


# ================================================================ module interface
def correspondence(ctx) -> C.Part:
    """(a) Model.kaiserWin (driver `kaiser L beta`, Float) vs np.kaiser(L+1, beta)[:-1], the expression analysis.py evaluates;
       (b) the real kaiser_alpha vs the stated cubic; (c) window sums of a REAL single-bin result vs the model window with beta = alpha*pi;
       (d) the generated Goertzel kernel (Float) vs the real Numba kernel on a Kaiser-windowed tone at fractional bins"""
    import speckit
    from speckit.utils import kaiser_alpha
    from speckit import core
    P = C.Part()
    rng = ctx.rng
    n = ctx.scale(200, 1500)
    for i in range(n):
        if ctx.time_left() < 30:
            P.notes.append("time budget reached")
            break
        L = int(rng.choice([1, 2, 3, 64, int(rng.integers(4, 700)), int(rng.integers(4, 700))]))
        psll = float(rng.choice([40.0, 200.0, float(rng.uniform(40, 200))]))
        beta = float(rng.uniform(0, 30)) if i % 3 == 0 else float(kaiser_alpha(psll) * np.pi)
        m = np.array(ctx.driver.floats(f"kaiser {L} {C.f2h(beta)}"))
        r = np.kaiser(L + 1, beta)[:-1]
        P.cases += 1
        P.nontrivial.add(("win", L, round(beta, 1)))
        P.hit("kaiser-window")
        if m.shape != r.shape or not np.all(np.abs(m - r) <= 1e-12):
            P.disagreements.append({"op": "kaiser", "L": L, "beta": beta, "max_diff": float(np.max(np.abs(m - r))) if m.shape == r.shape else None,
                                    "model": m[:8], "impl": r[:8]})
        # (b) alpha cubic
        a = float(kaiser_alpha(psll))
        xl = LD(psll) / LD(100)
        cub = float(((LD("0.0889732") * xl + LD("-0.493285")) * xl + LD("4.71469")) * xl + LD("-0.0821377"))
        P.cases += 1
        P.hit("kaiser_alpha")
        if not abs(a - cub) <= 1e-13 * (abs(cub) + 10.0):
            P.disagreements.append({"op": "kaiser_alpha", "psll": psll, "impl": a, "cubic": cub})
        # (c) the real analyzer's window sums vs the model window with beta = alpha*pi
        if i % 4 == 0 and L >= 2:
            x = rng.standard_normal(L + 5)
            res = speckit.compute_single_bin(x, 1.0, 0.2, L=L, win="kaiser", psll=psll, order=-1)
            mw = np.array(ctx.driver.floats(f"kaiser {L} {C.f2h(cub * np.pi)}"), dtype=LD)
            s1, s2 = float(mw.sum()), float((mw * mw).sum())
            P.cases += 1
            P.hit("analyzer-window-sums")
            if not (abs(float(res.S12[0]) - s1 * s1) <= 1e-11 * s1 * s1 and abs(float(res.S2[0]) - s2) <= 1e-11 * s2):
                P.disagreements.append({"op": "analyzer-window", "L": L, "psll": psll, "impl": [float(res.S12[0]), float(res.S2[0])], "model": [s1 * s1, s2]})
        # (d) fractional-bin Goertzel: generated kernel vs the real kernel
        if i % 4 == 1 and 8 <= L <= 300:
            w = np.ascontiguousarray(r)
            m0 = float(rng.uniform(1, L / 2 - 1))
            om = 2 * np.pi * (m0 + float(rng.uniform(-3, 3))) / L
            x = tone(L + 7, 1.0, LD(2 * np.pi * m0 / L), float(rng.uniform(0, 6)))
            starts = np.array([0, 3, 7], dtype=np.int64)
            imp = tuple(float(v) for v in core._stats_win_only_auto(x, starts, L, w, om))
            gen = tuple(ctx.driver.floats(" ".join(["kernel", "_stats_win_only_auto", C.arr(x), C.iarr(starts), str(L), C.arr(w), C.f2h(om)])))
            araw = max(float(np.abs(x[s:s + L] * w).sum()) for s in starts) + 1e-300
            t = _an.bin_tol(L, om, araw, araw, -1)
            tol = (t[0], t[1], t[2], t[2], t[3])
            P.cases += 1
            P.hit("goertzel-fractional")
            P.nontrivial.add(("goertzel", L, round(om, 3)))
            bad = [k for k in range(5) if not abs(imp[k] - gen[k]) <= tol[k]]
            if bad:
                P.disagreements.append({"op": "kernel", "fn": "_stats_win_only_auto", "components": bad, "impl": imp, "generated_lean": gen, "tol": tol,
                                        "case": {"L": L, "omega": om, "x": x.tolist(), "w": w.tolist(), "starts": starts.tolist()}})
        if i < 2:
            P.sample({"op": "kaiser", "L": L, "beta": beta, "psll": psll, "alpha": a})
    return P


def oracle(ctx, intensive: bool = False, hints=()) -> C.Part:
    import time
    P = C.Part()
    STATS.clear()
    mult = 4 if intensive else 1
    try:
        srng, crng = ctx.rng.spawn(2)           # srng is the stream the sweeps have always had (the first child); crng is the crowds'
        prng = ctx.rng.spawn(1)[0]              # the third child: the plan-ps stream (spawning does not consume ctx.rng: the older streams keep their cases)
    except Exception:  # noqa  (a generator without a seed sequence)
        srng, crng, prng = (np.random.default_rng([k, int(getattr(ctx, "seed", 0) or 0)]) for k in (0xC12E, 0xC129, 0xC128))
    # crowds (several analyzers alive at once, used interleaved): every (construction order of the psll values, same / different records) pattern
    # each round, alternately "psll only" and "everything differs"; the twins of the hand-made sessions and of the first generated ones are also
    # computed in a fresh interpreter (one subprocess per run)
    crowds = [gen_crowd(np.random.default_rng(int(crng.integers(0, 2 ** 62))), ctx.thorough, i) for i in range(2 * len(CROWD_PATTERNS) * ctx.scale(1, 4) * mult)]
    n_fresh = ctx.scale(2, 8)
    first = [c for c in CORPUS if c["kind"] == "crowd"] + crowds[:n_fresh]
    fresh = dict(zip((id(c) for c in first), fresh_twins(first, P.notes)))
    for c in CORPUS:
        CHECKS[c["kind"]](P, c, **({"fresh": fresh.get(id(c))} if c["kind"] == "crowd" else {}))
    t0 = time.time()
    for i, c in enumerate(crowds):
        if full(P):
            break
        if time.time() - t0 > 12.0 * ctx.scale(1, 4) * mult or ctx.time_left() < 60:
            P.notes.append(f"crowd: time share reached after {i} of {len(crowds)} cases")
            break
        check_crowd(P, c, fresh=fresh.get(id(c)))
    # sweeps first (their own generator stream, spawned from ctx.rng WITHOUT consuming it, so the leak / plan cases below are those of earlier
    # runs): every (segmentation class, backend, order) through both entry points, each round; capped at 25 s per round
    t0 = time.time()
    n_sweep = 2 * SWEEP_COMBOS * ctx.scale(1, 4) * mult
    for i in range(n_sweep):
        if full(P):
            break
        if time.time() - t0 > 25.0 * ctx.scale(1, 4) * mult or ctx.time_left() < 40:
            P.notes.append(f"sweep: time share reached after {i} of {n_sweep} cases")
            break
        check_sweep(P, gen_sweep(np.random.default_rng(int(srng.integers(0, 2 ** 62))), ctx.thorough, i))
    # plan-ps: every (scheduler, backend, order) each round, psll in {120, 160, 180, 200} / amplitude / entry point rotated by round and seed
    t0 = time.time()
    n_ps = PS_COMBOS * ctx.scale(2, 8) * mult
    rot = int(prng.integers(0, 60))
    for i in range(n_ps):
        if full(P):
            break
        if time.time() - t0 > 10.0 * ctx.scale(1, 4) * mult or ctx.time_left() < 40:
            P.notes.append(f"planps: time share reached after {i} of {n_ps} cases")
            break
        check_planps(P, gen_planps(np.random.default_rng(int(prng.integers(0, 2 ** 62))), ctx.thorough, i, rot))
    t_all = max(30.0, min(ctx.time_left() - 20.0, (600.0 if ctx.thorough else 70.0) * mult))
    for kind, n, share in (("leak", ctx.scale(400, 4000) * mult, 0.75), ("plan", ctx.scale(40, 300) * mult, 0.25)):
        t0 = time.time()
        for i in range(n):
            if full(P):
                break
            if time.time() - t0 > share * t_all or ctx.time_left() < 15:
                P.notes.append(f"{kind}: time share reached after {i} of {n} cases")
                break
            sub = np.random.default_rng(int(ctx.rng.integers(0, 2 ** 62)))
            c = gen_leak(sub, ctx.thorough, i) if kind == "leak" else gen_plan(sub, ctx.thorough)
            CHECKS[kind](P, c)
    if "worst-order0" in STATS:
        mg, info = STATS["worst-order0"]
        P.notes.append(f"order 0 (sinusoid minus the segment mean; judged with the proved allowance for the removed constant): worst measured margin {mg:+.3f} dB at {info}")
    if "worst" in STATS:
        mg, info = STATS["worst"]
        P.notes.append(f"worst measured margin to the requested -(P-1) dB level over this run: {mg:+.3f} dB at {info} "
                       f"(negative = above the -(P-1) dB level the property states: reported as known finding D12 while within {ENVELOPE_DB} dB, as a violation beyond)")
    return P


def replay(ctx, data) -> C.Part:
    P = C.Part()
    for v in data.get("violations", []):
        for h in v["replay"].get("history", []):
            if h.get("kind") in CHECKS:
                CHECKS[h["kind"]](C.Part(), h)
        c = v["replay"]["case"]
        if c.get("kind") == "crowd":
            check_crowd(P, c, fresh=fresh_twins([c], P.notes)[0] if v.get("signature", {}).get("twin") == "fresh-interpreter" else None)
        elif c.get("kind") in CHECKS:
            CHECKS[c["kind"]](P, c)
    return P
