"""C17 — noise generators are seed-reproducible continuous streams.

Sub-claims checked on the real code (oracle):
  same-seed     two instances built with the same (parameters, seed) return identical blocks
  chunking      concat(get_series(n) for n in ns) is identical to get_series(sum(ns)), for request sequences with zeros
                and ones anywhere, and the two streams REMAIN identical on a further request (state carried exactly)
  get_sample    k calls of get_sample() are the first k samples of get_series on a same-seed instance (across the 4096 buffer)
  long/hist     call histories with LONG requests: every block / chunk / buffer size constant c read from the CURRENT source of noise.py
                (C.mined_sizes) is straddled ([c-1,1,5], [c,3], [c+1,2], [c+37,100], [2c+3,7], long then short then get_sample calls, a fine
                partition against the single long request, two long requests, a running total crossing c), plus long requests that do not
                depend on the miner (70001; 1060921 then 250; random 70000..1200000; 2097157 / 4194311 in the thorough tier), all four classes,
                with and without init_filter: same-seed, chunking == single request, and what is asked NEXT is the continuation
  cascade       _numba_lfilter_cascade = direct-form reference y[n] = a0 x[n] + a1 x[n-1] - b1 y[n-1] (initial state folded in),
                = scipy.signal.lfilter section by section, final states included, and split blocks carry the state exactly
  stream-ref    a generator's blocks are scaling * reference cascade of (rms * the standard-normal stream of its own RNG)
"""
from __future__ import annotations

import copy
import glob
import json
import os
from typing import Any, Dict, List, Tuple

import numpy as np

from .. import common as C

PROP = "C17"
GEN_REGIONS: List[str] = ["Noise", "NoiseGens", "GlobalState"]
THEOREMS = {
    "SpecKitV.Lemmas.Chunking": [
        "Model.sectionRun_append", "Model.sectionRun_length", "Model.sectionRun_nil",
        "Model.cascadeRun_append", "Model.cascadeRun_nil_block",
        "Model.white_chunking", "Model.red_chunking", "Model.alpha_chunking", "Model.white_sample_runs",
        "sectionRun_direct_form", "sectionRun_first"],
    # the machine-translated cascade (Gen/Noise.lean, regenerated from speckit/noise.py) IS the hand model
    "SpecKitV.Props.NoiseGen": ["gen_section_loop", "gen_cascade_eq_model", "gen_cascade_chunking"],
    # the machine-translated generator CLASSES (Gen/NoiseGens.lean: white_noise, red_noise, alpha_noise, pink_noise as state machines,
    # regenerated from speckit/noise.py by vk/regions/noise_gens.py) ARE the hand models, and the chunk-invariance theorems are
    # theorems about the translated get_series / get_sample / __init__ / _settle_filter_state
    "SpecKitV.Props.NoiseGensGen": [
        "gen_white_init_eq_model", "gen_white_get_series_eq_model", "gen_white_chunking", "gen_buffer_size_pos",
        "gen_white_get_sample_eq_model", "gen_white_sample_runs",
        "gen_red_get_series_eq_model", "gen_red_chunking", "gen_red_get_sample_eq_model", "gen_red_settle_eq_model",
        "gen_red_init_eq_model", "gen_red_requests_eq_model", "gen_red_stream_chunking",
        "gen_alpha_get_series_eq_model", "gen_alpha_chunking", "gen_alpha_get_sample_eq_model", "gen_alpha_settle_eq_model",
        "gen_alpha_obj_init_eq_model", "gen_alpha_requests_eq_model", "gen_pink_init_eq", "gen_alpha_stream_chunking",
        "gen_same_seed_same_stream"],
    # no state outlives a call in the files this property is anchored in (no module/class-level containers, memoisers, mutable defaults) and the
    # decorators are exactly the audited ones (region GlobalState, re-scanned from the current source each run)
    "SpecKitV.Props.GlobalStateGen": ["GlobalStateGen.gen_globalState_noise"],
}
CONTRACTS = [
    "numpy Generator.normal(0, rms, n) returns rms * (the next n standard-normal draws), draw for draw, independent of how the "
    "draws are split into calls (chunk-invariant); a Generator is a deterministic function of its seed (checked on every generated case)",
    "scipy.signal.lfilter([c], [1, -e], w, zi) is the DF2T first-order section y = c*x + z; z = e*y and returns the final state "
    "(checked against the model by the `gen red` correspondence); red_noise never hands it an empty block",
    "Numba compiles _numba_lfilter_cascade to the operations written in its source, in source order, without fast-math re-association",
    # contracts of the translated generator classes (lean/SpecKitV/Np/NoiseGens.lean; each exercised by the `genobj` differential run)
    "NpNG.default_rng / NpNG.Rng: np.random.default_rng(seed) is a cursor at position 0 of the standard-normal stream xi its seed determines",
    "NpNG.normal: Generator.normal(loc, scale, size=n) = [loc + scale*xi(cur+i) for i<n], cursor += n; NpNG.normal1: size=None is ONE draw",
    "NpNG.lfilter: scipy.signal.lfilter(b, a, x, zi=zi) for a first-order section = Model.sectionRun (DF2T) on b/a[0], a/a[0], b zero-padded, "
    "returning (y, final state); its final state for an EMPTY x is unspecified (NpNG.lfilterEmptyState is sealed: nothing is provable about it)",
    "NpNG.lfilter_zi: scipy.signal.lfilter_zi(b, a) for max(len a, len b) = 2 is [(b1 - a1*b0) / (1 + a1)] after normalising by a[0]",
    "NpNG.arrayOfList / NpNG.emptyArr / NpNG.zeros2 / NpNG.vstack2T / NpNG.pySlice: np.array([..]), np.array([]) = np.empty(0), np.zeros((n, m)), "
    "np.vstack([u, v]).T, a[lo:hi] with Python's negative/clamped bounds; array*scalar, -array, np.ones_like act elementwise",
    "alpha_noise._calc_filter_coeffs(fmin_vector, fmax_vector) is elementwise: entry i of its results is Gen._calc_filter_coeffs(fmin[i], fmax[i], fs)",
    "the filter-design arithmetic of alpha_noise.__init__ (noise.py:369-379: _num_spectra and the corner-frequency vectors) is NOT part of "
    "the translated region: its three results are parameters of the generated __init__ (read off the real constructor's frame by the harness)",
]
ASSUMPTIONS = [
    "the generators are modelled as state machines over an abstract stream xi of standard-normal draws (Model/Noise.lean); that the "
    "classes AS TRANSLATED (Gen/NoiseGens.lean, regenerated from the source each run) are this machine is a theorem (Props/NoiseGensGen); "
    "that the translation is faithful is tied by the `genobj` correspondence (generated classes executed in Float vs the real objects)",
    "chunk-invariance theorems are structural (any RealLike carrier, so they hold for IEEE doubles operation by operation); "
    "the direct-form identity is proved over the reals, rounding is covered by the stated running forward bound",
    "get_sample: the translated method of every class is proved equal to Model.getSample; the closed form `k calls = first k stream "
    "samples` is proved for the white generator (gen_white_sample_runs) and checked on the real code for the coloured ones",
    "get_series AFTER get_sample is not specified by the property (get_sample prefetches 4096 samples) and is not asserted; a run of "
    "get_sample calls after get_series requests (prefetch buffer still empty) IS asserted to be the continuation of the stream",
    "size thresholds: the oracle straddles the integer constants the miner reads from noise.py (literals and + - * // ** << of literals, up "
    "to 4e6) and always makes requests of 70001 and 1060921 samples (2097157, 4194311 in the thorough tier / when an obligation broke); a "
    "threshold above ~4.2e6 samples written in a form the miner does not read is not reached",
]
RULE = ("cases = (generator class in {white, red, alpha (alpha in [0.01,2] incl. end points), pink}, parameters, seed, init_filter, "
        "request sequence drawn from {0,1,2,3,7,64,4095,4096,4097,random} with zeros at start/middle/end/repeated, follow-up request); "
        "long-request histories = (class, init_filter, ops straddling every size constant mined from the current noise.py and fixed long sizes "
        "70001 / 1060921 / random, optionally ending in a get_sample run, follow-up of the same kind); "
        "cascade cases = (1..14 sections, designed or random coefficients, random states, block sizes incl. 0 and 1, split point); "
        "distinct by (check, class, init_filter, request tuple / (sections, block, split)); non-trivial = at least two requests of which one "
        "is non-empty (chunking), k >= 2 (get_sample), a non-empty block (cascade), and a stream that is not constant")

U = 2.0 ** -53
TINY = 2.0 ** -1074   # absolute rounding error of one operation in the gradual-underflow range
SIZES = [0, 1, 2, 3, 7, 64, 4095, 4096, 4097]
KINDS = ["white", "red", "alpha", "pink"]
CLS = {"white": "white_noise", "red": "red_noise", "alpha": "alpha_noise", "pink": "pink_noise"}
SAFETY = 4.0      # factor on the first-order running error bound (second-order terms, the reference's own rounding, fused multiply-add)


# ------------------------------------------------------------------------------------------------ generators
def build(spec: Dict[str, Any]):
    from speckit import noise
    return getattr(noise, CLS[spec["kind"]])(seed=int(spec["seed"]), **spec["kw"])


def gen_spec(rng: np.random.Generator, kind: str, init: bool) -> Dict[str, Any]:
    seed = int(rng.choice([0, 1, 3, int(rng.integers(0, 2 ** 31)), int(rng.integers(0, 2 ** 31))]))
    fs = float(rng.choice([1.0, 10.0, 100.0, 1000.0, float(np.round(10 ** rng.uniform(0, 4), 3))]))
    if kind == "white":
        return {"kind": kind, "seed": seed, "kw": {"f_sample": fs, "psd": float(np.exp(rng.uniform(-4, 4)))}}
    if kind == "red":
        # settling runs ceil(2 fs / fmin) samples: keep it below ~4000 when the filter is initialised
        ratio = 10 ** rng.uniform(-3.2, -0.4) if init else 10 ** rng.uniform(-6, -0.4)
        return {"kind": kind, "seed": seed, "kw": {"f_sample": fs, "f_min": float(fs * ratio), "init_filter": bool(init)}}
    fmax = float(fs * rng.uniform(0.02, 0.5))
    dec = rng.uniform(0.05, 2.6) if init else rng.uniform(0.05, 4.0)
    fmin = float(fmax * 10 ** (-dec))
    kw = {"f_sample": fs, "f_min": fmin, "f_max": fmax, "init_filter": bool(init)}
    if kind == "alpha":
        kw["alpha"] = float(rng.choice([0.01, 2.0, 1.0, 0.5, 1.5, float(rng.uniform(0.01, 2.0)), float(rng.uniform(0.01, 2.0))]))
    return {"kind": kind, "seed": seed, "kw": kw}


def gen_requests(rng: np.random.Generator, cap: int = 20000, big: bool = False) -> Tuple[List[int], int]:
    mode = int(rng.integers(0, 9))
    k = int(rng.integers(1, 8))
    base = [int(rng.choice(SIZES)) if rng.random() < 0.75 else int(rng.integers(0, 700)) for _ in range(k)]
    if big:       # thorough tier: a few long blocks as well
        base.insert(int(rng.integers(0, len(base) + 1)), int(rng.choice([65536, 100003, 8192, 12289])))
    if mode == 0:
        base = [0] + base
    elif mode == 1:
        base = base + [0]
    elif mode == 2:
        j = int(rng.integers(0, len(base) + 1))
        base = base[:j] + [0, 0] + base[j:]
    elif mode == 3:
        base = [0] * int(rng.integers(1, 4)) + [v for b in base for v in (b, 0)]
    elif mode == 4:
        base = [1] * int(rng.integers(1, 20)) + base + [1]
    elif mode == 5:
        base = [0] * k
    elif mode == 6:
        base = [1, 0, 1, 0, 2] + base
    elif mode == 7:
        base = [int(rng.choice([1, 4096, 4097, 4095]))] + [0] + base
    out, tot = [], 0
    for n in base:
        if tot + n > cap:
            n = int(rng.choice([0, 1, 2, 3, 7, 64]))
        out.append(int(n))
        tot += n
    return out, mode


def same(a: np.ndarray, b: np.ndarray) -> bool:
    a = np.asarray(a)
    b = np.asarray(b)
    return a.shape == b.shape and bool(np.array_equal(a, b, equal_nan=True))


def first_diff(a: np.ndarray, b: np.ndarray) -> str:
    a = np.asarray(a, dtype=float).ravel()
    b = np.asarray(b, dtype=float).ravel()
    if a.shape != b.shape:
        return f"lengths {a.size} vs {b.size}"
    idx = np.flatnonzero(~((a == b) | (np.isnan(a) & np.isnan(b))))
    if idx.size == 0:
        return "no difference"
    i = int(idx[0])
    return f"first difference at sample {i}: {a[i]!r} vs {b[i]!r} ({idx.size} of {a.size} samples differ, max |diff| {float(np.nanmax(np.abs(a - b))):.3g})"


def cat(parts: List[np.ndarray]) -> np.ndarray:
    return np.concatenate([np.asarray(p, dtype=np.float64).ravel() for p in parts]) if parts else np.empty(0, dtype=np.float64)


# ------------------------------------------------------------------------------------------------ reference cascade + running bound
def ref_cascade(secs: List[Tuple[float, float, float, float]], x, ex=None, direct: bool = False):
    """Reference for a cascade of first-order sections (a0, a1, b1, z0) over the block x, one section at a time.
    direct=False: the DF2T recurrence  y = a0*x + z ; z = a1*x - b1*y  in Python floats;
    direct=True : the direct form  y[n] = a0*x[n] + a1*x[n-1] - b1*y[n-1]  (y[0] = a0*x[0] + z0) in extended precision, the final
                  state being  a1*x[N-1] - b1*y[N-1].
    Also returns a first-order running bound on the rounding error of the float64 DF2T evaluation:
      ey[j] <= ez[j] + |a0| ex[j] + u(|a0 x[j]| + |y[j]|),   ez[j+1] <= |b1| ey[j] + |a1| ex[j] + u(|a1 x[j]| + |b1 y[j]| + |z[j+1]|)
    (ex = bound on the error already present in the section's input; the bound of one section feeds the next).
    Returns (outputs, final states, error bound of the outputs, error bounds of the final states)."""
    n = len(x)
    if direct:
        F = np.longdouble
        cur = [F(v) for v in x]
    else:
        F = float
        cur = [float(v) for v in x]
    e = [0.0] * n if ex is None else [float(v) for v in ex]
    zf, ezf = [], []
    for (a0, a1, b1, z0) in secs:
        fa0, fa1, fb1 = abs(float(a0)), abs(float(a1)), abs(float(b1))
        A0, A1, B1 = F(a0), F(a1), F(b1)
        z = F(z0)
        ez = 0.0
        out = [None] * n
        eo = [0.0] * n
        xprev = None
        yprev = None
        for j in range(n):
            xj = cur[j]
            if direct:
                y = A0 * xj + z if j == 0 else A0 * xj + A1 * xprev - B1 * yprev
                znew = A1 * xj - B1 * y
                xprev, yprev = xj, y
            else:
                y = A0 * xj + z
                znew = A1 * xj - B1 * y
            ax, ay = abs(float(xj)), abs(float(y))
            ey = ez + fa0 * e[j] + U * (fa0 * ax + ay) + 2 * TINY
            ez = fb1 * ey + fa1 * e[j] + U * (fa1 * ax + fb1 * ay + abs(float(znew))) + 3 * TINY
            out[j] = y
            eo[j] = ey
            z = znew
        zf.append(float(z))
        ezf.append(ez)
        cur, e = out, eo
    return np.array([float(v) for v in cur], dtype=np.float64), np.array(zf, dtype=np.float64), np.array(e, dtype=np.float64), np.array(ezf, dtype=np.float64)


def real_cascade(secs, x):
    """the real _numba_lfilter_cascade on C-contiguous float64 copies; returns (out, final states, input array after the call)"""
    from speckit.noise import _numba_lfilter_cascade
    a = np.ascontiguousarray([[s[0], s[1]] for s in secs], dtype=np.float64).reshape(len(secs), 2)
    b = np.ascontiguousarray([[1.0, s[2]] for s in secs], dtype=np.float64).reshape(len(secs), 2)
    zi = np.ascontiguousarray([[s[3]] for s in secs], dtype=np.float64).reshape(len(secs), 1)
    xin = np.array(x, dtype=np.float64)
    out, zf = _numba_lfilter_cascade(xin, a, b, zi)
    return np.asarray(out), np.asarray(zf), xin


def scipy_cascade(secs, x):
    from scipy import signal
    cur = np.array(x, dtype=np.float64)
    zf = []
    for (a0, a1, b1, z0) in secs:
        if cur.size == 0:            # lfilter's final state for an empty block is not specified (design-phase defect D9)
            zf.append(float(z0))
            continue
        cur, z = signal.lfilter(np.array([a0, a1]), np.array([1.0, b1]), cur, zi=np.array([z0]))
        zf.append(float(z[0]))
    return cur, np.array(zf)


def gen_sections(rng: np.random.Generator) -> Tuple[List[Tuple[float, float, float, float]], str]:
    style = int(rng.integers(0, 4))
    nsec = int(rng.choice([1, 1, 2, 3, int(rng.integers(2, 15))]))
    secs = []
    if style <= 1:   # designed like alpha_noise._calc_filter_coeffs
        fs = float(10 ** rng.uniform(0, 4))
        for _ in range(nsec):
            fmin = fs * 10 ** rng.uniform(-5, -0.5)
            fmax = min(fmin * 10 ** rng.uniform(0, 1), 0.5 * fs)
            den = fs + np.pi * fmin
            secs.append((float((fs + np.pi * fmax) / den), float(-(fs - np.pi * fmax) / den), float(-((fs - np.pi * fmin) / den)),
                         float(rng.standard_normal() * rng.choice([0.0, 1.0, 10.0]))))
        return secs, "designed"
    for _ in range(nsec):   # generic, asymmetric, both signs, |b1| <= 1 (incl. the marginal pole)
        b1 = float(rng.choice([rng.uniform(-1, 1), rng.uniform(-1, 1), 1.0, -1.0, 0.0]))
        secs.append((float(rng.uniform(-2, 2)), float(rng.uniform(-2, 2)), b1, float(rng.standard_normal() * rng.choice([0.0, 1.0, 100.0]))))
    return secs, "random"


def gen_block(rng: np.random.Generator, nmax: int) -> np.ndarray:
    n = int(rng.choice([0, 1, 1, 2, 3, 7, 64, int(rng.integers(4, nmax + 1)), int(rng.integers(4, nmax + 1))]))
    n = min(n, nmax)
    kind = int(rng.integers(0, 5))
    if kind == 0:
        x = rng.standard_normal(n) + 3.0        # non-zero mean: sign errors do not average out
    elif kind == 1:
        x = np.cumsum(rng.standard_normal(n))
    elif kind == 2:
        x = np.full(n, float(rng.standard_normal()))
    else:
        x = rng.standard_normal(n) * float(10 ** rng.uniform(-3, 3))
    return np.asarray(x, dtype=np.float64)


# ------------------------------------------------------------------------------------------------ model extraction
def extract(g, kind: str) -> Dict[str, Any]:
    """parameters/state of a constructed generator in the vocabulary of Model/Noise.lean, and a COPY of its bit generator"""
    if kind == "white":
        return {"rms": float(g.rms), "scaling": None, "secs": [], "rng": copy.deepcopy(g._rng)}
    w = g._whitenoise
    if kind == "red":
        secs = [(float(g._a[0]), 0.0, float(g._b[1]), float(np.asarray(g._zi).ravel()[0]))]
        return {"rms": float(w.rms), "scaling": float(g._scaling), "secs": secs, "rng": copy.deepcopy(w._rng)}
    a, b, z = np.asarray(g._a_coeffs), np.asarray(g._b_coeffs), np.asarray(g._zi_states)
    secs = [(float(a[i, 0]), float(a[i, 1]), float(b[i, 1]), float(z[i, 0])) for i in range(a.shape[0])]
    return {"rms": float(w.rms), "scaling": float(g._scaling), "secs": secs, "rng": copy.deepcopy(w._rng)}


def current_state(g, kind: str) -> List[float]:
    if kind == "white":
        return []
    if kind == "red":
        return [float(v) for v in np.asarray(g._zi).ravel()]
    return [float(v) for v in np.asarray(g._zi_states)[:, 0]]


def stream_reference(m: Dict[str, Any], xi: np.ndarray):
    """scaling * cascade(rms * xi) with its running bound: (values, tolerance per sample, final states, tolerance per state)"""
    w = m["rms"] * np.asarray(xi, dtype=np.float64)
    ew = U * np.abs(w) + TINY
    y, zf, ey, ez = ref_cascade(m["secs"], w, ew)
    if m["scaling"] is not None:
        s = m["scaling"]
        out = y * s
        eo = ey * abs(s) + U * np.abs(out) + TINY
    else:
        out, eo = y, ey
    return out, SAFETY * eo, zf, SAFETY * ez


# ------------------------------------------------------------------------------------------------ oracle checks (real code only)
def viol(P: C.Part, what: str, sig: Dict[str, Any], payload: Dict[str, Any], extra: Dict[str, Any] = None):
    P.violations.append(C.Violation(what=what, signature=sig, replay=dict(payload, **(extra or {}))))


def check_chunk(P: C.Part, payload: Dict[str, Any]) -> None:
    """same-seed, request lengths, chunking == single request, and the streams stay identical afterwards"""
    spec, ns, follow = payload["spec"], [int(n) for n in payload["ns"]], int(payload["follow"])
    kind = spec["kind"]
    init = bool(spec["kw"].get("init_filter", False))
    tag = f"{kind}{spec['kw']} seed={spec['seed']}"
    has0 = 0 in ns
    g1, g2, g3 = build(spec), build(spec), build(spec)
    P.cases += 1
    P.hit(f"chunk:{kind}")
    P.hit("chunk:init_filter" if init else "chunk:no_init")
    for n in set(ns):
        P.hit(f"req_size:{n if n in SIZES else 'other'}")
    parts = [np.asarray(g1.get_series(n)) for n in ns]
    for i, (n, p) in enumerate(zip(ns, parts)):
        if p.ndim != 1 or p.shape[0] != n:
            viol(P, f"{tag}: get_series({n}) (request {i} of {ns}) returned shape {p.shape}, not ({n},)",
                 {"class": kind, "subclaim": "length", "zero_request": n == 0}, payload, {"check": "chunk"})
            return
    # same seed, same requests -> same blocks
    parts3 = [np.asarray(g3.get_series(n)) for n in ns]
    for i, (p, q) in enumerate(zip(parts, parts3)):
        if not same(p, q):
            viol(P, f"{tag}: two same-seed instances differ on request {i} of {ns}: {first_diff(p, q)}",
                 {"class": kind, "subclaim": "same-seed", "init_filter": init}, payload, {"check": "chunk"})
            return
    total = int(sum(ns))
    whole = np.asarray(g2.get_series(total))
    joined = cat(parts)
    if whole.ndim != 1 or whole.shape[0] != total:
        viol(P, f"{tag}: get_series({total}) returned shape {whole.shape}", {"class": kind, "subclaim": "length", "zero_request": total == 0},
             payload, {"check": "chunk"})
        return
    if not same(joined, whole):
        viol(P, f"{tag}: requests {ns} concatenated differ from get_series({total}): {first_diff(joined, whole)}",
             {"class": kind, "subclaim": "chunking", "zero_request": has0, "init_filter": init}, payload, {"check": "chunk"})
        return
    f1, f2, f3 = np.asarray(g1.get_series(follow)), np.asarray(g2.get_series(follow)), np.asarray(g3.get_series(follow))
    if not same(f1, f2):
        viol(P, f"{tag}: after requests {ns} vs one request of {total} the NEXT get_series({follow}) differs (state not carried exactly): {first_diff(f1, f2)}",
             {"class": kind, "subclaim": "chunking-follow-up", "zero_request": has0, "init_filter": init}, payload, {"check": "chunk"})
        return
    if not same(f1, f3):
        viol(P, f"{tag}: two same-seed instances differ on the request after {ns}: {first_diff(f1, f3)}",
             {"class": kind, "subclaim": "same-seed", "init_filter": init}, payload, {"check": "chunk"})
        return
    allv = cat([joined, f1])
    if len(ns) >= 2 and total > 0 and allv.size >= 2 and float(np.ptp(allv)) > 0.0:
        P.nontrivial.add(("chunk", kind, init, tuple(ns)))


def check_sample(P: C.Part, payload: Dict[str, Any]) -> None:
    """k calls of get_sample() = the first k samples of the stream (get_series on a same-seed instance)"""
    spec, k = payload["spec"], int(payload["k"])
    kind = spec["kind"]
    tag = f"{kind}{spec['kw']} seed={spec['seed']}"
    g1, g2, g3 = build(spec), build(spec), build(spec)
    P.cases += 1
    P.hit(f"sample:{kind}")
    P.hit("sample:k>4096" if k > 4096 else "sample:k<=4096")
    try:
        s = np.array([float(g1.get_sample()) for _ in range(k)], dtype=np.float64)
    except Exception as ex:
        viol(P, f"{tag}: get_sample() raised {ex!r} within {k} calls", {"class": kind, "subclaim": "get_sample", "raises": True}, payload, {"check": "sample"})
        return
    ref = np.asarray(g2.get_series(k))
    if not same(s, ref):
        viol(P, f"{tag}: {k} get_sample() calls differ from get_series({k}) of a same-seed instance: {first_diff(s, ref)}",
             {"class": kind, "subclaim": "get_sample", "across_buffer": k > 4096}, payload, {"check": "sample"})
        return
    s3 = np.array([float(g3.get_sample()) for _ in range(min(k, 300))], dtype=np.float64)
    if not same(s3, s[:s3.size]):
        viol(P, f"{tag}: get_sample() runs of two same-seed instances differ: {first_diff(s3, s[:s3.size])}",
             {"class": kind, "subclaim": "same-seed", "via": "get_sample"}, payload, {"check": "sample"})
        return
    if k >= 2 and float(np.ptp(s)) > 0.0:
        P.nontrivial.add(("sample", kind, k))


def check_cascade(P: C.Part, payload: Dict[str, Any]) -> None:
    """_numba_lfilter_cascade vs the direct-form reference (extended precision), vs scipy.signal.lfilter, and split == whole"""
    secs = [tuple(float(v) for v in s) for s in payload["secs"]]
    x = np.array(payload["x"], dtype=np.float64)
    split = int(payload["split"])
    n, ns = x.size, len(secs)
    P.cases += 1
    P.hit(f"cascade:{payload.get('style', '?')}")
    P.hit("cascade:n=0" if n == 0 else "cascade:n=1" if n == 1 else "cascade:n>=2")
    P.hit("cascade:nsec=1" if ns == 1 else "cascade:nsec>=2")
    sig0 = {"class": "cascade", "nsec_gt1": ns > 1, "empty_block": n == 0}
    try:
        out, zf, xin = real_cascade(secs, x)
    except Exception as ex:
        viol(P, f"_numba_lfilter_cascade raised {ex!r} on {ns} sections, block of {n}", dict(sig0, subclaim="cascade", raises=True), payload, {"check": "cascade"})
        return
    if not same(xin, x):
        P.hit("cascade:input_block_modified_in_place(not asserted)")
    if out.shape != (n,) or zf.shape != (ns, 1):
        viol(P, f"_numba_lfilter_cascade returned shapes {out.shape}, {zf.shape} for a block of {n} and {ns} sections",
             dict(sig0, subclaim="length"), payload, {"check": "cascade"})
        return
    yr, zr, ey, ez = ref_cascade(secs, x, None, direct=True)
    ty, tz = SAFETY * ey, SAFETY * ez
    bad = np.flatnonzero(~(np.abs(out - yr) <= ty))
    if bad.size:
        i = int(bad[0])
        viol(P, f"_numba_lfilter_cascade ({ns} sections, block {n}): output[{i}] = {out[i]!r} but the direct form y[n]=a0x[n]+a1x[n-1]-b1y[n-1] gives {yr[i]!r} "
                f"(tol {ty[i]:.3g}; {bad.size} samples off, max |diff| {float(np.nanmax(np.abs(out - yr))):.3g})",
             dict(sig0, subclaim="cascade-direct-form", what="output"), payload, {"check": "cascade"})
        return
    badz = np.flatnonzero(~(np.abs(zf[:, 0] - zr) <= tz))
    if badz.size:
        i = int(badz[0])
        viol(P, f"_numba_lfilter_cascade ({ns} sections, block {n}): final state of section {i} = {zf[i, 0]!r} but a1*x[N-1]-b1*y[N-1] of that section is {zr[i]!r} "
                f"(tol {tz[i]:.3g}; initial {secs[i][3]!r})",
             dict(sig0, subclaim="cascade-final-state"), payload, {"check": "cascade"})
        return
    ys, zs = scipy_cascade(secs, x)
    bad = np.flatnonzero(~(np.abs(out - ys) <= 2 * ty))
    badz = np.flatnonzero(~(np.abs(zf[:, 0] - zs) <= 2 * tz))
    if bad.size or badz.size:
        w = f"output[{int(bad[0])}] = {out[int(bad[0])]!r} vs {ys[int(bad[0])]!r}" if bad.size else f"state[{int(badz[0])}] = {zf[int(badz[0]), 0]!r} vs {zs[int(badz[0])]!r}"
        viol(P, f"_numba_lfilter_cascade ({ns} sections, block {n}) differs from scipy.signal.lfilter section by section: {w}",
             dict(sig0, subclaim="cascade-vs-lfilter"), payload, {"check": "cascade"})
        return
    # state carried exactly: two blocks from the returned state == one block (same operations on every sample)
    split = max(0, min(split, n))
    o1, z1, _ = real_cascade(secs, x[:split])
    secs2 = [(s[0], s[1], s[2], float(z1[i, 0])) for i, s in enumerate(secs)]
    o2, z2, _ = real_cascade(secs2, x[split:])
    if not same(cat([o1, o2]), out) or not same(z2, zf):
        d = first_diff(cat([o1, o2]), out) if not same(cat([o1, o2]), out) else "final states " + first_diff(z2, zf)
        viol(P, f"_numba_lfilter_cascade ({ns} sections): blocks [{split}, {n - split}] from the returned state differ from one block of {n}: {d}",
             dict(sig0, subclaim="cascade-split", empty_part=split in (0, n)), payload, {"check": "cascade"})
        return
    if n >= 1 and (float(np.max(np.abs(out))) > 0.0):
        P.nontrivial.add(("cascade", ns, n, split))


def check_stream(P: C.Part, payload: Dict[str, Any]) -> None:
    """generator blocks = scaling * reference cascade(rms * xi) where xi is the standard-normal stream of the generator's own RNG,
    and the state left behind is the reference's final state (uses the state anchors named by the property: _zi, _zi_states, _rng)"""
    spec, ns = payload["spec"], [int(n) for n in payload["ns"]]
    kind = spec["kind"]
    tag = f"{kind}{spec['kw']} seed={spec['seed']}"
    g = build(spec)
    try:
        m = extract(g, kind)
    except (AttributeError, IndexError, TypeError) as ex:
        P.notes.append(f"stream-ref skipped: state anchors not found ({ex!r})"[:160])
        return
    total = int(sum(ns))
    xi = m["rng"].standard_normal(total)
    P.cases += 1
    P.hit(f"stream:{kind}")
    parts = [np.asarray(g.get_series(n)) for n in ns]
    got = cat(parts)
    ref, tol, zr, tz = stream_reference(m, xi)
    sig = {"class": kind, "subclaim": "stream-reference", "zero_request": 0 in ns}
    if got.shape != ref.shape:
        viol(P, f"{tag}: requests {ns} returned {got.size} samples in total", {"class": kind, "subclaim": "length", "zero_request": 0 in ns}, payload, {"check": "stream"})
        return
    bad = np.flatnonzero(~(np.abs(got - ref) <= tol))
    if bad.size:
        i = int(bad[0])
        viol(P, f"{tag}: requests {ns}: sample {i} = {got[i]!r} but scaling*cascade(rms*xi) of the generator's own coefficients/state/RNG gives {ref[i]!r} "
                f"(tol {tol[i]:.3g}; {bad.size} samples off, max |diff| {float(np.nanmax(np.abs(got - ref))):.3g})", sig, payload, {"check": "stream"})
        return
    try:
        zf = np.array(current_state(g, kind), dtype=np.float64)
    except (AttributeError, IndexError, TypeError):
        return
    if zf.shape == zr.shape:
        badz = np.flatnonzero(~(np.abs(zf - zr) <= tz))
        if badz.size:
            i = int(badz[0])
            viol(P, f"{tag}: after requests {ns} the stored state of section {i} is {zf[i]!r}, the reference cascade ends in {zr[i]!r} (tol {tz[i]:.3g})",
                 {"class": kind, "subclaim": "stream-state", "zero_request": 0 in ns}, payload, {"check": "stream"})
            return
    if total >= 2 and float(np.ptp(got)) > 0.0:
        P.nontrivial.add(("stream", kind, tuple(ns)))


# ------------------------------------------------------------------------------------------------ call histories with LONG requests
# Size thresholds: a get_series / get_sample implementation may switch to another code path above some block / chunk / buffer size (memory-
# bounding block-wise generation, a larger prefetch buffer, chunked settling ...).  "For all request sizes" then has a region that request sizes
# up to ~4097 never enter (wave-5 change C17e: requests > 1 << 20 generated block-wise, every block drawn at the full block size, so whatever
# is requested AFTER a long request is not the continuation).  The constants are read from the CURRENT source (C.mined_sizes) and every one is
# straddled; independent of what the miner sees, a few long requests are made on every run.
NOISE_FILES = ["speckit/noise.py"]
GEN_NAMES = ["white_noise", "_base_colored_noise", "red_noise", "alpha_noise", "pink_noise", "_numba_lfilter_cascade"]
FINE = 997            # piece size of the "fine partition" (below every threshold worth having)
LONG_FROM = 20000     # mined constants above this are costly to straddle: their cases are budgeted
BUF = 4096            # the get_sample prefetch size of the unchanged library (always probed, whatever the miner finds)
# (kind, alpha exponent or None / "rand")
VARIANTS = [("white", None), ("red", None), ("alpha", 0.01), ("alpha", 2.0), ("alpha", "rand"), ("pink", None)]
VARIANTS_MORE = [("alpha", 1.0), ("alpha", 0.5), ("alpha", 1.5)]


def mined_constants() -> Tuple[List[int], List[int]]:
    """(constants found inside the generator classes / the cascade kernel, all constants of noise.py incl. module level) from the current source"""
    try:
        allc = [int(c) for c in C.mined_sizes(NOISE_FILES)]
    except Exception:
        allc = []
    try:
        inner = [int(c) for c in C.mined_sizes(NOISE_FILES, names=GEN_NAMES)]
    except Exception:
        inner = []
    return [c for c in inner if c in allc], allc


def expand_ops(ops) -> List[Tuple[str, int]]:
    """ops = [[op, n] or [op, n, repeat], ...] with op 's' = get_series(n), 'g' = n calls of get_sample()"""
    out: List[Tuple[str, int]] = []
    for op in ops:
        rep = int(op[2]) if len(op) > 2 else 1
        out.extend([(str(op[0]), int(op[1]))] * max(rep, 0))
    return out


def ops_total(ops) -> int:
    return int(sum(n for _, n in expand_ops(ops)))


def ops_text(ops) -> str:
    return "[" + ", ".join((f"{int(op[1])}" if op[0] == "s" else f"get_sample x{int(op[1])}") + (f" (x{int(op[2])})" if len(op) > 2 else "") for op in ops) + "]"


def take(g, o: str, n: int) -> np.ndarray:
    if o == "s":
        return np.asarray(g.get_series(n))
    return np.array([float(g.get_sample()) for _ in range(n)], dtype=np.float64)


def check_hist(P: C.Part, payload: Dict[str, Any]) -> None:
    """a call history  get_series(n1), ..., get_series(nm) [, then a run of get_sample() calls]  against ONE get_series(total) of a same-seed
    instance, against a second same-seed instance given the same history, and the streams must remain identical on what is asked NEXT (a
    further get_series, or - when the history ends in get_sample calls - further get_sample calls).  Bit-for-bit: same operations on every
    sample.  get_sample calls only at the END of a history (get_series after get_sample is not specified: get_sample prefetches)."""
    spec, follow = payload["spec"], int(payload.get("follow", 7))
    raw = payload["ops"]
    ops = expand_ops(raw)
    kind = spec["kind"]
    init = bool(spec["kw"].get("init_filter", False))
    tag = f"{kind}{spec['kw']} seed={spec['seed']}"
    seen_g = False
    for o, _ in ops:
        if o == "g":
            seen_g = True
        elif seen_g:
            P.notes.append("hist case with get_series after get_sample skipped (not specified)")
            return
    ns = [n for o, n in ops if o == "s"]
    total = int(sum(n for _, n in ops))
    longest = max(ns + [0])
    txt = ops_text(raw)
    g1, g2, g3 = build(spec), build(spec), build(spec)
    P.cases += 1
    P.hit(f"hist:{kind}")
    P.hit("hist:init_filter" if init else "hist:no_init")
    P.hit(f"hist:family:{payload.get('family', '?')}")
    if payload.get("const") is not None:
        P.hit(f"hist:straddles_mined_constant:{int(payload['const'])}")
    P.hit("hist:longest_request:" + (">2^20" if longest > (1 << 20) else ">65536" if longest > 65536 else ">4097" if longest > 4097 else "<=4097"))
    if seen_g:
        P.hit("hist:ends_in_get_sample")
    sig = {"class": kind, "init_filter": init, "long_request": longest > LONG_FROM, "get_sample_tail": seen_g}
    extra = {"check": "hist"}
    parts = [take(g1, o, n) for o, n in ops]
    for i, ((o, n), p) in enumerate(zip(ops, parts)):
        if p.ndim != 1 or p.shape[0] != n:
            viol(P, f"{tag}: {'get_series' if o == 's' else 'get_sample run'}({n}) (call {i} of {txt}) returned shape {p.shape}, not ({n},)",
                 dict(sig, subclaim="length", zero_request=n == 0), payload, extra)
            return
    for i, (o, n) in enumerate(ops):           # same seed, same history -> same blocks
        q = take(g3, o, n)
        if not same(parts[i], q):
            viol(P, f"{tag}: two same-seed instances differ on call {i} of {txt}: {first_diff(parts[i], q)}",
                 dict(sig, subclaim="same-seed"), payload, extra)
            return
        del q
    whole = np.asarray(g2.get_series(total))
    if whole.ndim != 1 or whole.shape[0] != total:
        viol(P, f"{tag}: get_series({total}) returned shape {whole.shape}", dict(sig, subclaim="length", zero_request=total == 0), payload, extra)
        return
    off = 0
    for i, ((o, n), p) in enumerate(zip(ops, parts)):
        if not same(np.asarray(p, dtype=np.float64), whole[off:off + n]):
            d = first_diff(cat(parts), whole)
            viol(P, f"{tag}: calls {txt} concatenated differ from get_series({total}) (call {i} starts at sample {off}): {d}",
                 dict(sig, subclaim="chunking", zero_request=0 in ns), payload, extra)
            return
        off += n
    nontrivial = len(ops) >= 2 and total >= 2 and float(np.ptp(whole)) > 0.0
    del parts, whole
    fo = "g" if seen_g else "s"
    f1, f3 = take(g1, fo, follow), take(g3, fo, follow)
    f2 = np.asarray(g2.get_series(follow))
    nxt = f"the NEXT {'get_series(' + str(follow) + ')' if fo == 's' else str(follow) + ' get_sample() calls'}"
    if not same(f1, f2):
        viol(P, f"{tag}: after calls {txt} vs one request of {total}, {nxt} differ from get_series({follow}) of the single-request instance "
                f"(the stream position / filter state after the calls is not that of the stream): {first_diff(f1, f2)}",
             dict(sig, subclaim="chunking-follow-up", zero_request=0 in ns), payload, extra)
        return
    if not same(f1, f3):
        viol(P, f"{tag}: two same-seed instances differ on {nxt} after {txt}: {first_diff(f1, f3)}", dict(sig, subclaim="same-seed"), payload, extra)
        return
    if nontrivial:
        P.nontrivial.add(("hist", kind, init, tuple(tuple(op) for op in raw), follow))


def hist_spec(rng: np.random.Generator, kind: str, init: bool, alpha=None) -> Dict[str, Any]:
    """parameters for the long-request histories: as gen_spec, the cascade classes with at most ~8 sections (cost per sample ~ sections)"""
    spec = gen_spec(rng, kind, init)
    if kind in ("alpha", "pink"):
        kw = spec["kw"]
        kw["f_min"] = float(kw["f_max"] * 10 ** (-float(rng.uniform(0.3, 1.7))))
        if kind == "alpha" and alpha is not None and alpha != "rand":
            kw["alpha"] = float(alpha)
        elif kind == "alpha" and alpha == "rand":
            kw["alpha"] = float(rng.uniform(0.01, 2.0))
    return spec


def straddle_families(c: int, rng: np.random.Generator) -> List[Tuple[str, int, List[List[Any]], int]]:
    """(family, priority, ops, follow-up length) around a size constant c: the request just below / at / just above / well above / above twice c,
    a long request FOLLOWED by short ones and by get_sample calls, a long request that is not the first, a fine partition against the single
    long request, two long requests, and a running total that crosses c without any single request above it"""
    r = int(rng.integers(2, 90))
    q, rem = divmod(c + 41, FINE)
    return [
        ("above,then-short", 0, [["s", c + 37], ["s", 100]], 7),
        ("below,then-short(single request above)", 0, [["s", c - 1], ["s", 1], ["s", 5]], 7),
        ("above+1", 1, [["s", c + 1], ["s", 2]], 64),
        ("at", 1, [["s", c], ["s", 3]], 2),
        ("twice", 1, [["s", 2 * c + 3], ["s", 7]], 1),
        ("above,short,get_sample", 1, [["s", c + 37], ["s", 0], ["s", 1], ["g", BUF + 1]], 5),
        ("short,above,get_sample", 2, [["s", 5], ["s", c + 1], ["g", 3]], BUF + 4),
        ("fine-partition-vs-single", 2, [["s", FINE, q], ["s", rem]], 64),
        ("above+random", 2, [["s", c + r], ["s", 0], ["s", r]], 500),
        ("two-long", 3, [["s", c + 1], ["s", c + 2], ["s", 1]], 7),
        ("running-total-crosses", 3, [["s", c // 3 + 1, 3], ["s", 2]], 7),
        ("get_sample-run-across", 3, [["s", 1], ["g", min(c + 2, 5 * BUF + 3)]], 3),
    ]


def hist_cases(ctx, rng: np.random.Generator, intensive: bool) -> Tuple[List[Dict[str, Any]], List[str]]:
    """the long-request / size-threshold stream, in the order it is run (cheap first, then by priority; the runner of this list stops at its
    time budget).  Quick tier: at most ~3.3 million samples per case; thorough / intensive: ~9 million and every family for every class."""
    deep = bool(intensive or ctx.thorough)
    cap = 9_000_000 if deep else 3_300_000
    inner, allc = mined_constants()
    cheap = sorted(set([c for c in allc if c <= LONG_FROM] + [BUF]))
    costly = sorted([c for c in allc if c > LONG_FROM], key=lambda c: (c not in inner, c))
    variants = VARIANTS + (VARIANTS_MORE if ctx.thorough else [])
    four = [("white", None), ("red", None), ("alpha", "rand"), ("pink", None)]
    cnt = [0]
    skipped: List[str] = []     # families not run because of the per-case sample cap (reported in the notes)

    def mk(kind, alpha, ops, follow, family, const=None, prio=0, init=None):
        cnt[0] += 1
        ini = bool(cnt[0] % 2) if init is None else bool(init)
        return (prio, {"check": "hist", "spec": hist_spec(rng, kind, ini and kind != "white", alpha), "ops": ops, "follow": int(follow),
                       "family": family, "const": const})
    out: List[Tuple[int, Dict[str, Any]]] = []
    # (1a) cheap mined constants (the 4096 buffer, NumPy-ish chunk sizes): every family, every class variant
    for c in cheap:
        for fam, _, ops, follow in straddle_families(c, rng):
            for kind, al in variants:
                out.append(mk(kind, al, ops, follow, fam, c, prio=0))
                if ctx.thorough and kind != "white":
                    out.append(mk(kind, al, ops, follow, fam, c, prio=0, init=not out[-1][1]["spec"]["kw"].get("init_filter", False)))
    # (3) get_sample across the buffer boundary several times, after settling (init_filter) and without; buffer sizes from the source + 4096
    for b in cheap:
        for j, (kind, al) in enumerate(variants):
            ks = [3 * b + 1, 4 * b, 5 * b - 1, 5 * b + 1, 2 * b + int(rng.integers(2, b)), 6 * b + int(rng.integers(0, 3))]
            pick = [ks[j % len(ks)], int(rng.choice(ks))] if not deep else ks
            for k in sorted(set(pick)):
                cnt[0] += 1
                out.append((0, {"check": "sample", "spec": hist_spec(rng, kind, bool(cnt[0] % 2) and kind != "white", al), "k": int(k)}))
            n0 = int(rng.choice([1, b - 1, b, b + 1, 3 * b + 2]))
            out.append(mk(kind, al, [["s", n0], ["g", 3 * b + 2]], 2 * b + 1, "series,then-get_sample-across-buffers", b, prio=0))
    # a long settling run (longer than the buffer / the cheap constants) before the first request
    for j, b in enumerate(cheap):
        tgt = int(b * int(rng.integers(2, 6)) + int(rng.integers(1, 50)))
        fs = float(rng.choice([1.0, 100.0, 1000.0]))
        spec = {"kind": "red", "seed": int(rng.integers(0, 2 ** 31)), "kw": {"f_sample": fs, "f_min": float(2.0 * fs / (tgt - 0.5)), "init_filter": True}}
        out.append((0, {"check": "hist", "spec": spec, "ops": [["s", b + 1], ["s", 0], ["g", b + 2]], "follow": b, "family": "long-settle", "const": b}))
        out.append((0, {"check": "sample", "spec": spec, "k": 3 * b + 1}))
    # (2) long requests whatever the miner sees (a threshold may be written in a form it does not read: int(1e6), a computed size ...)
    for kind, al in variants:
        out.append(mk(kind, al, [["s", 70001], ["s", 250]], 7, "long:70001", prio=0))
    for kind, al in four:
        out.append(mk(kind, al, [["s", 33], ["s", 70001], ["g", BUF + 3]], 3, "long:70001,get_sample", prio=0))
        out.append(mk(kind, al, [["s", 1060921], ["s", 250]], 7, "long:1060921", prio=0))
    rot = int(rng.integers(0, 4))
    for j, (kind, al) in enumerate(four):
        n = int(rng.integers(70000, 1_200_000))
        s = int(rng.choice([1, 2, 7, 64, 250, int(rng.integers(1, 5000))]))
        if deep or j in (rot, (rot + 1) % 4):
            out.append(mk(kind, al, [["s", n], ["s", s]], int(rng.choice([1, 7, 500])), "long:random", prio=1))
        if deep or j in ((rot + 2) % 4, (rot + 3) % 4):
            out.append(mk(kind, al, [["s", 1060921], ["s", 1], ["s", 0], ["g", 250]], BUF + 1, "long:1060921,get_sample", prio=1))
    # wave-5 witnesses of C17e (demo.py of the stored change)
    a15 = {"kind": "alpha", "seed": 20240917, "kw": {"f_sample": 1000.0, "f_min": 5.0, "f_max": 400.0, "alpha": 1.5, "init_filter": True}}
    pk = {"kind": "pink", "seed": 20240917, "kw": {"f_sample": 1000.0, "f_min": 5.0, "f_max": 400.0, "init_filter": True}}
    out.append((1, {"check": "hist", "spec": a15, "ops": [["s", 1060921], ["s", 1], ["s", 0], ["s", 250], ["s", 1000]], "follow": 7, "family": "witness:C17e"}))
    out.append((1, {"check": "hist", "spec": pk, "ops": [["s", 17], ["s", 2097155], ["s", 64]], "follow": 7, "family": "witness:C17e"}))
    if deep:
        for kind, al in four:
            out.append(mk(kind, al, [["s", 2097157], ["s", 1], ["s", 250]], 7, "long:2097157", prio=2))
            out.append(mk(kind, al, [["s", 4194311], ["s", 5]], 64, "long:4194311", prio=3))
    # (1b) costly mined constants: the two most discriminating families for every class first, the others rotated over the classes
    #      (quick) or for every class (thorough / intensive)
    for c in costly:
        for fi, (fam, prio, ops, follow) in enumerate(straddle_families(c, rng)):
            if ops_total(ops) + follow > cap:
                skipped.append(f"{fam}@{c}")
                continue
            if prio == 0 or deep:
                kinds = list(four) + ([("alpha", 0.01), ("alpha", 2.0)] if ctx.thorough else [])
            elif prio <= 2:
                kinds = [four[(fi + rot) % 4]]
            else:
                kinds = []
            for kind, al in kinds:
                out.append(mk(kind, al, ops, follow, fam, c, prio=prio + 1))
                if ctx.thorough and kind != "white" and prio <= 1:
                    out.append(mk(kind, al, ops, follow, fam, c, prio=prio + 1, init=not out[-1][1]["spec"]["kw"].get("init_filter", False)))
    out.sort(key=lambda t: t[0])      # stable: cheap / unconditional first, then by priority (round-robin over the constants)
    return [p for _, p in out], skipped


CHECKS = {"chunk": check_chunk, "sample": check_sample, "cascade": check_cascade, "stream": check_stream, "hist": check_hist}


def run_payload(P: C.Part, payload: Dict[str, Any]) -> None:
    fn = CHECKS[payload["check"]]
    try:
        fn(P, payload)
    except Exception as ex:     # an in-range request must not raise
        P.cases += 1
        spec = payload.get("spec", {})
        viol(P, f"{payload['check']} check on {spec.get('kind', 'cascade')}{spec.get('kw', '')} raised {ex!r}",
             {"class": spec.get("kind", "cascade"), "subclaim": payload["check"], "raises": True}, payload, {"error": repr(ex)})


def corpus() -> List[Dict[str, Any]]:
    red3 = {"kind": "red", "seed": 3, "kw": {"f_sample": 10.0, "f_min": 0.5, "init_filter": True}}
    red3n = {"kind": "red", "seed": 3, "kw": {"f_sample": 10.0, "f_min": 0.5, "init_filter": False}}
    pink = {"kind": "pink", "seed": 3, "kw": {"f_sample": 100.0, "f_min": 1.0, "f_max": 40.0, "init_filter": True}}
    alpha = {"kind": "alpha", "seed": 7, "kw": {"f_sample": 100.0, "f_min": 1.0, "f_max": 40.0, "alpha": 1.7, "init_filter": True}}
    white = {"kind": "white", "seed": 11, "kw": {"f_sample": 10.0, "psd": 2.0}}
    out = [
        # D9 (design phase): red_noise.get_series(0) handed an empty block to lfilter and corrupted the state: [0, 1000] vs [1000], seed 3
        {"check": "chunk", "spec": red3, "ns": [0, 1000], "follow": 64},
        {"check": "chunk", "spec": red3, "ns": [1000, 0], "follow": 64},
        {"check": "chunk", "spec": red3n, "ns": [500, 0, 0, 500, 0], "follow": 7},
        {"check": "chunk", "spec": red3n, "ns": [0], "follow": 1000},
        {"check": "stream", "spec": red3n, "ns": [0, 1000, 0, 1]},
        {"check": "chunk", "spec": pink, "ns": [0, 1, 4096, 0, 1, 4097], "follow": 64},
        {"check": "chunk", "spec": alpha, "ns": [1, 1, 0, 2, 4095, 1], "follow": 3},
        {"check": "chunk", "spec": white, "ns": [0, 1, 4096, 0, 7], "follow": 3},
        {"check": "chunk", "spec": white, "ns": [], "follow": 5},
    ]
    for k in (1, 4096, 4097, 8193):     # get_sample across the 4096-sample buffer, every class
        for sp in ((white, red3, pink, alpha) if k > 4096 else ([white, red3, pink, alpha][k % 4],)):
            out.append({"check": "sample", "spec": sp, "k": k})
    for fn in sorted(glob.glob(os.path.join(C.CORPUS_DIR, PROP, "*.json"))):
        try:
            d = json.load(open(fn))
            out.extend(d if isinstance(d, list) else [d])
        except Exception:
            pass
    return out


def gen_cascade_payload(rng: np.random.Generator, budget: int = 16000) -> Dict[str, Any]:
    secs, style = gen_sections(rng)
    x = gen_block(rng, max(4, min(3000, budget // len(secs))))
    n = x.size
    split = int(rng.choice([0, n, 1, max(n - 1, 0), int(rng.integers(0, n + 1))]))
    return {"check": "cascade", "secs": [list(s) for s in secs], "x": x.tolist(), "split": split, "style": style}


def oracle(ctx, intensive: bool = False, hints: List[Dict[str, Any]] = ()) -> C.Part:
    P = C.Part()
    rng = ctx.rng
    mult = 4 if intensive else 1
    todo: List[Dict[str, Any]] = list(corpus())
    for h in hints:      # inputs on which model and implementation disagreed
        if isinstance(h, dict) and isinstance(h.get("oracle_payload"), dict):
            todo.append(h["oracle_payload"])
    n_chunk = ctx.scale(400, 10000) * mult
    n_sample = ctx.scale(40, 600) * mult
    n_casc = ctx.scale(300, 8000) * mult
    n_stream = ctx.scale(100, 2500) * mult
    gen: List[Dict[str, Any]] = []
    for i in range(n_chunk):
        kind = KINDS[i % 4]
        init = (i // 4) % 3 == 0
        big = ctx.thorough and i % 8 == 3
        ns, mode = gen_requests(rng, 260000 if big else 20000 if i % 5 else 6000, big)
        gen.append({"check": "chunk", "spec": gen_spec(rng, kind, init), "ns": ns, "follow": int(rng.choice([1, 2, 7, 64, 500])), "mode": mode})
    for i in range(n_sample):
        k = int(rng.choice([1, 2, 3, 4095, 4096, 4097, 8192, 8193, int(rng.integers(1, 9000))]))
        gen.append({"check": "sample", "spec": gen_spec(rng, KINDS[i % 4], i % 3 == 0), "k": k})
    for i in range(n_casc):
        gen.append(gen_cascade_payload(rng))
    for i in range(n_stream):
        ns, mode = gen_requests(rng, 1500)
        ns = [min(n, 400) for n in ns]
        gen.append({"check": "stream", "spec": gen_spec(rng, KINDS[i % 4], i % 2 == 0), "ns": ns})
    # interleave the four kinds of check so that an early stop still covers all of them
    order = rng.permutation(len(gen))
    # long requests / size thresholds read from the current source: run right after the corpus under their own time budget, so that neither
    # they nor the random stream starve each other (own random stream: the other cases do not depend on what the miner finds)
    import time as _time
    sub = np.random.default_rng(int(rng.integers(0, 2 ** 62)))
    longs, skipped = hist_cases(ctx, sub, intensive)
    long_budget = 240.0 if ctx.thorough else 45.0 if intensive else 15.0
    inner, allc = mined_constants()
    P.notes.append(f"size constants mined from {NOISE_FILES[0]}: {allc} (inside the generator classes: {inner})")
    for i, p in enumerate(todo):
        if len(P.violations) >= 5:
            break
        run_payload(P, p)
        if i < 4 and p["check"] != "cascade":
            P.sample({"op": "oracle", "check": p["check"], "spec": p["spec"], "requests": p.get("ns", p.get("k"))})
    done_long = 0
    t_long = _time.time()
    for i, p in enumerate(longs):
        if len(P.violations) >= 5:
            break
        if _time.time() - t_long > long_budget or ctx.time_left() < 25:
            P.notes.append(f"long-request stream: time budget reached after {i} of {len(longs)} cases")
            break
        run_payload(P, p)
        done_long += 1
        if p["check"] == "hist" and ops_total(p["ops"]) > 1_000_000 and not any(isinstance(smp, dict) and smp.get("check") == "hist" for smp in P.samples):
            P.sample({"op": "oracle", "check": "hist", "spec": p["spec"], "requests": p["ops"], "family": p.get("family")}, cap=10)
    P.notes.append(f"long-request stream: {done_long} of {len(longs)} cases in {_time.time() - t_long:.1f}s"
                   + (f"; not run (per-case sample cap of this tier): {skipped}" if skipped else ""))
    todo = [gen[int(j)] for j in order]
    for i, p in enumerate(todo):
        if ctx.time_left() < 15:
            P.notes.append(f"time budget reached after {i} of {len(todo)} cases")
            break
        run_payload(P, p)
        if i < 4 and p["check"] != "cascade":
            P.sample({"op": "oracle", "check": p["check"], "spec": p["spec"], "requests": p.get("ns", p.get("k"))})
        if len(P.violations) >= 5:
            break
    if P.histogram.get("cascade:input_block_modified_in_place(not asserted)"):
        P.notes.append("_numba_lfilter_cascade modified its input block in place (observed; the property does not forbid it)")
    return P


def replay(ctx, data) -> C.Part:
    P = C.Part()
    for v in data.get("violations", []):
        p = v.get("replay", {})
        if p.get("check") in CHECKS:
            run_payload(P, p)
    for b in data.get("broken_obligations", []):
        p = (b.get("case") or {}).get("oracle_payload") if isinstance(b, dict) else None
        if isinstance(p, dict) and p.get("check") in CHECKS:
            run_payload(P, p)
    return P


# ------------------------------------------------------------------------------------------------ generated classes vs real objects
GENOBJ_SIZES = [0, 1, 2, 3, 7, 64, 4095, 4096, 4097]
GENOBJ_COST_PER_S = 1.0e8     # measured: ~1e8 closure evaluations per second in the compiled driver


def genobj_build(spec: Dict[str, Any]):
    """build the real object; for alpha/pink also read the filter-design results (the opaque inputs of the generated __init__)
    off the frame of alpha_noise.__init__ when it returns"""
    import sys
    from speckit import noise
    cap: Dict[str, Any] = {}
    code = noise.alpha_noise.__init__.__code__

    def prof(frame, event, arg):
        if event == "return" and frame.f_code is code:
            for k in ("filter_f_min_vals", "filter_f_max_vals"):
                if k in frame.f_locals:
                    cap[k] = np.array(frame.f_locals[k], dtype=np.float64)
    if spec["kind"] in ("alpha", "pink"):
        old = sys.getprofile()
        sys.setprofile(prof)
        try:
            g = build(spec)
        finally:
            sys.setprofile(old)
    else:
        g = build(spec)
    return g, cap


def genobj_spec(rng: np.random.Generator, kind: str, init: bool, heavy: bool) -> Dict[str, Any]:
    """parameters for the generated-vs-real run: settling at most ~1500 samples; `heavy` cases (4096-blocks, get_sample) of the
    cascade classes use at most 3 sections (the generated cascade costs sections * n^2 per request in the driver)"""
    seed = int(rng.choice([0, 1, 3, int(rng.integers(0, 2 ** 31))]))
    fs = float(rng.choice([1.0, 10.0, 100.0, 1000.0, float(np.round(10 ** rng.uniform(0, 4), 3))]))
    if kind == "white":
        return {"kind": kind, "seed": seed, "kw": {"f_sample": fs, "psd": float(np.exp(rng.uniform(-4, 4)))}}
    if kind == "red":
        ratio = 10 ** rng.uniform(-2.8, -0.4) if init else 10 ** rng.uniform(-6, -0.4)
        return {"kind": kind, "seed": seed, "kw": {"f_sample": fs, "f_min": float(fs * ratio), "init_filter": bool(init)}}
    dec = rng.uniform(0.05, 0.62) if heavy else rng.uniform(0.05, 2.4)
    fmax = float(fs * rng.uniform(0.05, 0.5))
    if init:                      # settle ~ 2 fs / fmin_eff <= ~1500 (and only a few hundred for many sections)
        fmax = float(fs * rng.uniform(0.2, 0.5))
        dec = min(dec, float(np.log10(fmax / fs * (700.0 if heavy else 150.0))))
        dec = max(dec, 0.05)
    fmin = float(fmax * 10 ** (-dec))
    kw = {"f_sample": fs, "f_min": fmin, "f_max": fmax, "init_filter": bool(init)}
    if kind == "alpha":
        kw["alpha"] = float(rng.choice([0.01, 2.0, 1.0, 0.5, float(rng.uniform(0.01, 2.0))]))
    return {"kind": kind, "seed": seed, "kw": kw}


def genobj_ops(rng: np.random.Generator, heavy: bool) -> List[Tuple[str, int]]:
    """request sequence: get_series sizes incl. 0, 1, 2 and (heavy) 4095..4097, interleaved with runs of get_sample()"""
    k = int(rng.integers(2, 8))
    ops: List[Tuple[str, int]] = []
    big = 0
    for _ in range(k):
        if rng.random() < 0.65:
            if heavy and big < 2 and rng.random() < 0.45:
                n = int(rng.choice([4095, 4096, 4097]))
                big += 1
            else:
                n = int(rng.choice([0, 0, 1, 1, 2, 3, 7, 64, int(rng.integers(0, 300))]))
            ops.append(("s", n))
        elif heavy:
            if big < 2 and rng.random() < 0.3:
                ops.append(("g", int(rng.choice([4096, 4097, 4099]))))
                big += 1
            else:
                ops.append(("g", int(rng.choice([1, 2, 3, int(rng.integers(1, 40))]))))
        else:
            ops.append(("s", int(rng.choice([0, 1, 2, int(rng.integers(0, 120))]))))
    if heavy and not any(o == "g" for o, _ in ops):
        ops.insert(int(rng.integers(0, len(ops) + 1)), ("g", int(rng.integers(1, 6))))
    ops.append(("s", int(rng.choice([1, 2, 7]))))
    return ops


def genobj_real(g, ops: List[Tuple[str, int]]) -> np.ndarray:
    out = []
    for o, n in ops:
        if o == "s":
            out.append(np.asarray(g.get_series(n), dtype=np.float64).ravel())
        else:
            out.append(np.array([float(g.get_sample()) for _ in range(n)], dtype=np.float64))
    return cat(out)


def genobj_line(spec: Dict[str, Any], g, cap: Dict[str, Any], xi: np.ndarray, ops: List[Tuple[str, int]]) -> str:
    kw, kind = spec["kw"], spec["kind"]
    tail = f"{C.arr(xi)} {len(ops)} " + " ".join(f"{o} {int(n)}" for o, n in ops)
    if kind == "white":
        return f"genobj white {C.f2h(kw['f_sample'])} {C.f2h(kw['psd'])} {tail}"
    if kind == "red":
        return f"genobj red {C.f2h(kw['f_sample'])} {C.f2h(kw['f_min'])} {int(kw['init_filter'])} {tail}"
    design = f"{int(g._num_spectra)} {C.arr(cap['filter_f_min_vals'])} {C.arr(cap['filter_f_max_vals'])}"
    if kind == "alpha":
        return (f"genobj alpha {C.f2h(kw['f_sample'])} {C.f2h(kw['f_min'])} {C.f2h(kw['f_max'])} {C.f2h(kw['alpha'])} "
                f"{int(kw['init_filter'])} {design} {tail}")
    return f"genobj pink {C.f2h(kw['f_sample'])} {C.f2h(kw['f_min'])} {C.f2h(kw['f_max'])} {int(kw['init_filter'])} {design} {tail}"


def genobj_state(txt: str, kind: str) -> Dict[str, Any]:
    """parse a state dump of the driver (see Drv/ExtNoiseGens.lean)"""
    secs = [t.split() for t in txt.split(";")]
    h = secs[0]
    st: Dict[str, Any] = {"cur": int(h[0]), "bufn": int(h[1])}
    if kind == "white":
        st.update(fs=C.h2f(h[2]), rms=C.h2f(h[3]), z=np.empty(0))
        return st
    if kind == "red":
        st.update(fs=C.h2f(h[2]), fmin=C.h2f(h[3]), scaling=C.h2f(h[4]), rms=C.h2f(h[5]),
                  a=np.array([C.h2f(t) for t in secs[1]]), b=np.array([C.h2f(t) for t in secs[2]]),
                  z=np.array([C.h2f(t) for t in secs[3]]))
        return st
    st.update(fs=C.h2f(h[2]), alpha=C.h2f(h[3]), fmin=C.h2f(h[4]), fmax=C.h2f(h[5]), scaling=C.h2f(h[6]), rms=C.h2f(h[7]), nspec=int(h[8]))
    for name, sec in (("a", secs[1]), ("b", secs[2]), ("zs", secs[3])):
        n, m = int(sec[0]), int(sec[1])
        st[name] = np.array([C.h2f(t) for t in sec[2:]], dtype=np.float64).reshape(n, m)
    st["z"] = st["zs"][:, 0] if st["zs"].shape[1] >= 1 else np.empty(0)
    return st


def genobj_real_state(g, kind: str) -> Dict[str, Any]:
    if kind == "white":
        return {"rng": g._rng, "bufn": int(np.asarray(g._buffer).size), "fs": float(g._fs), "rms": float(g._rms), "z": np.empty(0)}
    w = g._whitenoise
    st = {"rng": w._rng, "bufn": int(np.asarray(g._buffer).size), "fs": float(g._fs), "rms": float(w._rms), "scaling": float(g._scaling),
          "fmin": float(g._fmin)}
    if kind == "red":
        st.update(a=np.asarray(g._a, dtype=np.float64).ravel(), b=np.asarray(g._b, dtype=np.float64).ravel(),
                  z=np.asarray(g._zi, dtype=np.float64).ravel())
    else:
        st.update(a=np.asarray(g._a_coeffs, dtype=np.float64), b=np.asarray(g._b_coeffs, dtype=np.float64),
                  zs=np.asarray(g._zi_states, dtype=np.float64), z=np.asarray(g._zi_states, dtype=np.float64)[:, 0],
                  alpha=float(g._alpha), fmax=float(g._fmax), nspec=int(g._num_spectra))
    return st


def close(a, b, rel: float, absx: float = 0.0) -> bool:
    a, b = np.asarray(a, dtype=np.float64), np.asarray(b, dtype=np.float64)
    return a.shape == b.shape and bool(np.all(np.abs(a - b) <= rel * np.maximum(np.abs(a), np.abs(b)) + absx))


def genobj_case(P: C.Part, drv, spec: Dict[str, Any], ops: List[Tuple[str, int]], heavy: bool) -> None:
    """one differential case: the GENERATED class (Gen/NoiseGens.lean, translated from noise.py this run) executed in Float by the
    driver over the stream xi = the standard-normal draws of a same-seed np.random.default_rng(seed), vs the real object"""
    kind = spec["kind"]
    g, cap = genobj_build(spec)
    payload = {"check": "chunk", "spec": spec, "ns": [int(n) for o, n in ops if o == "s"], "follow": 7}
    case = {"op": f"genobj {kind}", "spec": spec, "requests": [[o, int(n)] for o, n in ops], "oracle_payload": payload}
    if kind in ("alpha", "pink") and set(cap) != {"filter_f_min_vals", "filter_f_max_vals"}:
        P.cases += 1
        P.disagreements.append(dict(case, what="alpha_noise.__init__ no longer has the locals filter_f_min_vals / filter_f_max_vals "
                                               "(the filter-design inputs of the generated __init__)"))
        return
    g0 = copy.deepcopy(g)
    r0 = genobj_real_state(g0, kind)
    m = extract(g0, kind)
    n_series = sum(n for o, n in ops if o == "s")
    n_refill = sum(n // 4096 + 2 for o, n in ops if o == "g")
    fmin_eff = float(g.fmin) if kind != "white" else 1.0
    settle = int(np.ceil(2.0 * spec["kw"]["f_sample"] / fmin_eff)) + 2 if spec["kw"].get("init_filter") else 0
    est = 4 + settle + n_series + 4096 * n_refill
    xi_long = np.random.default_rng(int(spec["seed"])).standard_normal(3 * est + 3 * 4096 + 64)
    real = genobj_real(g, ops)
    r1 = genobj_real_state(g, kind)

    def locate(rng_real) -> int:
        """position of a real Generator on its seed's stream of standard normals (-1: beyond the prepared stretch)"""
        nxt = copy.deepcopy(rng_real).standard_normal(3)
        for j in np.flatnonzero(xi_long[:-3] == nxt[0]):
            if np.array_equal(xi_long[j:j + 3], nxt):
                return int(j)
        return -1
    pos0, pos1 = locate(r0["rng"]), locate(r1["rng"])
    # the generated code gets exactly the stretch the real object consumed (+ a margin): reading beyond it yields NaN
    xi = xi_long[:(pos1 if pos1 >= 0 else est) + 8]
    reply = drv.ask(genobj_line(spec, g0, cap, xi, ops))
    P.cases += 1
    P.hit(f"genobj:{kind}")
    P.hit("genobj:init_filter" if spec["kw"].get("init_filter") else "genobj:no_init")
    P.hit("genobj:heavy(4095-4097 blocks, get_sample refills)" if heavy else "genobj:light")
    for o, n in ops:
        P.hit(f"genobj:{'get_series' if o == 's' else 'get_sample_run'}:{n if n in GENOBJ_SIZES else ('>4096' if n > 4096 else 'other')}")
    if reply.startswith("ERR"):
        P.disagreements.append(dict(case, what="driver error " + reply[:200]))
        return
    parts = reply.split("|")
    out = np.array([C.h2f(t) for t in parts[0].split()], dtype=np.float64)
    s0, s1 = genobj_state(parts[1], kind), genobj_state(parts[2], kind)
    bad: List[str] = []
    # --- the object __init__ leaves behind
    def params(st, rs, tag):
        for k in ("fs", "rms", "scaling", "fmin", "alpha", "fmax"):
            if k in rs and not close(st[k], rs[k], 8 * U):
                bad.append(f"{tag}: {k} generated {st[k]!r} real {rs[k]!r}")
        if "nspec" in rs and st["nspec"] != rs["nspec"]:
            bad.append(f"{tag}: _num_spectra generated {st['nspec']} real {rs['nspec']}")
        for k in ("a", "b"):
            if k in rs and not close(st[k], rs[k], 8 * U):
                bad.append(f"{tag}: coefficient array {k} generated {np.asarray(st[k]).ravel().tolist()[:6]} real {np.asarray(rs[k]).ravel().tolist()[:6]}")
        if "zs" in rs and st["zs"].shape != rs["zs"].shape:
            bad.append(f"{tag}: _zi_states shape generated {st['zs'].shape} real {rs['zs'].shape}")
    params(s0, r0, "after __init__")
    params(s1, r1, "after the requests")

    if s0["cur"] != pos0:
        bad.append(f"after __init__: generated cursor {s0['cur']}, the real Generator is at draw {pos0} of the seed's stream")
    if s1["cur"] != pos1:
        bad.append(f"after the requests: generated cursor {s1['cur']}, the real Generator is at draw {pos1} of the seed's stream")
    if s0["bufn"] != r0["bufn"] or s1["bufn"] != r1["bufn"]:
        bad.append(f"get_sample buffer length: generated {s0['bufn']} -> {s1['bufn']}, real {r0['bufn']} -> {r1['bufn']}")
    # --- tolerance: the running rounding bound of the reference cascade over the stream the requests consumed (max over the stream:
    #     with get_sample interleaved a returned sample is not at its own stream position), plus the effect of a <= 4 ulp difference
    #     between libm and NumPy exp/pow in the coefficients computed by __init__
    consumed = max(0, s1["cur"] - s0["cur"])
    if kind == "white":
        tol_out, tol_z = 0.0, 0.0
    else:
        _, tol, _, tz = stream_reference(m, xi[s0["cur"]:s0["cur"] + consumed])
        pole = max([abs(sc[2]) for sc in m["secs"]] + [0.0])
        amp = 1.0 / max(1.0 - pole, U)
        scale_y = float(np.max(np.abs(real))) if real.size else 0.0
        tol_out = 2.0 * (float(np.max(tol)) if tol.size else 0.0) + 16 * U * amp * scale_y + TINY
        zmax = float(max(np.max(np.abs(r1["z"])) if r1["z"].size else 0.0, np.max(np.abs(r0["z"])) if r0["z"].size else 0.0))
        tol_z = 2.0 * (float(np.max(tz)) if tz.size else 0.0) + 16 * U * amp * zmax + TINY
        # state after __init__: with init_filter it is the end of a settling run over the first s0["cur"] draws.  Its error is NOT relative to the
        # final state (which can be small by chance: |z| = 9.8 where the trajectory has |z| ~ 2500 — false alarm met in the thorough tier,
        # seed 0, red, f_min = 2.03 Hz) but to the trajectory: running rounding bound of the reference cascade over the settling stretch
        # (from a zero state: same magnitudes), with the input error inflated by 8*amp*U*|w| per sample = the effect of a <= 4 ulp difference
        # of the pole (libm vs NumPy exp) entering as dp*y_n at every step, |y_n| <= amp*|w|.
        tol_z0 = 16 * U * amp * (float(np.max(np.abs(r0["z"]))) if r0["z"].size else 0.0) + TINY
        if s0["cur"] > 1 and spec["kw"].get("init_filter"):
            w0 = m["rms"] * np.asarray(xi[:s0["cur"]], dtype=np.float64)
            _y0, _z0, _ey0, ez0 = ref_cascade([(sc[0], sc[1], sc[2], 0.0) for sc in m["secs"]], w0, (1.0 + 8.0 * amp) * U * np.abs(w0) + TINY)
            tol_z0 += 2.0 * SAFETY * (float(np.max(ez0)) if np.size(ez0) else 0.0)
        if not close(s0["z"], r0["z"], 0.0, tol_z0):
            bad.append(f"after __init__: filter state generated {s0['z'].tolist()[:4]} real {r0['z'].tolist()[:4]}")
    if out.shape != real.shape:
        bad.append(f"the requests returned {out.size} samples in the generated code, {real.size} in the real object")
    elif not close(out, real, 0.0, tol_out):
        bad.append(f"returned samples: {first_diff(out, real)} (tolerance {tol_out:.3g})")
    if s1["z"].shape != r1["z"].shape or not close(s1["z"], r1["z"], 0.0, tol_z):
        bad.append(f"after the requests: filter state generated {s1['z'].tolist()[:4]} real {r1['z'].tolist()[:4]} (tolerance {tol_z:.3g})")
    if not bad and same(out, real) and same(s1["z"], r1["z"]):
        P.hit("genobj:bit_identical")
    if bad:
        P.disagreements.append(dict(case, what="; ".join(bad[:4]), generated_state=[s0["cur"], s1["cur"], s1["bufn"]]))
    if real.size >= 2 and len(ops) >= 2 and float(np.ptp(real)) > 0.0:
        P.nontrivial.add(("genobj", kind, bool(spec["kw"].get("init_filter")), tuple(ops)))
    if len([1 for smp in P.samples if isinstance(smp, dict) and str(smp.get("op", "")).startswith("genobj")]) < 2:
        P.sample({"op": f"genobj {kind}", "spec": spec, "requests": [[o, int(n)] for o, n in ops], "first_generated": out[:3].tolist(),
                  "first_real": real[:3].tolist(), "cursor": [s0["cur"], s1["cur"]], "buffer": s1["bufn"]}, cap=10)


def genobj_cost(g_kind: str, nspec: int, ops: List[Tuple[str, int]], settle: int) -> float:
    blocks = [n for o, n in ops if o == "s"] + [4096] * sum(n // 4096 + 1 for o, n in ops if o == "g") + [settle]
    per = float(sum(b * b for b in blocks))
    return per * (nspec if g_kind in ("alpha", "pink") else 0.0) + 20.0 * sum(blocks)


def genobj_run(P: C.Part, ctx, drv, rng: np.random.Generator) -> None:
    n_cases = ctx.scale(36, 400)
    budget = 16.0 if not ctx.thorough else 240.0
    spent, t0 = 0.0, __import__("time").time()
    for i in range(n_cases):
        if ctx.time_left() < 20 or (__import__("time").time() - t0) > budget:
            P.notes.append(f"genobj: time budget reached after {i} of {n_cases} cases")
            break
        kind = KINDS[i % 4]
        init = (i // 4) % 2 == 1
        heavy = (i // 8) % 2 == 0 if kind in ("alpha", "pink") else (i % 3 != 2)
        spec = genobj_spec(rng, kind, init and kind != "white", heavy)
        ops = genobj_ops(rng, heavy)
        if kind in ("alpha", "pink"):
            nspec = int(np.ceil(4.5 * np.log10(spec["kw"]["f_max"] / spec["kw"]["f_min"])))
            settle = int(2.0 * spec["kw"]["f_sample"] / spec["kw"]["f_min"]) + 1 if init else 0
            if spent + genobj_cost(kind, nspec, ops, settle) > budget * GENOBJ_COST_PER_S * 0.8:
                # the cost budget of the generated cascade (sections * n^2 per request) is used up: small requests only from here on
                ops = [("s", min(n, 64)) if o == "s" else ("s", 3) for o, n in ops]
            spent += genobj_cost(kind, nspec, ops, settle)
        genobj_case(P, drv, spec, ops, heavy)
    P.notes.append(f"genobj: generated classes vs real objects, {P.histogram.get('genobj:white', 0) + P.histogram.get('genobj:red', 0) + P.histogram.get('genobj:alpha', 0) + P.histogram.get('genobj:pink', 0)} "
                   f"cases in {__import__('time').time() - t0:.1f}s")


# ------------------------------------------------------------------------------------------------ correspondence (model vs real)
def secs_line(secs) -> str:
    return str(len(secs)) + "".join(" " + " ".join(C.f2h(v) for v in s) for s in secs)


def parse_reply(r: str) -> Tuple[List[str], List[str]]:
    if r.startswith("ERR"):
        raise RuntimeError("driver error " + r[:200])
    left, _, right = r.partition("|")
    return left.split(), right.split()


def correspondence(ctx) -> C.Part:
    P = C.Part()
    rng = ctx.rng
    drv = ctx.driver
    # (a) _numba_lfilter_cascade vs Model.cascadeRun (Float), and vs scipy.signal.lfilter section by section
    n_a = ctx.scale(300, 6000)
    for i in range(n_a):
        if ctx.time_left() < 90:
            P.notes.append("time budget reached in (a)")
            break
        p = gen_cascade_payload(rng, 12000)
        secs = [tuple(s) for s in p["secs"]]
        x = np.array(p["x"], dtype=np.float64)
        ys_t, zs_t = parse_reply(drv.ask(f"cascade {secs_line(secs)} {C.arr(x)}"))
        my = np.array([C.h2f(t) for t in ys_t], dtype=np.float64)
        mz = np.array([C.h2f(t) for t in zs_t], dtype=np.float64)
        out, zf, _ = real_cascade(secs, x)
        _, _, ey, ez = ref_cascade(secs, x)
        P.cases += 1
        P.hit(f"cascade:{p['style']}")
        P.hit("cascade:n=0" if x.size == 0 else "cascade:n=1" if x.size == 1 else "cascade:n>=2")
        P.hit("cascade:nsec=1" if len(secs) == 1 else "cascade:nsec>=2")
        ok_shape = my.shape == out.shape and mz.shape == (len(secs),) and zf.shape == (len(secs), 1)
        ok = ok_shape and bool(np.all(np.abs(my - out) <= 2 * SAFETY * ey)) and bool(np.all(np.abs(mz - zf[:, 0]) <= 2 * SAFETY * ez))
        if ok and same(my, out) and same(mz, zf[:, 0]):
            P.hit("cascade:bit_identical")
        if not ok:
            P.disagreements.append({"op": "cascade", "nsec": len(secs), "n": int(x.size),
                                    "max_abs_diff": float(np.max(np.abs(my - out))) if ok_shape and x.size else None,
                                    "impl_state": zf.ravel().tolist(), "model_state": mz.tolist(), "oracle_payload": p})
        # the GENERATED cascade (Gen/Noise.lean, translated from noise.py each run) must reproduce the model's (= the code's) numbers
        if x.size <= 400:
            def a2(rows):
                return f"{len(rows)} {len(rows[0]) if rows else 2} " + " ".join(C.f2h(v) for r_ in rows for v in r_)
            gl = "gencascade " + a2([[s_[0], s_[1]] for s_ in secs]) + " " + a2([[1.0, s_[2]] for s_ in secs]) + " " + \
                 f"{len(secs)} 1 " + " ".join(C.f2h(s_[3]) for s_ in secs) + " " + C.arr(x)
            gy_t, gz_t = parse_reply(drv.ask(gl))
            gy = np.array([C.h2f(t) for t in gy_t], dtype=np.float64)
            gz = np.array([C.h2f(t) for t in gz_t], dtype=np.float64)
            P.cases += 1
            P.hit("gencascade")
            if not (gy.shape == out.shape and gz.shape == (len(secs),) and bool(np.all(np.abs(gy - out) <= 2 * SAFETY * ey))
                    and bool(np.all(np.abs(gz - zf[:, 0]) <= 2 * SAFETY * ez))):
                P.disagreements.append({"op": "gencascade", "nsec": len(secs), "n": int(x.size), "impl_state": zf.ravel().tolist(),
                                        "generated_state": gz.tolist(), "oracle_payload": p})
        ys, zs = scipy_cascade(secs, x)
        P.cases += 1
        if not (bool(np.all(np.abs(ys - out) <= 2 * SAFETY * ey)) and bool(np.all(np.abs(zs - zf[:, 0]) <= 2 * SAFETY * ez))):
            P.disagreements.append({"op": "cascade-vs-lfilter", "nsec": len(secs), "n": int(x.size),
                                    "max_abs_diff": float(np.max(np.abs(ys - out))) if x.size else None, "oracle_payload": p})
        if x.size >= 1:
            P.nontrivial.add(("cascade", len(secs), int(x.size), p["style"]))
        if i < 2:
            P.sample({"op": "cascade", "nsec": len(secs), "n": int(x.size), "impl_state": zf.ravel().tolist(), "model_state": mz.tolist()})

    # (b) generator classes under a request sequence vs Model.runRequests over the generator's own standard-normal stream
    n_b = ctx.scale(120, 2500)
    for i in range(n_b):
        if ctx.time_left() < 40:
            P.notes.append("time budget reached in (b)")
            break
        kind = KINDS[i % 4]
        init = (i // 4) % 2 == 1
        spec = gen_spec(rng, kind, init)
        ns, mode = gen_requests(rng, 20000 if i % 6 == 0 else 5000)
        ns = ns + [int(rng.choice([1, 7, 64]))]          # a request after the sequence
        payload = {"check": "stream", "spec": spec, "ns": ns}
        g = build(spec)
        m = extract(g, kind)
        total = int(sum(ns))
        xi = m["rng"].standard_normal(total)
        # contract: Generator.normal(0, rms, n) == rms * standard_normal draws, chunk-invariant (white source of every class)
        wsrc = build(spec)
        wgen = wsrc if kind == "white" else wsrc._whitenoise
        wparts = cat([wgen.get_series(n) for n in ns])
        P.cases += 1
        if not same(wparts, m["rms"] * xi):
            P.disagreements.append({"op": "contract-normal", "kind": kind, "spec": spec, "ns": ns, "diff": first_diff(wparts, m["rms"] * xi),
                                    "oracle_payload": payload})
        got = cat([np.asarray(g.get_series(n)) for n in ns])
        zf = np.array(current_state(g, kind), dtype=np.float64)
        if kind == "white":
            line = f"gen white {C.f2h(m['rms'])} {C.arr(xi)} {C.iarr(ns)}"
        elif kind == "red":
            s = m["secs"][0]
            line = f"gen red {C.f2h(m['rms'])} {C.f2h(s[0])} {C.f2h(-s[2])} {C.f2h(m['scaling'])} {C.f2h(s[3])} {C.arr(xi)} {C.iarr(ns)}"
        else:
            line = f"gen alpha {C.f2h(m['rms'])} {C.f2h(m['scaling'])} {secs_line(m['secs'])} {C.arr(xi)} {C.iarr(ns)}"
        ys_t, st_t = parse_reply(drv.ask(line))
        my = np.array([C.h2f(t) for t in ys_t], dtype=np.float64)
        cur = int(st_t[0])
        mz = np.array([C.h2f(t) for t in st_t[1:]], dtype=np.float64)
        _, tol, _, tz = stream_reference(m, xi)
        P.cases += 1
        P.hit(f"gen:{kind}")
        P.hit("gen:init_filter" if init and kind != "white" else "gen:no_init")
        P.hit(f"gen:req_mode_{mode}")
        for n in set(ns):
            P.hit(f"req_size:{n if n in SIZES else 'other'}")
        ok = (my.shape == got.shape and cur == total and mz.shape == zf.shape
              and bool(np.all(np.abs(my - got) <= 2 * tol)) and bool(np.all(np.abs(mz - zf) <= 2 * tz)))
        if ok and same(my, got) and same(mz, zf):
            P.hit("gen:bit_identical")
        if not ok:
            P.disagreements.append({"op": f"gen {kind}", "spec": spec, "ns": ns, "model_len": int(my.size), "impl_len": int(got.size), "model_cursor": cur,
                                    "max_abs_diff": float(np.max(np.abs(my - got))) if my.shape == got.shape and got.size else None,
                                    "impl_state": zf.tolist(), "model_state": mz.tolist(), "oracle_payload": payload})
        if total >= 2 and len(ns) >= 2:
            P.nontrivial.add(("gen", kind, init, tuple(ns)))
        if i < 4:
            P.sample({"op": f"gen {kind}", "spec": spec, "requests": ns, "first_impl": got[:3].tolist(), "first_model": my[:3].tolist(),
                      "impl_state": zf.tolist()[:3], "model_state": mz.tolist()[:3]})

    # (c) the GENERATED generator classes (Gen/NoiseGens.lean, translated from noise.py this run) executed in Float vs the real objects:
    #     request sequences interleaving get_series (sizes incl. 0, 1, 2, 4095..4097) with get_sample runs; own random stream
    sub = np.random.default_rng(int(rng.integers(0, 2 ** 62)))
    try:
        genobj_run(P, ctx, drv, sub)
    except RuntimeError as ex:           # the driver died / cannot serve `genobj`
        P.disagreements.append({"op": "genobj", "what": f"generated classes could not be executed: {ex!r}"[:300]})
    return P
