"""C07 — transfer-function estimates recover gain and phase with the right sign.

  (1) y = g·x      ⇒ Hxy = g, coh = 1, cf = |g|, phase 0 or π at every bin with XX > 0 (any plan / order / window / backend);
  (2) y[n] = x[n−d] ⇒ Hxy = e^{−iωd}(1+ε): a lagging output has NEGATIVE phase; |ε| is bounded per bin by the proved delay
                      decomposition evaluated numerically (window differences + edge sums, generalised to the detrended window);
  (3) numba / numpy / CUDA(simulator) give the same XX, YY, XY (in particular the same sign of Im XY);
  (4) the same through `compute_single_bin`;
  (5) the same beyond every size threshold: the product K·L of one bin, K alone, L alone and the record length N alone are taken across every
      integer constant of the CURRENT core.py / analysis.py (vk.common.mined_sizes) and across 2^16, 2^20, 70 001, 1 100 003 (c-1, c, c+1, c+17,
      2c+3), on the NumPy AND the Numba backend (and their agreement), orders -1 … 2, g in {-2.5, 0.3}, d in {1, 5}: single bins with an explicit
      L and the overlap that gives the wanted K, and band-limited `compute_spectrum` on a record of ~600 000 samples (`size_stream`);
  (6) the transfer function is estimated BIN BY BIN — the spectrum elsewhere must not matter: records with a huge spectral dynamic range (a line
      2^10 … 2^40 times the floor rms on / off a plan bin, f^(+-6) shaped noise with > 200 dB between the band ends, a DC level 2^10 … 2^40 times the
      floor) with y = g x (g = -2, 0.25: exact check relative to the bin's OWN magnitude; g = -2.5, 0.3: the rounding budget) and y = x delayed by
      1 / 3 samples, compute() / compute_spectrum, four schedulers, both backends, orders -1 … 2; every bin of every result (all streams):
      Hxy = conj(XY)/XX where XX != 0; bins of the multi-bin result against `compute_single_bin(f_i, L=L_i)` of the same record (`hdr_stream`).
"""
from __future__ import annotations

import json
import math
import os
import subprocess
import sys
import warnings
from typing import Any, Dict, List, Optional, Tuple

import numpy as np

from .. import common as C
from . import _an

PROP = "C07"
# obligations of the properties this one is downstream of are obligations of this check too (vk.runner.collect_obligations)
UPSTREAM = ["C05"]
GEN_REGIONS = ["Attrs", "CoreKernels", "CudaKernels", "NumpyKernels"]
THEOREMS = {
    # NumPy backend, translated from core.py each run: same estimator (hence same Hxy sign and value) as Numba/CUDA
    "SpecKitV.Props.NumpyKernelsGen": ["np_numba_agree_win_only_auto", "np_numba_agree_win_only_csd", "np_numba_agree_detrend0_auto", "np_numba_agree_detrend0_csd", "np_numba_agree_poly_auto", "np_numba_agree_poly_csd", "np_cross_is_X_conjY_win_only", "np_cross_is_X_conjY_detrend0", "np_cross_is_X_conjY_poly"],
    "SpecKitV.Props.AttrsA": ["tf_static_gain", "tf_zero_input", "tf_is_Y_over_X", "coh_one_of_eq"],
    "SpecKitV.Lemmas.Detrend": ["detr_linear", "segDFT_scale"],
    "SpecKitV.Props.C01": ["numba_cuda_agree_win_only_csd", "numba_cuda_agree_win_only_auto", "numba_cuda_agree_detrend0_csd",
                           "numba_cuda_agree_detrend0_auto", "numba_cuda_agree_poly_csd", "numba_cuda_agree_poly_auto",
                           "ref_cross_is_X_conjY"],
    # SpecKitV/Lemmas/Delay.lean existed and built (lake build SpecKitV.Lemmas.Delay) when this module was finished; these are the
    # theorems it really contains (order −1 decomposition and bound, exact static gain for every order, sign convention, perturbation)
    "SpecKitV.Lemmas.Delay": ["detr_gain", "segDFT_gain", "delay_decomposition", "delay_bound", "tf_of_pure_delay", "tf_of_pure_delay_arg",
                              "tf_delay_perturbed", "tf_delay_perturbed_abs"],
    # every detrending order: the detrended windowed DFT is a plain DFT with the effective window u = (I-P)(w e^{-iwn}); the oracle's
    # coefficient vector c (delay_coeffs) and its l1 / l2 bounds (delay_eps) are `delayCoeffs`, `delay_bound_any_order_l1/_l2`
    "SpecKitV.Lemmas.DelayEff": ["segDFT_effWin", "delay_decomposition_eff", "delay_bound_eff", "delay_bound_any_order",
                                 "delay_coeffs_identity", "delayCoeffs_l1", "delay_bound_coeffs_l1", "delay_bound_coeffs_l2",
                                 "delay_bound_any_order_l1", "delay_bound_any_order_l2"],
}
CONTRACTS = ["np.linalg.qr (through _build_Q) returns orthonormal columns spanning the polynomials of degree <= order (checked numerically by C08's correspondence)",
             "CUDA kernels are translated from core_cuda.py source and executed only under Numba's CUDA simulator",
             "np.angle / np.abs / np.conj on complex128 behave as Complex.arg / norm / conj"]
ASSUMPTIONS = ["rounding and fastmath re-association are covered by the stated forward tolerance (vk.props._an.bin_tol), not by theorem",
               "the delay deviation |Hxy - e^{-i w d}| is bounded per bin by max_s |sum_k c_k x(s+k)| / sqrt(XX) with c the shifted-window difference: "
               "for order -1 this is exactly `delay_decomposition`/`delay_bound` evaluated numerically (B = max|x| over the segment); for orders >= 0 the "
               "same identity is applied to the effective window u = (I-P)(w e^{-i w n}) (P the symmetric polynomial projection): "
               "`segDFT_effWin`, `delay_coeffs_identity`, `delay_bound_any_order_l1/_l2` (Lemmas/DelayEff); deterministic (l-infinity and l2 Hoelder) for every record, and for unit white Gaussian records "
               "additionally the 8-sigma quantile 8*||c||_2 (failure probability < 1e-13 per segment); passing from per-segment to the averaged "
               "estimate uses mean|X_s| <= sqrt(XX) (`tf_delay_perturbed` is the one-segment statement)",
               "the NumPy fallbacks are tied to the reference by correspondence (C01) and by the backend-agreement part of this oracle, not by theorem",
               "size stream only: bins with K > 64(L+4) segments get the explicit accumulation term 4Ku of the K-term means added to the rounding budget "
               "(`acc_term`; every other case keeps the budget of vk.props._an.bin_tol unchanged)"]
RULE = ("cases = (mode gain|delay|single|edge|corpus|size, scheduler, detrend order, window, backend, record kind, gain g or delay d, data layout 2xN|Nx2); "
        "every (scheduler x order x window) combination is visited by rotation, records/options drawn from a per-case seed; "
        "distinct by (mode, scheduler, order, window, backend, g-class or d, L of the bin); non-trivial = a bin with XX > 0 whose tolerance is "
        "decisive (static gain: tolerance < 1e-3|g|; delay: bound < |sin(w d)| so that the sign of the phase is decided); "
        "size stream: (axis P=K*L|K|L|N|plan, size, below?, order, gain|delay, backend, K, L of the evaluated bin) — on every run all 4 orders x "
        "{gain, delay} x {numpy, numba} with K*L just beyond each of the (up to four) largest thresholds >= 2^15, K / L / N = 70 001.. for every order, "
        "one band-limited plan on ~600 000 samples, then thresholds x offsets x axes rotated by the seed within a time share (12 s quick, 60 s when an "
        "obligation broke, 150 s thorough; bins up to 2.3e6 gathered samples quick, 9.5e6 otherwise); CUDA simulator not run at these sizes; "
        "hdr stream: (scheduler x order by rotation, record line-on|line-off|slope+6|slope-6|dc, level 2^10..2^40, g in {-2, 0.25, -2.5, 0.3} | d in {1, 3}, "
        "compute|compute_spectrum, backend), 16 gain + 8 delay cases per run (x4 when an obligation broke), non-trivial = a bin whose XX is more than "
        "2^-52 below the largest XX of the same result (dyn) and whose Hxy is decided by the exact / ratio predicate; plus up to 3 bins per result "
        "re-analysed with compute_single_bin(f_i, L=L_i)")

U = 2.0 ** -53
NAMES = ["Hxy", "Hyx", "tf", "coh", "cf", "cf_rad", "cf_deg", "Gxy"]
GAINS = [2.5, -0.5, 1e-6, 1e6, None]           # None = random
KINDS = ["noise", "drift", "red", "offset", "tone"]
ORDERS = [-1, 0, 1, 2]
WINS = ["hann", "kaiser"]
BACKENDS = ["numba", "numpy"]


# ---------------------------------------------------------------- CUDA (simulator) at analyzer level, in a worker process
_WORKER = r'''
import os
os.environ["NUMBA_ENABLE_CUDASIM"] = "1"
import sys, json, warnings, logging
warnings.filterwarnings("ignore")
logging.disable(logging.CRITICAL)
import numpy as np
from speckit.analysis import compute_spectrum, compute_single_bin
for line in sys.stdin:
    line = line.strip()
    if not line:
        continue
    c = json.loads(line)
    try:
        data = np.array(c["data"], dtype=np.float64)
        if c.get("freq") is not None:
            r = compute_single_bin(data, c["fs"], c["freq"], L=c["L"], backend="cuda", **c["o"])
        else:
            r = compute_spectrum(data, c["fs"], backend="cuda", **c["o"])
        out = {"f": r.f.tolist(), "L": [int(v) for v in r.L], "D": [[int(s) for s in d] for d in r.D],
               "XX": r.XX.tolist(), "YY": r.YY.tolist(), "XYr": r.XY.real.tolist(), "XYi": r.XY.imag.tolist(), "M2": r.M2.tolist(),
               "S2": r.S2.tolist(), "S12": r.S12.tolist()}
        print(json.dumps(out), flush=True)
    except Exception as ex:
        print(json.dumps({"err": repr(ex)}), flush=True)
'''


class CudaAnalyzer:
    """`compute_spectrum(..., backend="cuda")` under NUMBA_ENABLE_CUDASIM=1 (must be set before numba is imported: own process)"""
    def __init__(self):
        env = dict(os.environ, NUMBA_ENABLE_CUDASIM="1")
        self.p = subprocess.Popen([sys.executable, "-W", "ignore", "-c", _WORKER], cwd=C.VERIF, env=env, stdin=subprocess.PIPE,
                                  stdout=subprocess.PIPE, stderr=subprocess.DEVNULL, text=True, bufsize=1)

    def run(self, data: np.ndarray, fs: float, o: Dict[str, Any], freq: Optional[float] = None, L: Optional[int] = None):
        self.p.stdin.write(json.dumps({"data": np.asarray(data).tolist(), "fs": fs, "o": o, "freq": freq, "L": L}) + "\n")
        self.p.stdin.flush()
        line = self.p.stdout.readline()
        if not line:
            raise RuntimeError("cuda worker died")
        r = json.loads(line)
        if "err" in r:
            raise RuntimeError(r["err"])
        return RawResult(r, fs)

    def close(self):
        try:
            self.p.stdin.close()
            self.p.wait(timeout=10)
        except Exception:
            self.p.kill()


class RawResult:
    """raw statistics returned by the CUDA worker, wrapped into a REAL SpectrumResult so that the attributes are the library's"""
    def __init__(self, r: Dict[str, Any], fs: float):
        from speckit.analysis import SpectrumResult
        n = len(r["f"])
        D = np.empty(n, dtype=object)
        for i, d in enumerate(r["D"]):
            D[i] = np.array(d, dtype=np.int64)
        K = np.array([len(d) for d in r["D"]], dtype=np.int64)
        d = {"f": np.array(r["f"], dtype=float), "r": np.zeros(n), "b": np.zeros(n), "L": np.array(r["L"], dtype=np.int64), "K": K, "navg": K,
             "D": list(D), "O": np.zeros(n), "XX": np.array(r["XX"], dtype=float), "YY": np.array(r["YY"], dtype=float),
             "XY": np.array(r["XYr"], dtype=float) + 1j * np.array(r["XYi"], dtype=float), "S12": np.array(r["S12"], dtype=float),
             "S2": np.array(r["S2"], dtype=float), "M2": np.array(r["M2"], dtype=float), "compute_t": np.zeros(n)}
        self.res = SpectrumResult(d, {}, True, float(fs))


# ---------------------------------------------------------------- numerics
def seg_amp(x: np.ndarray, D, L: int, w: np.ndarray, order: int = -1) -> float:
    """magnitude scale of the rounding budget: max over the segments of Σ|x·w|; with detrending (order >= 0) the error of the fitted trend is
    proportional to the UNWEIGHTED size of the segment and enters every sample, hence + mean|x|·Σ|w| (sound also where the window suppresses
    the samples on which a trend is largest)"""
    D = np.asarray(D, dtype=np.int64)
    idx = D[:, None] + np.arange(L, dtype=np.int64)[None, :]
    ax = np.abs(x[idx])
    aw = np.abs(w)
    v = (ax * aw[None, :]).sum(axis=1)
    if order >= 0:
        v = v + ax.mean(axis=1) * float(aw.sum())
    return float(v.max()) + 1e-300


def eff_window(w: np.ndarray, omega: float, order: int) -> np.ndarray:
    """u = (I − P)(w·e^{−iωn}), P the (symmetric) projection on polynomials of degree <= order: X_s = Σ_m u(m) x(s+m)"""
    L = len(w)
    v = w * np.exp(-1j * omega * np.arange(L))
    if order == 0:
        return v - v.mean()
    if order >= 1:
        Q = np.asarray(_an.poly_basis(L, order), dtype=np.float64)
        return v - Q @ (Q.T @ v)
    return v


def delay_coeffs(w: np.ndarray, omega: float, order: int, d: int) -> np.ndarray:
    """c with  Y_s − e^{−iωd} X_s = Σ_{k<L+d} c_k · xl[s+k]   (y[n] = xl[n], x[n] = xl[n+d])"""
    L = len(w)
    u = eff_window(w, omega, order)
    c = np.zeros(L + d, dtype=complex)
    c[:L] += u
    c[d:] -= np.exp(-1j * omega * d) * u
    return c


def delay_eps(xl: np.ndarray, d: int, D, L: int, w: np.ndarray, omega: float, order: int, white_sigma: Optional[float]) -> float:
    """bound of max_s |Y_s − e^{−iωd} X_s| : min(Hölder-∞, Hölder-2 [, 8σ‖c‖₂ for white Gaussian records])"""
    c = delay_coeffs(w, omega, order, d)
    E1 = float(np.abs(c).sum())
    E2 = float(np.sqrt((np.abs(c) ** 2).sum()))
    D = np.asarray(D, dtype=np.int64)
    idx = D[:, None] + np.arange(L + d, dtype=np.int64)[None, :]
    seg = np.abs(xl[idx])
    rig = float(np.minimum(seg.max(axis=1) * E1, np.sqrt((seg ** 2).sum(axis=1)) * E2).max())
    if white_sigma is not None:
        rig = min(rig, 8.0 * white_sigma * E2)
    return rig * (1 + 1e-9) + 1e-300


def wrap(a: float) -> float:
    return (a + math.pi) % (2 * math.pi) - math.pi


def acc_term(s: Dict[str, Any], K: int, L: int) -> float:
    """SIZE STREAM ONLY (0.0 — i.e. the budget of `_an.bin_tol` unchanged — for every other case): the budget of `_an.bin_tol` models the rounding
    of ONE segment's windowed DFT, relative size 64u(L+4)·min(L+1, 1/|sin w|) >= 64u(L+4); the statistics are MEANS over the K segments of the bin,
    and a recursively summed mean of K terms p_s adds at most (K−1)u/(1−(K−1)u)·mean|p_s| + u|mean| <= 2Ku·max|p_s| (Higham, Thm 4.4; the Numba
    reducer is `np.mean` compiled with fastmath = some summation order, NumPy's is pairwise: both within this bound), |p_s| <= a², b², ab.  For
    K <= 64(L+4) that term is below the per-segment budget already granted; the size stream alone reaches bins with K >> 64(L+4) (K = 70 001 …
    2^20 segments of 4 … 64 samples), where it is the dominant term and is added explicitly as 4Ku (M2 = mean|Z−mu|² inherits 2|Z−mu||dmu| + the
    error of its own mean <= 16Ku(ab)²)."""
    if "size" not in s or K <= 64 * (L + 4):
        return 0.0
    return 4.0 * K * U


# ---------------------------------------------------------------- case specification (reproducible from the spec alone)
def make_spec(mode: str, idx: int, case_seed: int) -> Dict[str, Any]:
    r = np.random.default_rng([case_seed, idx])
    sched = _an.SCHEDS[idx % 4]
    order = ORDERS[(idx // 4) % 4]
    win = WINS[(idx // 16) % 2]
    kind = KINDS[idx % 5]
    if order == -1 and kind in ("offset", "drift") and idx % 2:
        kind = "noise"
    o: Dict[str, Any] = {"scheduler": sched, "order": order, "win": win,
                         "olap": [0.5, 0.75, "default", 0.3][int(r.integers(0, 4))], "Jdes": int(r.integers(8, 25)),
                         "Kdes": int(r.choice([2, 5, 20])), "bmin": float(r.choice([1.0, 2.0])), "Lmin": int(r.choice([1, 8, 64]))}
    if win == "kaiser":
        o["psll"] = float(r.choice([60.0, 100.0, 200.0]))
    s: Dict[str, Any] = {"mode": mode, "idx": idx, "case_seed": case_seed, "N": int(r.integers(1000, 6001)), "kind": kind,
                         "fs": float(r.choice([1.0, 2.0, 1000.0, float(r.uniform(0.5, 100.0))])), "layout": ["2xN", "Nx2"][idx % 2 if mode != "single" else (idx // 2) % 2],
                         "o": o, "rec_seed": int(r.integers(0, 2 ** 62))}
    if mode in ("gain", "single-gain"):
        g = GAINS[idx % 5]
        if g is None:
            g = float(r.choice([-1.0, 1.0])) * float(10 ** r.uniform(-3, 3))
        s["g"] = float(g)
    if mode in ("delay", "single-delay"):
        d = [1, 2, 3, 5][idx % 4]
        s["d"] = d
        s["kind"] = "noise" if idx % 3 else ["tone", "red"][(idx // 3) % 2]
        o["scheduler"] = _an.SCHEDS[(idx // 4) % 4]
        o["order"] = ORDERS[(idx // 2) % 4]
        o["Lmin"] = int(d * [64, 128, 256][idx % 3])
        o["bmin"] = 1.0
        s["N"] = int(max(s["N"], 4 * o["Lmin"] + 8, 1500))
        if win == "kaiser":
            o["psll"] = float(r.choice([60.0, 100.0]))
    if mode.startswith("single"):
        N = s["N"]
        if mode == "single-delay":
            L = int(s["d"] * r.integers(128, 400))
            L = min(L, N // 2)
            phi = float(r.uniform(0.3, 2.4))
            s["freq"] = phi * s["fs"] / (2 * math.pi * s["d"])
        else:
            L = int(r.choice([int(r.integers(3, 40)), int(r.integers(40, 600)), N, N // 2]))
            s["freq"] = float(r.uniform(0.0, 0.5)) * s["fs"] if idx % 7 else [0.0, 0.5 * s["fs"]][(idx // 7) % 2]
        s["L"] = int(L)
        s["via"] = ["L", "fres", "fres_frac"][idx % 3]      # fres_frac: a resolution that does NOT divide fs (segL = round(fs/fres); the bin is still `freq`)
    return s


# (6) records with a huge spectral dynamic range: a unit white floor plus something 2^10 … 2^40 times larger somewhere else in the spectrum
HDR_KINDS = ["line-on", "line-off", "slope+6", "slope-6", "dc"]
HDR_P = [30, 40, 20, 10]
HDR_G = [-2.0, -2.5, 0.25, 0.3]          # powers of two: y = g·x exactly, sample by sample
HDR_D = [1, 3]


def hdr_record(r: np.random.Generator, n: int, h: Dict[str, Any], fs: float) -> np.ndarray:
    t = np.arange(n, dtype=np.float64)
    floor = r.standard_normal(n)
    kind = h["kind"]
    if kind in ("line-on", "line-off"):
        return floor + 2.0 ** h["p"] * np.sin(2 * np.pi * (h["f0"] / fs) * t + float(r.uniform(0, 6)))
    if kind == "dc":
        return floor + float(r.choice([-1.0, 1.0])) * 2.0 ** h["p"]
    if kind in ("slope+6", "slope-6"):
        # amplitude shaping f^(+-3) of a white spectrum (power f^(+-6)): (n/2)^6 between the band ends, > 200 dB for n >= 6000; weakest end = unit level
        W = np.fft.rfft(floor)
        k = np.arange(len(W), dtype=np.float64)
        sh = np.zeros(len(W))
        sh[1:] = (k[1:] / k[1]) ** 3 if kind == "slope+6" else (k[1:] / k[-1]) ** -3
        return np.ascontiguousarray(np.fft.irfft(W * sh, n))
    raise ValueError(kind)


def is_pow2(g: float) -> bool:
    return g != 0 and math.isfinite(g) and math.frexp(abs(g))[0] == 0.5


def exact_tol(K: int) -> float:
    """y = g·x with g a power of two (no overflow / underflow: |data| in 1e-10 … 1e13 here): every operation of a kernel on channel 2 is the operation
    on channel 1 scaled by g, so per segment Y_s = g·X_s exactly; then |X_s|² and Re X_s conj(Y_s) are sums of two products of one sign (relative
    error <= 2u each, with or without fused multiply-add), Im X_s conj(Y_s) = fl(i1·g r1 − r1·g i1) is 0 or, contracted to an FMA, at most
    u|g||r1 i1| <= u|g||X_s|²/2; the means of K terms of one sign carry a relative error <= K u whatever the summation order, the complex / real
    division 2u: |Hxy − g| <= (2K + 7)u|g| + O(u²).  Granted: (2K + 16)u|g| — relative to the bin's OWN magnitude, whatever the rest of the
    spectrum holds.  Returned per unit |g|."""
    return (2.0 * K + 16.0) * U


# the property quantifies over ALL records: the estimate must not depend on the amplitude scale of the data
AMPS = [1.0, 1.0, 1e-9, 1.0, 1e6, 1e-12, 1.0, 1e-4]


def build_data(s: Dict[str, Any]) -> Tuple[np.ndarray, np.ndarray, Optional[np.ndarray]]:
    """(x, y, xl): the two analysed channels and, for a delay, the longer parent record"""
    r = np.random.default_rng(s["rec_seed"])
    N = s["N"]
    if "hdr" in s:
        if "d" in s:
            d = s["d"]
            xl = hdr_record(r, N + d, s["hdr"], s["fs"])
            return np.ascontiguousarray(xl[d:d + N]), np.ascontiguousarray(xl[0:N]), xl
        x = hdr_record(r, N, s["hdr"], s["fs"])
        return x, s["g"] * x, None
    if "d" in s:
        d = s["d"]
        xl = _an.record(r, N + d, s["kind"])     # unit scale: the delay bound's statistical term is calibrated for unit-variance records
        return np.ascontiguousarray(xl[d:d + N]), np.ascontiguousarray(xl[0:N]), xl
    x = _an.record(r, N, s["kind"]) * AMPS[s["rec_seed"] % len(AMPS)]
    return x, s["g"] * x, None


def layout(x: np.ndarray, y: np.ndarray, how: str) -> np.ndarray:
    return np.vstack([x, y]) if how == "2xN" else np.column_stack([x, y])


def run_impl(s: Dict[str, Any], data: np.ndarray, backend: str, cuda: Optional[CudaAnalyzer]):
    """the real library; returns a SpectrumResult (CUDA: raw statistics from the simulator wrapped in a real SpectrumResult)"""
    o = dict(s["o"])
    if backend == "cuda":
        raw = cuda.run(np.vstack([data[0], data[1]]) if data.shape[0] == 2 else data, s["fs"], o, s.get("freq"), s.get("L"))
        return raw.res
    with warnings.catch_warnings():
        warnings.simplefilter("ignore")
        if s["mode"].startswith("single"):
            fres_frac = None
            if s.get("via") == "fres_frac":
                delta = ((s["rec_seed"] % 1000) / 1000.0 - 0.5) * 0.9            # fs/fres = L + delta, |delta| <= 0.45: rounds back to L
                fr = s["fs"] / (s["L"] + delta)
                if int(round(s["fs"] / fr)) == s["L"]:
                    fres_frac = fr
            if s.get("wrapper"):
                from speckit.analysis import compute_single_bin
                if fres_frac is not None:
                    return compute_single_bin(data, s["fs"], s["freq"], fres=fres_frac, backend=backend, **o)
                return compute_single_bin(data, s["fs"], s["freq"], L=s["L"], backend=backend, **o)
            an = _an.analyzer(data, s["fs"], backend=backend, **o)
            if fres_frac is not None:
                return an.compute_single_bin(s["freq"], fres=fres_frac)
            if s.get("via") == "fres" and int(round(s["fs"] / (s["fs"] / s["L"]))) == s["L"]:
                return an.compute_single_bin(s["freq"], fres=s["fs"] / s["L"])
            return an.compute_single_bin(s["freq"], L=s["L"])
        if s.get("wrapper"):
            from speckit.analysis import compute_spectrum
            return compute_spectrum(data, s["fs"], backend=backend, **o)
        return _an.compute(data, s["fs"], backend=backend, **o)


def short(s: Dict[str, Any]) -> Dict[str, Any]:
    return {k: s[k] for k in ("mode", "idx", "N", "kind", "fs", "layout", "g", "d", "freq", "L") if k in s} | {"o": s["o"]}


def viol(P: C.Part, what: str, sig: Dict[str, Any], s: Dict[str, Any], backend: str, extra: Dict[str, Any]):
    P.violations.append(C.Violation(what=what, signature=sig, replay={"spec": s, "backend": backend, **extra}))


# ---------------------------------------------------------------- the predicates
def check_ratio(P: C.Part, s: Dict[str, Any], res, H: np.ndarray, backend: str, sigb: Dict[str, Any]) -> None:
    """"consistent with conj(X)·Y / |X|²": at EVERY bin with XX != 0 the reported Hxy is conj(XY)/XX of the SAME result (one complex / real division:
    2u per component; 8u|XY|/XX granted) — whatever the other bins of the result hold.  Bins whose quotient leaves the normal range are skipped."""
    with np.errstate(all="ignore"):
        XX = np.asarray(res.XX, dtype=float)
        XY = np.asarray(res.XY, dtype=complex)
        q = np.conj(XY) / np.where(XX != 0, XX, 1.0)
        aq = np.abs(q)
        sel = (XX > 1e-290) & np.isfinite(XX) & np.isfinite(aq) & (aq > 1e-290) & (aq < 1e290) & (np.abs(XY) > 1e-290)
        err = np.abs(np.asarray(H, dtype=complex) - q)
        bad = sel & ~(err <= 8 * U * aq)
    n = int(sel.sum())
    P.cases += n
    P.hit("ratio.bins", n) if n else None
    if n and XX.size > 1:
        mx = float(XX[np.isfinite(XX)].max())
        nd = int((sel & (XX < 2.0 ** -52 * mx)).sum())
        if nd:
            P.hit("ratio.bins-more-than-2^52-below-the-strongest-bin", nd)
    for j in np.nonzero(bad)[0][:2]:
        j = int(j)
        viol(P, f"{backend} {s['o']['scheduler']} order={s['o']['order']}: Hxy[{j}]={complex(H[j])!r} but conj(XY)/XX={complex(q[j])!r} (XX={XX[j]!r}, "
                f"largest XX of the result {float(XX.max())!r}, f={float(res.f[j])!r}, L={int(res.L[j])})",
             {**sigb, "sub": "ratio"}, s, backend, {"bin": j, "observed": complex(H[j]), "expected": complex(q[j]), "tol": float(8 * U * aq[j])})


def check_gain(P: C.Part, s: Dict[str, Any], res, x: np.ndarray, y: np.ndarray, backend: str, stats: Dict[str, float]) -> None:
    g = s["g"]
    o = s["o"]
    order = o["order"]
    fs = s["fs"]
    spec_rel = 1e-9 if order <= 0 else 1e-7
    f = np.asarray(res.f)
    Ls = np.asarray(res.L)
    with warnings.catch_warnings(), np.errstate(all="ignore"):
        warnings.simplefilter("ignore")
        H, tf, Hyx, coh, cf, rad, deg, Gxy, Gxx = (np.asarray(res.Hxy), np.asarray(res.tf), np.asarray(res.Hyx), np.asarray(res.coh),
                                                   np.asarray(res.cf), np.asarray(res.cf_rad), np.asarray(res.cf_deg), np.asarray(res.Gxy),
                                                   np.asarray(res.Gxx))
    sigb = {"mode": s["mode"], "backend": backend, "order": order, "scheduler": o["scheduler"], "win": o["win"]}
    if not (np.array_equal(tf, H) and np.array_equal(Hyx, np.conj(H))):
        viol(P, f"{backend}: tf is not Hxy / Hyx is not conj(Hxy)", {**sigb, "sub": "alias"}, s, backend, {})
    check_ratio(P, s, res, H, backend, sigb)
    exact = "hdr" in s and is_pow2(g)
    XXmax = float(np.max(np.asarray(res.XX, dtype=float))) if len(f) else 0.0
    wcache: Dict[int, np.ndarray] = {}
    for j in range(len(f)):
        L = int(Ls[j])
        XX = float(res.XX[j])
        P.cases += 1
        ok_fin = all(np.isfinite(complex(v).real) and np.isfinite(complex(v).imag) for v in (H[j], coh[j], cf[j], rad[j], deg[j], Gxy[j]))
        if not ok_fin:
            viol(P, f"{backend}: non-finite transfer-function attribute at bin {j} (L={L})", {**sigb, "sub": "finite"}, s, backend, {"bin": j})
            continue
        if XX == 0.0:
            P.hit("gain.XX=0")
            if H[j] != 0 or coh[j] != 0:
                viol(P, f"{backend}: XX=0 at bin {j} but Hxy={H[j]!r}, coh={coh[j]!r} (guards give 0)", {**sigb, "sub": "zero-input"}, s, backend, {"bin": j})
            continue
        if L not in wcache:
            wcache[L] = _an.window(o["win"], L, o.get("psll"))
        w = wcache[L]
        omega = 2 * np.pi * float(f[j]) / fs
        D = res.D[j]
        a = seg_amp(x, D, L, w, order)
        b = seg_amp(y, D, L, w, order) if g != 0 else 1e-300
        tXX, tYY, tXY, _ = _an.bin_tol(L, omega, a, b, order)
        ak = acc_term(s, len(D), L)
        if ak:
            tXX, tYY, tXY = tXX + ak * a * a, tYY + ak * b * b, tXY + ak * a * b
        fwd = (tXY + abs(g) * tXX + 4 * U * abs(g) * a * a) / XX           # |Hxy' − g| <= (|e_XY| + |g||e_XX|)/XX'
        tolH = max(spec_rel * abs(g), fwd)
        if exact and XX > 1e-250:
            # (6) g a power of two: the bound relative to the bin's own magnitude (`exact_tol`), also where the raw-magnitude budget is vacuous
            tolH = min(tolH, exact_tol(len(D)) * abs(g))
            P.hit("gain.exact(g=2^k)")
        errH = abs(complex(H[j]) - g)
        decisive = tolH <= 1e-3 * abs(g)
        if "hdr" in s:
            if exact:
                stats["hdr_exact_worst_err/(u|g|)"] = max(stats.get("hdr_exact_worst_err/(u|g|)", 0.0), errH / (U * abs(g)))
            if decisive and XX < 2.0 ** -52 * XXmax:
                P.nontrivial.add(("hdr-dyn", s["hdr"]["kind"], o["scheduler"], order, backend, s["mode"], g))
                P.hit("hdr.gain.decisive-bin-more-than-2^52-below-the-strongest")
        if decisive:
            P.nontrivial.add(("gain", o["scheduler"], order, o["win"], backend, s["idx"] % 5, L))
            stats["gain_worst_rel"] = max(stats.get("gain_worst_rel", 0.0), errH / abs(g))
        P.hit("gain.decisive" if decisive else "gain.loose(tol>1e-3|g|: XX small against the raw magnitude)")
        if not errH <= tolH:
            viol(P, f"{backend} {o['scheduler']} order={order} win={o['win']}: y={g!r}*x but Hxy[{j}]={complex(H[j])!r} (|err|={errH:.3g} > tol {tolH:.3g}), L={L} f={f[j]!r}",
                 {**sigb, "sub": "gain"}, s, backend, {"bin": j, "observed": complex(H[j]), "expected": g, "tol": tolH})
            continue
        if not abs(float(cf[j]) - abs(g)) <= tolH * (1 + 1e-12) + 4 * U * abs(g):
            viol(P, f"{backend}: cf[{j}]={cf[j]!r} but |g|={abs(g)!r} (tol {tolH:.3g})", {**sigb, "sub": "cf"}, s, backend, {"bin": j})
        if g != 0 and tolH < 0.5 * abs(g):
            pt = 1.6 * tolH / abs(g) + 8 * U
            dev = abs(float(rad[j])) if g > 0 else math.pi - abs(float(rad[j]))
            if not dev <= pt:
                viol(P, f"{backend}: y={g!r}*x but cf_rad[{j}]={rad[j]!r} (expected {'0' if g > 0 else '±pi'} within {pt:.3g})", {**sigb, "sub": "phase"}, s, backend, {"bin": j})
            if not abs(float(deg[j]) - math.degrees(float(rad[j]))) <= 1e-12 * 180:
                viol(P, f"{backend}: cf_deg[{j}]={deg[j]!r} is not degrees(cf_rad)={math.degrees(float(rad[j]))!r}", {**sigb, "sub": "deg"}, s, backend, {"bin": j})
        # Gxy = g·Gxx  (the sign convention of the cross-spectrum with a real gain: real, sign of g)
        S2 = float(res.S2[j])
        if S2 > 0:
            sc = 2.0 / (fs * S2)
            if not abs(complex(Gxy[j]) - g * float(Gxx[j])) <= sc * (tXY + abs(g) * tXX + 4 * U * abs(g) * a * a) + 8 * U * abs(g) * float(Gxx[j]):
                viol(P, f"{backend}: Gxy[{j}]={complex(Gxy[j])!r} but g*Gxx={g * float(Gxx[j])!r}", {**sigb, "sub": "Gxy"}, s, backend, {"bin": j})
        # coherence
        YY = float(res.YY[j])
        if g == 0:
            if coh[j] != 0 and YY == 0:
                viol(P, f"{backend}: YY=0 but coh[{j}]={coh[j]!r}", {**sigb, "sub": "coh-zero"}, s, backend, {"bin": j})
            continue
        aXY = abs(complex(res.XY[j]))
        if YY <= 0 or aXY <= 0:
            P.hit("gain.coh-vacuous")
            continue
        rr = 2 * tXY / aXY + tXX / XX + tYY / YY
        if exact and XX > 1e-250 and YY > 1e-250:
            # YY = g²·XX·(1 ± (K+2)u), |XY|² = g²·XX²·(1 ± 2(K+3)u) by the argument of `exact_tol`: coh = 1 ± (3K + 8)u + the division; granted 2x
            rr = min(rr, (6.0 * len(D) + 32.0) * U / 1.2)
        if rr > 0.05:
            P.hit("gain.coh-vacuous")
            continue
        tolC = max(1e-9, 1.2 * rr)
        stats["coh_worst"] = max(stats.get("coh_worst", 0.0), abs(float(coh[j]) - 1.0))
        if not abs(float(coh[j]) - 1.0) <= tolC:
            viol(P, f"{backend} {o['scheduler']} order={order}: y={g!r}*x but coh[{j}]={coh[j]!r} (tol {tolC:.3g}), L={L}", {**sigb, "sub": "coh"}, s, backend,
                 {"bin": j, "observed": float(coh[j]), "tol": tolC})


def check_delay(P: C.Part, s: Dict[str, Any], res, x: np.ndarray, y: np.ndarray, xl: np.ndarray, backend: str, stats: Dict[str, float]) -> None:
    d = s["d"]
    o = s["o"]
    order = o["order"]
    fs = s["fs"]
    f = np.asarray(res.f)
    Ls = np.asarray(res.L)
    with warnings.catch_warnings(), np.errstate(all="ignore"):
        warnings.simplefilter("ignore")
        H, rad, deg, cf = np.asarray(res.Hxy), np.asarray(res.cf_rad), np.asarray(res.cf_deg), np.asarray(res.cf)
    sigb = {"mode": s["mode"], "backend": backend, "order": order, "scheduler": o["scheduler"], "win": o["win"], "d": d}
    white = 1.0 if s["kind"] == "noise" else None
    check_ratio(P, s, res, H, backend, sigb)
    wcache: Dict[int, np.ndarray] = {}
    for j in range(len(f)):
        L = int(Ls[j])
        XX = float(res.XX[j])
        P.cases += 1
        if not (np.isfinite(H[j].real) and np.isfinite(H[j].imag)):
            viol(P, f"{backend}: non-finite Hxy at bin {j}", {**sigb, "sub": "finite"}, s, backend, {"bin": j})
            continue
        if L <= d or XX <= 0:
            P.hit("delay.skip(L<=d or XX=0)")
            continue
        if L not in wcache:
            wcache[L] = _an.window(o["win"], L, o.get("psll"))
        w = wcache[L]
        omega = 2 * np.pi * float(f[j]) / fs
        phi = omega * d
        D = res.D[j]
        a = seg_amp(x, D, L, w, order)
        b = seg_amp(y, D, L, w, order)
        tXX, tYY, tXY, _ = _an.bin_tol(L, omega, a, b, order)
        ak = acc_term(s, len(D), L)
        if ak:
            tXX, tYY, tXY = tXX + ak * a * a, tYY + ak * b * b, tXY + ak * a * b
        if XX <= 4 * tXX:
            P.hit("delay.vacuous(XX at rounding level)")
            continue
        dY = delay_eps(xl, d, D, L, w, omega, order, white)          # max_s |Y_s − e^{−iφ} X_s|
        eps = dY / math.sqrt(XX - tXX)                                # |Hxy − e^{−iφ}| <= max_s|δ_s|·mean|X_s|/XX <= max_s|δ_s|/sqrt(XX)
        rnd = (tXY + (1 + eps) * tXX) / XX
        tol = eps + rnd
        target = complex(math.cos(phi), -math.sin(phi))
        err = abs(complex(H[j]) - target)
        P.hit("delay.bin")
        stats["delay_worst_ratio"] = max(stats.get("delay_worst_ratio", 0.0), err / tol)
        if white is not None and len(D) >= 4:
            stats["delay_white_K>=4_worst_err*L/d"] = max(stats.get("delay_white_K>=4_worst_err*L/d", 0.0), err * L / d)
        if not err <= tol:
            ph = wrap(math.atan2(H[j].imag, H[j].real) + phi)
            viol(P, f"{backend} {o['scheduler']} order={order} win={o['win']}: y[n]=x[n-{d}] but Hxy[{j}]={complex(H[j])!r}, expected e^(-i*{phi:.4f})={target!r}: "
                    f"|Hxy|-1={abs(H[j]) - 1:.3g}, phase error {ph:.3g} rad, bound {tol:.3g} (= {tol * L / d:.3g}*d/L), L={L}",
                 {**sigb, "sub": "delay"}, s, backend, {"bin": j, "observed": complex(H[j]), "expected": target, "tol": tol})
            continue
        if not abs(float(cf[j]) - 1.0) <= tol + 8 * U:
            viol(P, f"{backend}: y[n]=x[n-{d}] but cf[{j}]={cf[j]!r} (magnitude 1 within {tol:.3g})", {**sigb, "sub": "cf"}, s, backend, {"bin": j})
        # the SIGN: where the bound separates −φ from +φ, a lagging output must have negative phase
        if 0.2 <= phi <= 2.5 and tol < 0.9 * math.sin(phi):
            P.nontrivial.add(("delay", o["scheduler"], order, o["win"], backend, d, L))
            P.hit("delay.sign-decisive")
            P.hit(f"delay.sign-decisive.{backend}.order{order}")
            if not (H[j].imag < 0 and float(rad[j]) < 0 and float(deg[j]) < 0):
                viol(P, f"{backend}: lagging output (d={d}, 2*pi*f*d/fs={phi:.3f}) but phase is not negative: Im Hxy={H[j].imag!r}, cf_rad={rad[j]!r}",
                     {**sigb, "sub": "sign"}, s, backend, {"bin": j})
            elif not abs(wrap(float(rad[j]) + phi)) <= 1.6 * tol + 8 * U:
                viol(P, f"{backend}: cf_rad[{j}]={rad[j]!r} but -2*pi*f*d/fs={-phi!r} (bound {1.6 * tol:.3g})", {**sigb, "sub": "phase"}, s, backend, {"bin": j})


def check_backends(P: C.Part, s: Dict[str, Any], results: Dict[str, Any], x: np.ndarray, y: np.ndarray) -> None:
    """(3) the same analysis on two backends: XX, YY, XY within the C01 rounding budget of each other, same sign of Im XY"""
    names = list(results)
    if len(names) < 2:
        return
    o = s["o"]
    ref_name = names[0]
    r0 = results[ref_name]
    for nm in names[1:]:
        r1 = results[nm]
        sig = {"mode": s["mode"], "backend": f"{ref_name}-vs-{nm}", "order": o["order"], "scheduler": o["scheduler"], "win": o["win"]}
        if not (np.array_equal(r0.f, r1.f) and np.array_equal(r0.L, r1.L) and len(r0.D) == len(r1.D)
                and all(np.array_equal(a, b) for a, b in zip(r0.D, r1.D))):
            viol(P, f"plan differs between backend {ref_name} and {nm}", {**sig, "sub": "plan"}, s, nm, {})
            continue
        for j in range(len(r0.f)):
            L = int(r0.L[j])
            w = _an.window(o["win"], L, o.get("psll"))
            omega = 2 * np.pi * float(r0.f[j]) / s["fs"]
            a = seg_amp(x, r0.D[j], L, w, o["order"])
            b = seg_amp(y, r0.D[j], L, w, o["order"])
            tXX, tYY, tXY, tM2 = _an.bin_tol(L, omega, a, b, o["order"])
            ak = acc_term(s, len(r0.D[j]), L)
            if ak:
                tXX, tYY, tXY, tM2 = tXX + ak * a * a, tYY + ak * b * b, tXY + ak * a * b, tM2 + 4 * ak * (a * b) ** 2
            P.cases += 1
            P.hit("backends.bin")
            for nmf, v0, v1, t in (("XX", r0.XX[j], r1.XX[j], tXX), ("YY", r0.YY[j], r1.YY[j], tYY), ("XY", r0.XY[j], r1.XY[j], tXY),
                                   ("M2", r0.M2[j], r1.M2[j], tM2)):
                if not abs(complex(v0) - complex(v1)) <= 2 * t:
                    viol(P, f"{nmf}[{j}] differs between backends: {ref_name} {complex(v0)!r} vs {nm} {complex(v1)!r} (budget {2 * t:.3g}), L={L}, order={o['order']}",
                         {**sig, "sub": "agree", "field": nmf}, s, nm, {"bin": j})
                    break
            else:
                i0, i1 = complex(r0.XY[j]).imag, complex(r1.XY[j]).imag
                if abs(i0) > 2 * tXY:
                    P.nontrivial.add(("backends", ref_name, nm, o["order"], o["scheduler"], L))
                    if (i0 > 0) != (i1 > 0):
                        viol(P, f"sign of Im XY[{j}] differs: {ref_name} {i0!r} vs {nm} {i1!r}", {**sig, "sub": "sign"}, s, nm, {"bin": j})


def run_spec(P: C.Part, s: Dict[str, Any], backends: List[str], cuda: Optional[CudaAnalyzer], stats: Dict[str, float]) -> None:
    x, y, xl = build_data(s)
    data = layout(x, y, s["layout"])
    keep = data.copy()
    # plan errors are C02's business: only a failure AFTER a successful plan counts here
    if not s["mode"].startswith("single"):
        import logging
        try:
            logging.disable(logging.CRITICAL)
            with warnings.catch_warnings():
                warnings.simplefilter("ignore")
                _an.analyzer(data, s["fs"], **s["o"]).plan()
            logging.disable(logging.NOTSET)
        except (Exception, SystemExit) as ex:          # some schedulers call sys.exit() on an empty plan
            logging.disable(logging.NOTSET)
            P.hit("plan-raised(skipped)")
            P.notes.append(f"plan raised for {short(s)}: {ex!r}"[:160]) if len(P.notes) < 4 else None
            return
    results: Dict[str, Any] = {}
    for be in backends:
        if be == "cuda" and cuda is None:
            continue
        try:
            res = run_impl(s, data, be, cuda)
        except Exception as ex:
            if be == "cuda":
                P.notes.append(f"cuda simulator run failed: {ex!r}"[:160]) if len(P.notes) < 6 else None
                continue
            viol(P, f"{be}: analysis raised {ex!r} for {short(s)}", {"mode": s["mode"], "backend": be, "sub": "raises"}, s, be, {"error": repr(ex)})
            continue
        results[be] = res
        P.hit(f"backend.{be}")
        P.hit(f"{s['mode']}.{s['o']['scheduler']}")
        P.hit(f"{s['mode']}.order{s['o']['order']}")
        P.hit(f"win.{s['o']['win']}")
        if "d" in s:
            check_delay(P, s, res, x, y, xl, be, stats)
        else:
            check_gain(P, s, res, x, y, be, stats)
    if not np.array_equal(keep, data):
        viol(P, "the analysis modified the caller's data", {"mode": s["mode"], "sub": "input-modified"}, s, "?", {})
    check_backends(P, s, results, x, y)
    if "size" in s:
        size_hits(P, s, results)
    if "hdr" in s and not s["mode"].startswith("single"):
        check_single_vs_multi(P, s, results, data, x, y, xl, stats)


# ---------------------------------------------------------------- (6) huge spectral dynamic range
# "at every bin": the estimate of one bin is a function of that bin's XX, XY alone — what the record holds elsewhere in the spectrum must not matter
# (seeded C07i: the zero-denominator guard of Hxy became a floor relative to the STRONGEST bin of the result, so every bin more than ~156 dB below a
# line / a red end / a DC level reported Hxy = 0, coherence still 1; white and mildly coloured records and every single-bin call were unaffected).
def hdr_spec(mode: str, i: int, case_seed: int) -> Dict[str, Any]:
    r = np.random.default_rng([case_seed, 31000 + i])
    hk = HDR_KINDS[i % 5]
    order = ORDERS[(i // 4) % 4]
    win = "hann" if i % 4 == 3 else "kaiser"          # (a 200 dB Kaiser window is what such records are analysed with: the floor bins ARE floor)
    fs = float([1.0, 100.0, 1000.0, float(r.uniform(0.5, 100.0))][(i // 2) % 4])
    N = int(r.integers(6000, 8001))
    o: Dict[str, Any] = {"scheduler": _an.SCHEDS[i % 4], "order": order, "win": win, "olap": [0.5, "default", 0.75, 0.3][int(r.integers(0, 4))],
                         "Jdes": int(r.integers(16, 31)), "Kdes": int(r.choice([2, 5, 20])), "bmin": float(r.choice([1.0, 2.0])),
                         "Lmin": int(r.choice([1, 8, 64]))}
    if win == "kaiser":
        o["psll"] = [200.0, 200.0, 140.0][(i // 5) % 3]
    s: Dict[str, Any] = {"mode": mode, "idx": 31000 + i, "case_seed": int(case_seed), "N": N, "kind": "hdr", "fs": fs, "layout": ["2xN", "Nx2"][(i // 3) % 2],
                         "o": o, "rec_seed": int(r.integers(0, 2 ** 62)), "wrapper": bool(i % 2),
                         "hdr": {"kind": hk, "p": HDR_P[(i // 5 + i) % 4], "f0": None}}
    if mode == "gain":
        s["g"] = HDR_G[(i + i // 4) % 4]
    else:
        d = HDR_D[(i + i // 4) % 2]
        s["d"] = d
        o["order"] = ORDERS[(i // 2) % 4]            # (8 delay cases per run: all four orders)
        o["Lmin"] = int(d * [64, 128, 256][i % 3])
        o["bmin"] = 1.0
    if hk.startswith("line"):
        f0 = float(r.uniform(0.05, 0.45)) * fs
        if hk == "line-on":
            import logging
            try:
                logging.disable(logging.CRITICAL)
                with warnings.catch_warnings():
                    warnings.simplefilter("ignore")
                    fp = np.asarray(_an.analyzer(np.zeros((2, N)), fs, **o).plan()["f"], dtype=float)
                if len(fp):
                    f0 = float(fp[int(r.integers(len(fp) // 3, len(fp)))])
            except (Exception, SystemExit):
                pass
            finally:
                logging.disable(logging.NOTSET)
        s["hdr"]["f0"] = f0
    return s


def check_single_vs_multi(P: C.Part, s: Dict[str, Any], results: Dict[str, Any], data: np.ndarray, x: np.ndarray, y: np.ndarray,
                          xl: Optional[np.ndarray], stats: Dict[str, float]) -> None:
    """bins of the multi-bin result (the weakest, the strongest, one more) re-analysed ALONE with compute_single_bin(f_i, L=L_i) on the same record:
    the single-bin result satisfies (1)/(2) by the same predicates, and its Hxy is that of bin i — for g = 2^k within the two exact bounds; otherwise,
    when the two results use the same segments, within the two rounding budgets (both are roundings of the same XX, XY)"""
    o = s["o"]
    for be, res in results.items():
        if be == "cuda" or len(res.f) < 2:
            continue
        XXa = np.asarray(res.XX, dtype=float)
        pos = np.nonzero(XXa > 0)[0]
        if len(pos) == 0:
            continue
        pick = [int(pos[np.argmin(XXa[pos])]), int(pos[np.argmax(XXa[pos])]), int(pos[(s["rec_seed"] // 7) % len(pos)])]
        with warnings.catch_warnings(), np.errstate(all="ignore"):
            warnings.simplefilter("ignore")
            Hm = np.asarray(res.Hxy)
        for j in dict.fromkeys(pick):
            L = int(res.L[j])
            s1 = dict(s, mode="single-delay" if "d" in s else "single-gain", freq=float(res.f[j]), L=L, via="L",
                      o={k: v for k, v in o.items() if k != "band"})
            try:
                r1 = run_impl(s1, data, be, None)
            except Exception as ex:
                viol(P, f"{be}: compute_single_bin(f={float(res.f[j])!r}, L={L}) raised {ex!r} on the record of a multi-bin result",
                     {"mode": "hdr-single", "backend": be, "sub": "raises"}, s, be, {"bin": j, "error": repr(ex)})
                continue
            if len(r1.f) != 1 or int(r1.L[0]) != L:
                P.hit("hdr.single.L-differs(skipped)")
                continue
            P.hit("hdr.single.bin")
            if "d" in s:
                check_delay(P, s1, r1, x, y, xl, be, stats)
            else:
                check_gain(P, s1, r1, x, y, be, stats)
            with warnings.catch_warnings(), np.errstate(all="ignore"):
                warnings.simplefilter("ignore")
                H1 = complex(np.asarray(r1.Hxy)[0])
            hm = complex(Hm[j])
            XX1, XXm = float(r1.XX[0]), float(XXa[j])
            if not (XX1 > 1e-250 and XXm > 1e-250 and np.isfinite(H1.real) and np.isfinite(H1.imag) and np.isfinite(hm.real) and np.isfinite(hm.imag)):
                continue
            P.cases += 1
            same_D = np.array_equal(np.asarray(r1.D[0]), np.asarray(res.D[j]))
            if "g" in s and is_pow2(s["g"]):
                tol = (exact_tol(len(r1.D[0])) + exact_tol(len(res.D[j]))) * abs(s["g"])
                P.hit("hdr.single.exact")
            elif same_D:
                w = _an.window(o["win"], L, o.get("psll"))
                omega = 2 * np.pi * float(res.f[j]) / s["fs"]
                a, b = seg_amp(x, res.D[j], L, w, o["order"]), seg_amp(y, res.D[j], L, w, o["order"])
                tXX, _, tXY, _ = _an.bin_tol(L, omega, a, b, o["order"])
                if min(XX1, XXm) <= 4 * tXX or float(r1.f[0]) != float(res.f[j]):
                    P.hit("hdr.single.vacuous(XX at rounding level)")
                    continue
                # same f, L, segments: both are roundings of the same H = conj(XY)/XX;  |H' − H| <= (|e_XY| + |H'||e_XX|)/XX,  XX >= XX' − tXX >= 3XX'/4
                tol = (4.0 / 3.0) * ((tXY + abs(hm) * tXX) / XXm + (tXY + abs(H1) * tXX) / XX1) + 8 * U * (abs(hm) + abs(H1))
                P.hit("hdr.single.same-segments")
            else:
                P.hit("hdr.single.other-segments(not compared)")
                continue
            if tol <= 1e-3 * max(abs(H1), abs(hm)):
                P.nontrivial.add(("hdr-single", s["hdr"]["kind"], o["scheduler"], o["order"], be, s["mode"]))
            if not abs(H1 - hm) <= tol:
                viol(P, f"{be} {o['scheduler']} order={o['order']}: bin {j} (f={float(res.f[j])!r}, L={L}) of the multi-bin result has Hxy={hm!r} but the same "
                        f"record analysed with compute_single_bin(f, L={L}) gives {H1!r} (|diff|={abs(H1 - hm):.3g} > {tol:.3g}); XX={XXm!r}, largest XX of "
                        f"the result {float(XXa.max())!r}", {"mode": "hdr-single", "backend": be, "order": o["order"], "scheduler": o["scheduler"], "sub": "single-vs-bin"},
                     s, be, {"bin": j, "observed": hm, "expected": H1, "tol": tol})


def hdr_stream(P: C.Part, ctx, stats: Dict[str, float], intensive: bool, enough) -> None:
    import time as _t
    t0 = _t.time()
    mult = 4 if (intensive or ctx.thorough) else 1
    wall = 40.0 if mult > 1 else 12.0
    rot = int(ctx.rng.integers(0, 10 ** 6)) * 80
    case_seed = int(ctx.rng.integers(0, 2 ** 62))
    ran = 0
    plan = [("gain", k) for k in range(16 * mult)] + [("delay", k) for k in range(8 * mult)]
    # interleave so that a shortened run still sees both modes
    plan.sort(key=lambda mk: (mk[1] // 2 if mk[0] == "gain" else mk[1], mk[0]))
    for mode, k in plan:
        if enough() or _t.time() - t0 > wall or ctx.time_left() < 60:
            break
        s = hdr_spec(mode, rot + k, case_seed)
        P.hit(f"hdr.case.{mode}.{s['hdr']['kind']}")
        P.hit(f"hdr.case.{s['o']['scheduler']}.order{s['o']['order']}")
        run_spec(P, s, BACKENDS, None, stats)
        ran += 1
        if ran <= 2:
            P.sample({"op": "oracle-hdr", **short(s), "hdr": s["hdr"]})
    P.notes.append(f"hdr stream: {ran} of {len(plan)} cases, {_t.time() - t0:.1f} s")


# ---------------------------------------------------------------- (5) size thresholds
# "for all records … all plans": code that gathers / buffers / chunks with a fixed size is right below the size and wrong beyond it (seeded C07g: the
# NumPy kernels' segment gather takes a shared workspace once a bin has K·L >= 2^20 samples, so the two channels of a cross-spectral bin alias each
# other and Hxy = 1 whatever the gain or delay — only NumPy, only such bins, i.e. records of >= 5·10^5 samples; every short-record case passes).
# The constants are read from the CURRENT source (C.mined_sizes) and joined with fixed sizes; for every threshold c the sizes c-1, c, c+1, c+17, 2c+3
# are reached (a) by the PRODUCT K·L of one bin, in four shapes (L = 500-ish, L ~ sqrt, few long segments, many short segments), (b) by K alone,
# (c) by L alone, (d) by the record length N alone — through `compute_single_bin` with an explicit L and the overlap that yields the wanted K on a
# record just long enough (overlaps 0.5 / 0.75 / exactly 0 / 1 - s/L with a shift of s = 1, 2, 3 samples), and through band-limited
# `compute_spectrum` on a record of ~600 000 samples (Lmin = 500, three bins) — for backend numpy AND numba and their agreement, orders -1 … 2,
# static gains -2.5 / 0.3 and delays of 1 / 5 samples, with the predicates of (1), (2), (3) unchanged.
SIZE_FILES = ["speckit/core.py", "speckit/analysis.py"]
SIZE_FIXED = [2 ** 16, 2 ** 20]
SIZE_BEYOND = [70_001, 1_100_003]
SIZE_G = [-2.5, 0.3]
SIZE_D = [1, 5]
SIZE_PLAN_N = 600_000


def size_thresholds() -> List[int]:
    try:
        mined = [int(v) for v in C.mined_sizes(SIZE_FILES)]
    except Exception:  # noqa  (an unreadable source is the translator's business; the fixed sizes still run)
        mined = []
    return sorted(set(mined) | set(SIZE_FIXED))


def size_deltas(c: int) -> List[int]:
    return [c, c + 1, c + 17, 2 * c + 3, c - 1]


def size_spec(axis: str, v: int, order: int, kind: str, par: float, t: int, case_seed: int, cap: int, nmax: int,
              below: bool = False, plain: bool = False) -> Optional[Dict[str, Any]]:
    """one single-bin case whose K·L (axis "P"), K, L or N is `v` (`below`: the largest product < v with the same L); None if it would cost more
    than `cap` gathered samples"""
    r = np.random.default_rng([case_seed, t])
    d = int(par) if kind == "delay" else 0
    if d and axis == "K" and v * 64 * d > cap:
        kind, d, par = "gain", 0, SIZE_G[t % 2]               # a delay needs L >> d: K alone beyond cap/(64 d) is probed with a gain
    fs = [1.0, 100.0, 1000.0, 2.0][t % 4]
    win = WINS[(t // 2) % 2]
    olap: Any = None
    K: Optional[int] = None
    if axis == "P":
        fam = t % 4
        if fam == 0:
            L = [500, 512, 640, 1000, 501][(t // 4) % 5]
        elif fam == 1:
            L = math.isqrt(v) + (t // 4) % 2
        elif fam == 2:
            L = -(-v // (3 + (t // 4) % 4))
        else:
            L = 64 * d if d else [16, 33, 48][(t // 4) % 3]
        if 2 * L > v:
            L = v // 3
        L = max(L, 4)
        K = -(-v // L) - (1 if below else 0)
    elif axis == "K":
        K = v
        L = 64 * d if d else [4, 6, 7, 16, 33][t % 5]
        while K * L > cap and L > 4 and not d:
            L = max(4, L // 2)
    elif axis == "L":
        L = v
        K = [1, 2, 7, 40, 3][t % 5] if v < 2000 else [1, 2, 3, 5, 2][t % 5]
        while K > 1 and K * L > cap:
            K -= 1
    elif axis == "N":
        N = v
        L = [500, 512, 1000, 333][t % 4] if v >= 4000 else max(4, v // [3, 5, 2, 1][t % 4])
        L = min(L, N)
        olap = [0.5, 0.75, 0.0, 0.5][(t // 4) % 4]
        if N / (1.0 - olap) > cap:
            olap = 0.0
        if N > cap or N < 4:
            return None
    else:
        raise ValueError(axis)
    if axis != "N":
        if K < 1 or L < 4 or K * L > cap:
            return None
        if K == 1:
            N, olap = L + [0, 0, 3][t % 3], [0.5, 0.0, 0.0][t % 3]
        else:
            cand = [L // 2, L // 4, L, 1, 3, L // 3, 2]
            rot = (t // 4) % len(cand)
            sh = next((c for c in cand[rot:] + cand[:rot] if c >= 1 and L + (K - 1) * c <= nmax), None)
            if sh is None:
                return None
            N = L + (K - 1) * sh                       # navg = round((N-L)/((1-olap) L) + 1) = K, shift = (N-L)/(K-1) = sh
            olap = 0.0 if sh == L else 1.0 - sh / L
    if d and L < 16 * d:
        kind, d, par = "gain", 0, SIZE_G[t % 2]               # (a delay comparable with the segment says nothing: d << L in the property)
    rec_seed = int(r.integers(0, 2 ** 62))
    if kind == "delay":
        rec = "noise"
        freq = float(r.uniform(0.8, 2.2)) * fs / (2 * math.pi * d)
    else:
        rec = "noise" if plain else ["noise", "red", "tone", "noise", "offset"][t % 5]
        if rec == "offset" and order < 0:
            rec = "noise"
        freq = float(r.uniform(0.03, 0.47)) * fs
    if L >= 20000:
        # white noise in a very long segment leaves XX ~ L against a rounding budget ~ L^2·u·L: a tone AT the analysed frequency keeps the case decisive
        rec = "tone"
        freq = float(np.random.default_rng(rec_seed).uniform(0.01, 0.4)) * fs         # (the first draw of _an.record(.., "tone"))
    o: Dict[str, Any] = {"scheduler": "ltf", "order": int(order), "win": win, "olap": olap, "Jdes": 12, "Kdes": 5, "bmin": 1.0, "Lmin": 1}
    if win == "kaiser":
        o["psll"] = [60.0, 100.0, 200.0][(t // 4) % 3]
    s: Dict[str, Any] = {"mode": "single-delay" if kind == "delay" else "single-gain", "idx": 20000 + t, "case_seed": int(case_seed), "N": int(N),
                         "kind": rec, "fs": fs, "layout": ["2xN", "Nx2"][(t // 3) % 2], "o": o, "rec_seed": rec_seed, "freq": freq, "L": int(L),
                         "via": ["L", "L", "fres"][t % 3], "wrapper": bool(t % 3 == 1),
                         "size": {"axis": axis, "v": int(v), "K": None if K is None else int(K), "below": bool(below)}}
    if kind == "delay":
        s["d"] = d
    else:
        s["g"] = float(par)
    return s


def size_plan_spec(kind: str, par: float, order: int, t: int, case_seed: int, N: int, pos: int, nb: int = 3) -> Optional[Dict[str, Any]]:
    """band-limited `compute_spectrum` on a long record: the plan of the whole band is made once here to choose a band of `nb` consecutive bins
    (delay: around 2 pi f d / fs ~ 1..2; gain: the last / a middle / the first bins by `pos`); the band is stored in the spec"""
    r = np.random.default_rng([case_seed, t])
    sched = ["vectorized_ltf", "ltf", "new_ltf"][t % 3]       # (lpsd ignores Lmin: bins of 2 … 9 samples on long records)
    fs = [100.0, 1.0, 1000.0, 2.0][t % 4]
    win = WINS[t % 2]
    o: Dict[str, Any] = {"scheduler": sched, "order": int(order), "win": win, "olap": [0.5, "default"][(t // 2) % 2] if win == "hann" else 0.5,
                         "Jdes": 12, "Kdes": 20, "bmin": 1.0, "Lmin": 500}
    if win == "kaiser":
        o["psll"] = [60.0, 100.0][(t // 2) % 2]
    s: Dict[str, Any] = {"mode": kind, "idx": 21000 + t, "case_seed": int(case_seed), "N": int(N), "kind": "noise" if kind == "delay" else ["noise", "red", "tone"][t % 3],
                         "fs": fs, "layout": ["2xN", "Nx2"][t % 2], "o": o, "rec_seed": int(r.integers(0, 2 ** 62)), "wrapper": bool(t % 2),
                         "size": {"axis": "plan", "v": int(N), "K": None, "below": False}}
    if kind == "delay":
        s["d"] = int(par)
    else:
        s["g"] = float(par)
    import logging
    try:
        logging.disable(logging.CRITICAL)
        with warnings.catch_warnings():
            warnings.simplefilter("ignore")
            pl = _an.analyzer(np.zeros((2, N)), fs, **o).plan()
        f, Ls = np.asarray(pl["f"], dtype=float), np.asarray(pl["L"])
    except (Exception, SystemExit):
        return None
    finally:
        logging.disable(logging.NOTSET)
    if len(f) == 0:
        return None
    if kind == "delay":
        ok = np.nonzero(Ls >= 64 * s["d"])[0]
        if len(ok) == 0:
            return None
        ft = float(r.uniform(0.8, 2.2)) * fs / (2 * math.pi * s["d"])
        j0 = int(ok[np.argmin(np.abs(f[ok] - ft))])
    else:
        j0 = [len(f) - nb, int(r.integers(0, len(f))), 0][pos % 3]
    j0 = max(0, min(j0, len(f) - nb))
    j1 = min(j0 + nb - 1, len(f) - 1)
    o["band"] = [float(f[j0]) * (1 - 1e-12), float(f[j1]) * (1 + 1e-12)]
    return s


def size_hits(P: C.Part, s: Dict[str, Any], results: Dict[str, Any]) -> None:
    z = s["size"]
    for be, res in results.items():
        for j in range(len(res.f)):
            K, L = len(res.D[j]), int(res.L[j])
            cls = "KL>=2^20" if K * L >= 2 ** 20 else "KL>=2^16" if K * L >= 2 ** 16 else "KL<2^16"
            P.hit(f"size.{z['axis']}.{be}.{cls}")
            if float(res.XX[j]) > 0:
                P.nontrivial.add(("size", z["axis"], z["v"], bool(z.get("below")), s["o"]["order"], s["mode"], be, K, L))
        if z.get("K") is not None and len(res.f) == 1:
            P.hit("size.K-as-planned" if len(res.D[0]) == z["K"] else "size.K-differs-from-planned")


def size_stream(P: C.Part, ctx, stats: Dict[str, float], intensive: bool, enough) -> None:
    import time as _t
    big = bool(intensive or ctx.thorough)
    cap = 9_500_000 if big else 2_300_000                     # gathered samples K·L of one bin
    nmax = 3_000_000 if big else 1_400_000                    # record length
    wall = max(4.0, min(ctx.time_left() - 70.0, 150.0 if ctx.thorough else 60.0 if intensive else 12.0))
    heavy_max = 400 if big else 30                            # bins of more than 5·10^5 gathered samples
    t0 = _t.time()
    rot = int(ctx.rng.integers(0, 2 ** 20))
    case_seed = int(ctx.rng.integers(0, 2 ** 62))
    consts = size_thresholds()
    bigc = [c for c in sorted(consts, reverse=True) if c >= 2 ** 15][:4]
    P.notes.append(f"size stream: thresholds {consts} (mined from {SIZE_FILES} + {SIZE_FIXED}), beyond {SIZE_BEYOND}")
    jobs: List[Tuple[str, Any]] = []          # ("always" | "probe", thunk -> spec)
    cnt = [rot]

    def nxt() -> int:
        cnt[0] += 1
        return cnt[0]

    def par_of(kind: str, k: int) -> float:
        return SIZE_G[k % 2] if kind == "gain" else SIZE_D[k % 2]

    def job(tier: str, axis: str, v: int, order: int, kind: str, k: int, below: bool = False, plain: bool = False):
        t = nxt()
        jobs.append((tier, lambda: size_spec(axis, v, order, kind, par_of(kind, k), t, case_seed, cap, nmax, below, plain)))

    # 1. the PRODUCT K·L at / just above the largest thresholds: every order x {gain, delay}, both backends (8 bins per threshold; the shape, the
    #    offset from the threshold, g and d rotate with the index and the seed; white records of varying scale, so that the gain tolerance is
    #    decisive — the other record kinds come with the rotation (6))
    for c in bigc:
        dl = size_deltas(c)[:4]
        for oi, order in enumerate(ORDERS):
            for ki, kind in enumerate(("gain", "delay")):
                job("always", "P", dl[(3 * (2 * oi + ki) + rot // 4) % 4], order, kind, oi + ki + rot // 16, plain=True)
    # 2. sizes well beyond the short-record generator, whatever the miner sees
    #    (K alone, L alone and N alone = 70 001 + i for EVERY order: a long segment, a long record and many segments are seen by each of the
    #    2 x 4 cross kernels on every run; one product of 1 100 003)
    job("always", "P", SIZE_BEYOND[1], ORDERS[rot % 4], "gain", rot)
    for oi, order in enumerate(ORDERS):
        job("always", "L", SIZE_BEYOND[0] + oi, order, ["delay", "gain"][(oi + rot) % 2], oi + rot // 2)
        job("always", "K", SIZE_BEYOND[0] + oi, order, "gain", oi + rot // 2)
        job("always", "N", SIZE_BEYOND[0] + oi, order, ["gain", "delay"][(oi + rot) % 2], oi + rot // 4)
    # 3. band-limited compute_spectrum on a long record (all positions, gain and delay, when `big`)
    for q in range(6 if big else 1):
        t = nxt()
        kind = ["delay", "gain"][(q + rot) % 2]
        Np = SIZE_PLAN_N + [0, 1, 17, 4093][(rot + q) % 4] if q < 4 else 2 ** 20 + [17, 1][q % 2]
        jobs.append(("always", (lambda t=t, kind=kind, q=q, Np=Np: size_plan_spec(kind, par_of(kind, q + rot // 2), ORDERS[(q + rot // 2) % 4], t,
                                                                                case_seed, Np, q + rot))))
    # 4. K alone, L alone, N alone at the fixed sizes
    #    (N at two offsets, so that one of them is strictly beyond the size; L = 2c+3 is left to the rotation: seconds per case at 2^21)
    for ci, c in enumerate(sorted(SIZE_FIXED, reverse=True)):
        dl = size_deltas(c)
        for ai, (axis, v) in enumerate((("L", dl[rot % 3]), ("N", dl[rot % 4]), ("N", dl[(rot + 2) % 4]), ("K", dl[(rot + 1) % 4]))):
            job("always", axis, v, ORDERS[(ai + ci + rot // 2) % 4], ["delay", "gain"][(ai + rot) % 2], ai + rot // 4)
    # 5. the largest product below each large threshold
    for ci, c in enumerate(bigc):
        job("always", "P", c, ORDERS[(ci + rot) % 4], ["gain", "delay"][(ci + rot) % 2], ci, below=True)
    # 6. every threshold x offset x axis, rotated by the seed, while the time share lasts
    pr = [(axis, v, c) for c in sorted(consts, reverse=True) for v in size_deltas(c) for axis in ("P", "K", "L", "N")]
    if big:
        pr += [(axis, v, v) for v in SIZE_BEYOND for axis in ("P", "K", "L", "N")]
    r0 = (37 * rot) % max(len(pr), 1)
    for q, (axis, v, c) in enumerate(pr[r0:] + pr[:r0]):
        job("probe", axis, v, ORDERS[(q + rot) % 4], ["gain", "delay"][(q // 4 + rot) % 2], q // 8 + rot, below=False)
    heavy = ran = skipped = 0
    for tier, thunk in jobs:
        if enough():
            break
        el = _t.time() - t0
        if (tier == "probe" and el > wall) or el > 2.5 * wall or ctx.time_left() < 40:
            P.notes.append(f"size stream: time share ({wall:.0f} s) used after {ran} of {len(jobs)} cases")
            break
        s = thunk()
        if s is None:
            skipped += 1
            continue
        z = s["size"]
        est = s["N"] * 3 * 2 if z["axis"] == "plan" else (z["K"] * s["L"] if z["K"] else s["N"] * 2)
        if est > 500_000:
            if heavy >= heavy_max:
                skipped += 1
                continue
            heavy += 1
        P.hit(f"size.case.{z['axis']}.{s['mode']}.order{s['o']['order']}")
        run_spec(P, s, BACKENDS, None, stats)
        ran += 1
        if ran <= 2:
            P.sample({"op": "oracle-size", **short(s), "size": z})
    P.notes.append(f"size stream: {ran} cases ({heavy} with more than 5e5 gathered samples per bin), {skipped} beyond the cost cap of this tier, "
                   f"{_t.time() - t0:.1f} s")


# ---------------------------------------------------------------- correspondence
def ref_line(order: int, x1, x2, starts, L: int, w, omega: float, Q) -> str:
    parts = ["ref", str(order), "1", C.arr(x1), C.arr(x2), C.iarr(starts), str(L), C.arr(w), C.f2h(omega)]
    if order >= 1:
        parts.append(f"{Q.shape[0]} {Q.shape[1]} " + " ".join(C.f2h(v) for v in Q.reshape(-1)))
    return " ".join(parts)


def correspondence(ctx) -> C.Part:
    """(a) generated Lean attribute table (Hxy, Hyx, tf, coh, cf, cf_rad, cf_deg, Gxy) vs the real `__getattr__`;
       (b) the reference estimator of the theorems (Model.refStats, Float) vs the real cross kernels on THIS property's inputs
           (y = g·x and y = delayed x), incl. the derived Hxy = conj(XY)/XX"""
    P = C.Part()
    _an.attr_correspondence(ctx, P, NAMES, ctx.scale(30, 300))
    from speckit import core
    n = ctx.scale(24, 240)
    for i in range(n):
        if ctx.time_left() < 30:
            P.notes.append("time budget reached")
            break
        r = ctx.rng
        L = int(r.choice([4, 5, 8, int(r.integers(6, 49))]))
        N = L + int(r.integers(4, 60))
        K = int(r.integers(1, 7))
        starts = np.sort(r.integers(0, N - L + 1, size=K)).astype(np.int64)
        order = ORDERS[i % 4]
        w = np.hanning(L + 2)[1:-1] if i % 3 else np.kaiser(L + 1, 6.0)[:-1]
        w = np.ascontiguousarray(w, dtype=np.float64)
        omega = float(r.uniform(0.05, 3.0))
        d = 0
        if i % 2 == 0:
            g = float(r.choice([2.5, -0.5, 1e-6, 1e6, float(r.standard_normal())]))
            x1 = r.standard_normal(N) + (0.0 if order < 0 else 5.0 + 0.1 * np.arange(N))
            x2 = g * x1
            kind = "gain"
        else:
            d = int(r.choice([1, 2]))
            xl = r.standard_normal(N + d)
            x1, x2 = np.ascontiguousarray(xl[d:]), np.ascontiguousarray(xl[:N])
            kind = "delay"
        Q = core._build_Q(L, order) if order >= 1 else None
        name = {-1: "_stats_win_only_csd", 0: "_stats_detrend0_csd"}.get(order, "_stats_poly_csd")
        args = [x1, x2, starts, L, w, omega] + ([Q] if order >= 1 else [])
        a = seg_amp(x1, starts, L, w, order)
        b = seg_amp(x2, starts, L, w, order)
        tXX, tYY, tXY, tM2 = _an.bin_tol(L, omega, a, b, order)
        tol = (tXX, tYY, tXY, tXY, tM2)
        mdl = tuple(ctx.driver.floats(ref_line(order, x1, x2, starts, L, w, omega, Q)))
        for be, fn in (("numba", getattr(core, name)), ("numpy", getattr(core, name + "_np"))):
            imp = tuple(float(v) for v in fn(*args))
            P.cases += 1
            P.hit(f"ref.{kind}.{be}.order{order}")
            P.nontrivial.add(("ref", kind, be, order, L, K))
            bad = [k for k in range(5) if not abs(imp[k] - mdl[k]) <= tol[k]]
            if bad:
                P.disagreements.append({"op": "ref-vs-kernel", "kind": kind, "backend": be, "fn": name, "components": bad, "impl": imp, "model": mdl,
                                        "tol": tol, "case": {"L": L, "starts": starts.tolist(), "omega": omega, "order": order, "w": w.tolist(),
                                                             "x1": x1.tolist(), "x2": x2.tolist(), "d": d}})
        if i < 2:
            P.sample({"op": "ref-vs-kernel", "kind": kind, "L": L, "K": K, "order": order, "omega": omega, "model": mdl})
    return P


# ---------------------------------------------------------------- oracle
def corpus_specs() -> List[Dict[str, Any]]:
    """design-phase defect D1: the NumPy csd fallbacks returned the conjugate — a 3-sample delay analysed with backend='numpy'
    must give NEGATIVE phase (fixed seeds, independent of VERIF_SEED)"""
    out = []
    for k, (sched, order, win) in enumerate([("ltf", 0, "hann"), ("vectorized_ltf", -1, "kaiser"), ("lpsd", 1, "hann")]):
        o = {"scheduler": sched, "order": order, "win": win, "olap": 0.5, "Jdes": 20, "Kdes": 5, "bmin": 1.0, "Lmin": 384}
        if win == "kaiser":
            o["psll"] = 100.0
        out.append({"mode": "delay", "idx": 9000 + k, "case_seed": 0, "N": 4000, "kind": "noise", "fs": 1.0, "layout": "2xN", "o": o,
                    "rec_seed": 12345 + k, "d": 3})
    o = {"scheduler": "ltf", "order": 0, "win": "hann", "olap": 0.5, "Jdes": 20, "Kdes": 5, "bmin": 1.0, "Lmin": 1}
    out.append({"mode": "single-delay", "idx": 9010, "case_seed": 0, "N": 4000, "kind": "noise", "fs": 1.0, "layout": "2xN", "o": o,
                "rec_seed": 777, "d": 3, "freq": 0.05, "L": 600, "via": "L"})
    return out


def edge_stream(P: C.Part, ctx, stats) -> None:
    """zero / constant records, zero gain, tiny records"""
    base = {"scheduler": "ltf", "order": 0, "win": "hann", "olap": 0.5, "Jdes": 8, "Kdes": 2, "bmin": 1.0, "Lmin": 1}
    k = 0
    for kind, g, N, order in (("zero", 2.5, 500, 0), ("zero", 2.5, 500, 2), ("const", -0.5, 400, -1), ("const", 2.5, 400, 0), ("noise", 0.0, 600, 1),
                              ("noise", 2.5, 8, 0), ("noise", -0.5, 3, -1), ("noise", 2.5, 2, 0), ("const", 1e6, 16, 1)):
        for sched in ("ltf", "vectorized_ltf"):
            s = {"mode": "gain", "idx": 8000 + k, "case_seed": 0, "N": N, "kind": kind, "fs": 1.0, "layout": "2xN" if k % 2 else "Nx2" if N > 2 else "2xN",
                 "o": dict(base, order=order, scheduler=sched), "rec_seed": 4242 + k, "g": g}
            k += 1
            P.hit(f"edge.{kind}.N{N}")
            run_spec(P, s, BACKENDS, None, stats)


def _blas_threads(n):
    """RUN-TIME ONLY (no predicate depends on it): set the thread count of every OpenBLAS loaded in this process, return the previous settings (pass
    them back to restore).  The NumPy backend's products (K x L)·(L) are memory-bound; on a machine shared with other checks OpenBLAS's spinning
    worker threads make a 1.2M-sample bin cost 0.3 … 1.6 s instead of 0.06 s (measured at load 17 on 16 cores).  Any failure leaves the
    libraries as they are."""
    prev = []
    try:
        import ctypes
        paths = []
        with open("/proc/self/maps") as fh:
            for line in fh:
                q = line.split()[-1]
                if "openblas" in os.path.basename(q).lower() and q not in paths:
                    paths.append(q)
        want = dict(n) if isinstance(n, list) else None
        for path in paths:
            if want is not None and path not in want:
                continue
            lib = ctypes.CDLL(path)
            done = False
            for suf in ("64_", ""):
                for pre in ("scipy_openblas", "openblas"):
                    if not done and hasattr(lib, f"{pre}_set_num_threads{suf}") and hasattr(lib, f"{pre}_get_num_threads{suf}"):
                        prev.append((path, int(getattr(lib, f"{pre}_get_num_threads{suf}")())))
                        getattr(lib, f"{pre}_set_num_threads{suf}")(int(want[path] if want is not None else n))
                        done = True
    except Exception:  # noqa
        pass
    return prev


def oracle(ctx, intensive: bool = False, hints: List[Dict[str, Any]] = ()) -> C.Part:
    prev = _blas_threads(1)
    try:
        return _oracle(ctx, intensive, hints)
    finally:
        _blas_threads(prev)


def _oracle(ctx, intensive: bool = False, hints: List[Dict[str, Any]] = ()) -> C.Part:
    import time as _t
    P = C.Part()
    stats: Dict[str, float] = {}
    mult = 4 if intensive else 1
    cuda = None
    try:
        cuda = CudaAnalyzer()
    except Exception as ex:  # noqa
        P.notes.append(f"CUDA simulator worker unavailable: {ex!r}"[:160])
    def cs() -> int:
        return int(ctx.rng.integers(0, 2 ** 62))

    def enough() -> bool:
        return len(P.violations) >= 5

    off = int(ctx.rng.integers(0, 10 ** 6)) * 160
    # 0. corpus (D1) — both backends, compute and compute_single_bin
    for s in corpus_specs():
        run_spec(P, s, BACKENDS, None, stats)
    # 6. huge spectral dynamic range (own short time share; runs on every run)
    hdr_stream(P, ctx, stats, intensive, enough)
    # 5. size thresholds (own time share, before the clock of the other streams starts: it must run on every run)
    size_stream(P, ctx, stats, intensive, enough)
    budget = min(ctx.time_left() - 15, (600.0 if ctx.thorough else 80.0) * (2 if intensive else 1))
    t_start = _t.time()

    def used() -> float:
        return (_t.time() - t_start) / max(budget, 1.0)

    # 3'. CUDA through the simulator (analyzer level).  The simulator costs ~0.5 s per kernel launch (= per bin), so: single-bin pure delays on
    #     the three cross kernels (orders −1, 0, 1, 2: decides the sign of Im XY) and full `compute_spectrum(backend="cuda")` runs restricted
    #     by `band` to three bins of the plan; each compared with numba and checked against the property
    if cuda is not None:
        n_cu = ctx.scale(6, 24) * (2 if intensive else 1)
        for i in range(n_cu):
            if used() > 0.3 or enough():
                if used() > 0.3:
                    P.notes.append(f"time budget reached after {i} of {n_cu} CUDA-simulator cases")
                break
            k, rep = i % 6, i // 6
            mode = "single-delay" if k < 4 else ("delay" if k == 4 else "gain")
            s = make_spec(mode, off + 1 + 7 * i, cs())
            s["kind"] = "noise"
            s["o"].update({"Jdes": 8, "Kdes": 3, "olap": 0.5, "order": ORDERS[(k + rep) % 4], "win": WINS[(i // 2) % 2], "bmin": 1.0})
            if s["o"]["win"] == "kaiser":
                s["o"]["psll"] = 60.0
            s["layout"] = "2xN"
            if mode == "single-delay":
                s["d"] = 1 + (i // 4) % 2
                s["N"] = 900
                s["L"] = 200 * s["d"]
                s["freq"] = float(np.random.default_rng(s["rec_seed"]).uniform(0.6, 2.0)) * s["fs"] / (2 * math.pi * s["d"])
                s["via"] = "L"
            else:
                s["N"] = 600
                if "d" in s:
                    s["d"] = 1
                s["o"]["Lmin"] = 150
                try:
                    x, y, _ = build_data(s)
                    with warnings.catch_warnings():
                        warnings.simplefilter("ignore")
                        f = np.asarray(_an.analyzer(layout(x, y, "2xN"), s["fs"], **s["o"]).plan()["f"])
                    phi = 2 * np.pi * f / s["fs"]
                    j0 = int(np.argmax(phi >= 0.6)) if np.any(phi >= 0.6) else 0
                    j1 = min(j0 + 2, len(f) - 1)
                    s["o"]["band"] = [float(f[j0]) * (1 - 1e-12), float(f[j1]) * (1 + 1e-12)]
                except (Exception, SystemExit):
                    continue
            run_spec(P, s, ["numba", "cuda"], cuda, stats)
    else:
        P.notes.append("CUDA backend not exercised (simulator worker unavailable)")
    # 1. static gain: every scheduler x order x window by rotation, both backends
    n_gain = ctx.scale(64, 384) * mult
    for i in range(n_gain):
        if used() > 0.6 or enough():
            if used() > 0.6:
                P.notes.append(f"time budget reached in the gain sweep after {i} of {n_gain} cases")
            break
        s = make_spec("gain", off + i, cs())
        s["wrapper"] = bool(i % 5 == 0)
        run_spec(P, s, BACKENDS, None, stats)
        if i < 2:
            P.sample({"op": "oracle", **short(s)})
    # 2. pure delay
    n_delay = ctx.scale(48, 288) * mult
    for i in range(n_delay):
        if used() > 0.8 or enough():
            break
        s = make_spec("delay", off + i, cs())
        run_spec(P, s, BACKENDS, None, stats)
        if i < 2:
            P.sample({"op": "oracle", **short(s)})
    # 4. single-bin path for (1) and (2)
    n_single = ctx.scale(48, 288) * mult
    for i in range(n_single):
        if used() > 0.95 or enough():
            break
        s = make_spec("single-gain" if i % 2 == 0 else "single-delay", off + i, cs())
        s["wrapper"] = bool(i % 4 == 1)
        run_spec(P, s, BACKENDS, None, stats)
    # edge stream
    if not enough():
        edge_stream(P, ctx, stats)
    # glue: DataFrame / interpolation wrappers return the same transfer function
    if not enough():
        s = make_spec("gain", off + 3, cs())
        x, y, _ = build_data(s)
        try:
            res = run_impl(s, layout(x, y, s["layout"]), "numba", None)
            df = res.to_dataframe()
            P.cases += 1
            P.hit("glue.dataframe")
            if not (np.array_equal(np.asarray(df["Hxy"]), np.asarray(res.Hxy)) and np.array_equal(np.asarray(df["coh"]), np.asarray(res.coh))
                    and np.array_equal(np.asarray(df.index), np.asarray(res.f))):
                viol(P, "to_dataframe() columns Hxy/coh differ from the attributes", {"mode": "glue", "sub": "dataframe"}, s, "numba", {})
            j = len(res.f) // 2
            hm = res.get_measurement(float(res.f[j]), "Hxy")
            if not abs(complex(hm) - complex(res.Hxy[j])) <= 1e-12 * abs(complex(res.Hxy[j])) + 1e-300:
                viol(P, f"get_measurement(f[{j}], 'Hxy')={hm!r} differs from Hxy[{j}]={complex(res.Hxy[j])!r}", {"mode": "glue", "sub": "get_measurement"}, s, "numba", {})
        except Exception as ex:
            P.notes.append(f"glue check skipped: {ex!r}"[:160])
    if cuda:
        cuda.close()
    P.notes.append("worst observed: " + ", ".join(f"{k}={v:.3g}" for k, v in sorted(stats.items())))
    return P


def replay(ctx, data) -> C.Part:
    P = C.Part()
    stats: Dict[str, float] = {}
    cuda = None
    for v in data.get("violations", []):
        rp = v["replay"]
        s = rp["spec"]
        be = rp.get("backend", "numba")
        bes = BACKENDS if be in ("numba", "numpy", "?") else ["numba", "cuda"]
        if "cuda" in bes and cuda is None:
            try:
                cuda = CudaAnalyzer()
            except Exception:
                cuda = None
        run_spec(P, s, bes, cuda, stats)
    if cuda:
        cuda.close()
    return P
