"""C19 — time-domain detrending and RMS integration are exact and mutually consistent.

Sub-claims (DESIGN §4 C19):
  a  polynomial_detrend(x, p): residual orthogonal to every polynomial of degree <= p, polynomials of degree <= p go to 0,
     idempotent, what is removed is itself a polynomial of degree <= p (so D = I - P, the orthogonal projection, and nothing else), order 0 = exact mean removal, short series (len < p+1) fall back to order len-1; df_detrend = the same per
     selected numeric column.
  b  integral_rms(f, asd, band) = sqrt(trapezoid sum of asd^2 over the grid points inside the band); 0 with < 2 points;
     band=None = full span;  SpectrumResult.get_rms(band) = integral_rms(result.f, result.asd, sorted band).
  c  monotone under band nesting.
  d  power additive over adjacent bands when the split point IS a grid frequency; super-additive for any other split point
     (the panel straddling the split is lost from both parts) — plain additivity is false off-grid and is never demanded here.
  e  Parseval (statistical, not decided by theorem): full-band RMS of a computed ASD vs the time-domain RMS.
"""
from __future__ import annotations

import logging
import math
import warnings
from typing import Any, Dict, List, Optional, Tuple

import numpy as np

from .. import common as C

PROP = "C19"
GEN_REGIONS: List[str] = ["Rms"]
THEOREMS = {
    "SpecKitV.Lemmas.Rms": ["trapz_sq_nonneg", "trapz_append", "integralRms_spec", "integralRms_none", "rms_monotone",
                            "rms_additive_at_grid", "rms_superadditive", "detrend0_sum_zero", "detrend0_const", "detrend0_idem"],
    "SpecKitV.Lemmas.Detrend": ["detr_poly_kills_span", "detr_poly_orthogonal", "detr_poly_idempotent", "detr_linear"],
    # region Rms (vk/regions/rms.py -> Gen/Rms.lean): crop_data, integral_rms, polynomial_detrend, SpectrumResult.get_rms TRANSLATED from
    # the current source and proved equal to the hand model; the property theorems above restated for the translated code
    "SpecKitV.Props.RmsGen": ["gen_crop_data_eq_model", "gen_integral_rms_eq_model", "gen_integral_rms_eq_model_list", "gen_integral_rms_rejects",
                              "gen_integral_rms_inverted", "gen_integral_rms_inf_inf", "gen_integral_rms_ninf", "gen_integral_rms_pinf",
                              "gen_integral_rms_one_point", "gen_get_rms_eq_integral_rms", "gen_get_rms_none", "gen_get_rms_csd",
                              "gen_get_rms_nonfinite", "gen_get_rms_eq_model", "gen_integralRms_spec", "gen_integralRms_none", "gen_rms_monotone",
                              "gen_rms_additive_at_grid", "gen_rms_superadditive", "gen_detrend0_eq_model", "gen_detrend_rejects",
                              "gen_detrend_poly_structure", "gen_detrend0_sum_zero", "gen_detrend0_idem", "gen_detrend0_const",
                              "RmsGen.lsPolyfit_contract", "gen_detrend_orthogonal", "gen_detrend_kills_poly", "gen_detrend_short_zero",
                              "gen_detrend_idempotent", "gen_detrend_eq_detr"],
}
CONTRACTS = ["np.polyfit(t, x, deg) returns the least-squares polynomial of degree deg on the abscissae t = 0..len-1 (orders >= 1 of "
             "polynomial_detrend are not modelled beyond this contract: the projection facts are proved for ANY orthonormal basis of the "
             "polynomial space; order 0 is modelled exactly)",
             "scipy.integrate.cumulative_trapezoid(y, x, initial=0)[-1] = sum of (x[i+1]-x[i])*(y[i]+y[i+1])/2 (tied by correspondence to Model.trapz)",
             # contracts of the translated region Rms: Lean DEFINITIONS in lean/SpecKitV/Np/Rms.lean (exercised by the generated-vs-real differential run)
             "Np.Rms.XR / XR.lt,le,gt,ge,neg,isFinite = a Python float that may be +-inf (np.inf, -np.inf, np.isfinite) with IEEE comparisons; NaN is outside the model",
             "Np.Rms.pyMax / pyMin / XR.pyMax / XR.pyMin = Python builtins max(a, b) = (b if b > a else a), min(a, b) = (b if b < a else a) on two floats",
             "Np.Rms.npMin / npMax = np.min(a) / np.max(a) over the WHOLE array in whatever order it is",
             "Np.Rms.compress mask a = boolean-mask selection a[mask] (len(mask) == len(a)): the selected elements in their original order",
             "Np.Rms.cumtrapz y x c = scipy.integrate.cumulative_trapezoid(y, x, initial=c) for 1-D arrays of equal length >= 1: element 0 is c, element k the "
             "left-to-right sum of the first k panels (x[i+1]-x[i])*(y[i+1]+y[i])/2; the code reads [-1] (Np.pyIndex)",
             "Np.Rms.polyval p t = np.polyval(p, t): Horner, highest power first (proved = sum p[k] t^(len(p)-1-k): RmsGen.polyval_get)",
             "Arr.mean = np.mean (left-to-right sum / length; NumPy sums pairwise: rounding only)",
             "np.polyfit is a PARAMETER `polyfit` of Gen.polynomial_detrend (Option-valued: none = it raises); assumed of it (RmsGen.PolyfitLS, only in the "
             "theorems about orders >= 1): on t = 0..n-1 and deg < n it does not raise and returns deg+1 coefficients whose residual is orthogonal to "
             "1, t, .., t^deg (normal equations of the least-squares fit); the contract is proved consistent (RmsGen.lsPolyfit_contract) and in the "
             "differential run the driver answers `polyfit` with NumPy's own coefficients (or `raises` where NumPy's polyfit raises)"]
ASSUMPTIONS = ["theorems are over the reals; floating-point rounding is covered by the stated tolerances (forward bounds scaled by the data), not by theorem",
               "the RMS property theorems (spec, monotone, additive, super-additive) assume a strictly increasing frequency grid; for EVERY grid (unsorted, "
               "duplicates) translated code = hand model is proved (gen_integral_rms_eq_model) and the real code is tied to both by the differential runs",
               "'full-band RMS reproduces the time-domain RMS within a few percent' is statistical and grid dependent: support run only "
               "(threshold 15 % white / 35 % low-pass coloured, measured worst case on the unchanged tree 3.1 % / 10.3 % over 360 records)",
               "additivity of power is demanded only for split points that are grid frequencies; elsewhere only super-additivity (DESIGN C19-d)"]
RULE = ("detrend: (series kind incl. offset/trend/walk/int/const/zero, length 1..2000 (a few to 20000), order 0..5, list/array input); "
        "df_detrend: (frame with float/int/str/datetime columns and a shuffled index, column selection, order, inplace, suffix); "
        "rms: (grid kind lin/log/random/duplicates, size 1..2000, asd shape, band mode none/inside/partly/fully outside/on-grid/between/"
        "one-point/degenerate/infinite; nested pairs; on-grid and off-grid split points); get_rms: real computed results x bands incl. swapped; "
        "distinct by (sub-claim, size, kind, order/band mode); non-trivial = length > order+1 with a non-zero residual (detrend), "
        ">= 2 grid points inside the band with positive power (rms)")

U = 2.0 ** -53
DETREND_REL = 1e-9          # per-sample error of polyfit+polyval relative to rms(x): theory <~ 2e-11 (see final note), measured <= 1.1e-12
PARSEVAL_THR = {"white": 0.15, "red": 0.35}
MAX_VIOL = 12


def _quiet() -> None:
    for name in ("speckit", "speckit.dsp", "speckit.analysis", "speckit.schedulers"):
        logging.getLogger(name).setLevel(logging.CRITICAL + 10)


def _f(v: Any) -> float:
    """floats survive JSON as numbers or as repr strings ('inf', '-inf', 'nan')"""
    return float(v)


def _band_in(b: Any) -> Optional[Tuple[float, float]]:
    return None if b is None else (_f(b[0]), _f(b[1]))


MARGIN: Dict[str, float] = {}


def within(key: str, val: float, tol: float) -> bool:
    """val <= tol, remembering the worst observed fraction of the allowance per kind of check (reported in the evidence notes)"""
    if tol > 0 and val == val:
        MARGIN[key] = max(MARGIN.get(key, 0.0), val / tol)
    return val <= tol


def add_violation(P: C.Part, what: str, signature: Dict[str, Any], replay: Dict[str, Any]) -> None:
    if len(P.violations) < MAX_VIOL:
        P.violations.append(C.Violation(what=what, signature=signature, replay=replay))


# =====================================================================================================================
#  RMS: generators, the independent reference, evaluation of single claims
# =====================================================================================================================
GRID_KINDS = ["lin", "lin0", "log", "rand", "randlog", "dup", "sym"]
ASD_KINDS = ["white", "powerlaw", "lognormal", "zeros", "spikes"]
BAND_MODES = ["none", "inside", "left_out", "right_out", "cover", "outside_left", "outside_right", "grid_grid", "grid_in", "in_grid",
              "between", "one_point", "degenerate", "degenerate_grid", "inf_left", "inf_right"]


def gen_grid(rng: np.random.Generator, n: int, kind: str) -> np.ndarray:
    if kind == "lin":
        f = 10 ** rng.uniform(-4, 2) + 10 ** rng.uniform(-4, 1) * np.arange(n)
    elif kind == "lin0":
        f = 10 ** rng.uniform(-4, 1) * np.arange(n)
    elif kind == "log":
        f = 10 ** rng.uniform(-5, 1) * 10 ** (rng.uniform(0.5, 6) * np.arange(n) / max(n - 1, 1))
    elif kind == "rand":
        f = np.sort(rng.uniform(0, 100, n))
    elif kind == "randlog":
        f = np.sort(10 ** rng.uniform(-4, 3, n))
    elif kind == "sym":
        f = np.sort(rng.uniform(-50, 50, n))
    elif kind == "dup":
        f = np.sort(rng.choice(rng.uniform(0, 10, max(1, n // 2 + 1)), n))
        return f.astype(np.float64)
    elif kind == "unsorted":
        f = rng.permutation(10 ** rng.uniform(-3, 2, n))
        return f.astype(np.float64)
    else:
        raise ValueError(kind)
    return np.unique(f.astype(np.float64))          # strictly increasing


def gen_asd(rng: np.random.Generator, f: np.ndarray, kind: str) -> np.ndarray:
    n = len(f)
    if kind == "white":
        y = np.full(n, 10 ** rng.uniform(-6, 3))
    elif kind == "powerlaw":
        y = 10 ** rng.uniform(-3, 2) * (np.abs(f) + 1e-3) ** (-rng.uniform(0, 2)) * np.exp(0.3 * rng.standard_normal(n))
    elif kind == "lognormal":
        y = 10 ** rng.uniform(-3, 3, n)
    elif kind == "zeros":
        y = 10 ** rng.uniform(-2, 2, n) * (rng.random(n) < 0.6)
    else:
        y = np.full(n, 1e-3)
        y[rng.integers(0, n, size=max(1, n // 20))] = 1e3
    return y.astype(np.float64)


def pick(rng: np.random.Generator, f: np.ndarray) -> float:
    """a frequency strictly inside a random panel of the (sorted) grid, uniform in index space"""
    n = len(f)
    if n < 2:
        return float(f[0] + rng.uniform(-1, 1))
    i = int(rng.integers(0, n - 1))
    return float(f[i] + rng.uniform(0.05, 0.95) * (f[i + 1] - f[i]))


def gen_band(rng: np.random.Generator, f: np.ndarray, mode: str) -> Optional[Tuple[float, float]]:
    n = len(f)
    fmin, fmax = float(f[0]), float(f[-1])
    span = (fmax - fmin) if fmax > fmin else 1.0
    below = lambda: fmin - rng.uniform(0.01, 2.0) * span
    above = lambda: fmax + rng.uniform(0.01, 2.0) * span
    if mode == "none":
        return None
    if mode == "inside":
        a, b = sorted((pick(rng, f), pick(rng, f)))
    elif mode == "left_out":
        a, b = below(), pick(rng, f)
    elif mode == "right_out":
        a, b = pick(rng, f), above()
    elif mode == "cover":
        a, b = below(), above()
    elif mode == "outside_left":
        a, b = sorted((below(), below()))
    elif mode == "outside_right":
        a, b = sorted((above(), above()))
    elif mode == "grid_grid":
        i, j = sorted(int(v) for v in rng.integers(0, n, size=2))
        a, b = float(f[i]), float(f[j])
    elif mode == "grid_in":
        a, b = float(f[int(rng.integers(0, n))]), pick(rng, f)
        if a > b:
            b = above()
    elif mode == "in_grid":
        a, b = pick(rng, f), float(f[int(rng.integers(0, n))])
        if a > b:
            a = below()
    elif mode == "between":
        if n < 2:
            a, b = sorted((above(), above()))
        else:
            i = int(rng.integers(0, n - 1))
            u, v = sorted(rng.uniform(0.1, 0.9, 2))
            a, b = float(f[i] + u * (f[i + 1] - f[i])), float(f[i] + v * (f[i + 1] - f[i]))
    elif mode == "one_point":
        i = int(rng.integers(0, n))
        lo = f[i - 1] if i > 0 else fmin - span
        hi = f[i + 1] if i + 1 < n else fmax + span
        a, b = float(f[i] - 0.5 * (f[i] - lo)), float(f[i] + 0.5 * (hi - f[i]))
    elif mode == "degenerate":
        a = b = pick(rng, f)
    elif mode == "degenerate_grid":
        a = b = float(f[int(rng.integers(0, n))])
    elif mode == "inf_left":
        a, b = -math.inf, pick(rng, f)
    elif mode == "inf_right":
        a, b = pick(rng, f), math.inf
    else:
        raise ValueError(mode)
    if a > b:
        a, b = b, a
    return (float(a), float(b))


def inside_mask(f: np.ndarray, band: Optional[Tuple[float, float]]) -> np.ndarray:
    if band is None:
        return np.ones(len(f), dtype=bool)
    return (f >= band[0]) & (f <= band[1])


def ref_power(f: np.ndarray, y: np.ndarray, band: Optional[Tuple[float, float]]) -> Tuple[float, int]:
    """the property's definition, computed independently of the code under test: exactly-rounded sum of the trapezoid panels of
    asd^2 over the grid points inside the band (0 with fewer than two of them). Returns (power, number of points inside)."""
    m = inside_mask(f, band)
    fc, yc = f[m], y[m]
    if len(fc) < 2:
        return 0.0, int(len(fc))
    panels = (fc[1:] - fc[:-1]) * (yc[1:] * yc[1:] + yc[:-1] * yc[:-1]) / 2.0
    return math.fsum(panels.tolist()), int(len(fc))


def rel_tol(n: int) -> float:
    """relative rounding budget of a power (square of the returned RMS) on a sorted grid: every panel is >= 0, so there is no cancellation;
    per panel <= 6 roundings, running sum of m <= n terms <= (m-1)u, sqrt and re-squaring 3u  ->  (n+10)u; 8x margin"""
    return 8.0 * (n + 10) * U


GUARD = 1e-280      # absolute guard against denormal effects only (powers generated here are >= 1e-20 or exactly 0)


def impl_rms(f: Any, y: Any, band: Any) -> float:
    from speckit.dsp import integral_rms
    with warnings.catch_warnings():
        warnings.simplefilter("ignore")
        return integral_rms(f, y, band)


def rms_eval(P: C.Part, f: np.ndarray, y: np.ndarray, check: str, args: List[Any], variant: int = 0, tag: str = "") -> None:
    """evaluate ONE claim on the real integral_rms. check/args:
         spec     [band]                 rms^2 = trapezoid sum over the grid points inside the band; 0 with < 2 points
         mono     [inner, outer]         inner within outer  =>  rms(inner) <= rms(outer)
         split    [a, m, b]              additive when m is a grid frequency, super-additive otherwise
       variant selects the container types handed to the function (glue): 0 arrays, 1 lists + list band, 2 arrays + np band"""
    n = len(f)
    rel = rel_tol(n)
    fin, yin = (f.tolist(), y.tolist()) if variant == 1 else (f, y)

    def conv(b):
        if b is None:
            return None
        return [b[0], b[1]] if variant == 1 else (np.array([b[0], b[1]]) if variant == 2 else (b[0], b[1]))

    def call(b) -> float:
        return float(impl_rms(fin, yin, conv(b)))

    rp = {"kind": "rms", "f": f.tolist(), "y": y.tolist(), "check": check, "args": args, "variant": variant}
    if check not in ("spec", "mono", "split"):
        raise ValueError(check)
    P.cases += 1
    P.hit(f"rms-{check}")
    try:
        if check == "spec":
            band = _band_in(args[0])
            v = call(band)
            ref, npts = ref_power(f, y, band)
            P.hit(f"band-{tag}" if tag else "band-?")
            if npts >= 2 and ref > 0:
                P.nontrivial.add(("rms-spec", n, tag, npts))
            if not (math.isfinite(v) and v >= 0.0):
                add_violation(P, f"integral_rms returned {v!r} (not a finite non-negative number) for band {band} on a sorted grid of {n} points",
                              {"sub": "rms-spec", "what": "not-finite"}, rp)
                return
            if npts < 2:
                if v != 0.0:
                    add_violation(P, f"integral_rms = {v!r} for band {band} containing {npts} grid point(s); must be 0", {"sub": "rms-spec", "what": "lt2-points"}, rp)
                return
            if not within("rms-spec", abs(v * v - ref), rel * ref + GUARD):
                add_violation(P, f"integral_rms^2 = {v * v!r} but the trapezoid sum of asd^2 over the {npts} grid points inside band {band} is {ref!r} "
                                 f"(rel.err {abs(v * v - ref) / ref if ref else math.inf:.3g}, tol {rel:.3g}); n={n}", {"sub": "rms-spec", "what": "value"}, rp)
        elif check == "mono":
            inner, outer = _band_in(args[0]), _band_in(args[1])
            vi, vo = call(inner), call(outer)
            if vi > 0:
                P.nontrivial.add(("rms-mono", n, tag))
            if not (vi * vi <= vo * vo * (1 + 2 * rel) + GUARD):
                add_violation(P, f"band nesting not monotone: rms{inner} = {vi!r} > rms{outer} = {vo!r}; n={n}", {"sub": "rms-monotone"}, rp)
        elif check == "split":
            a, m, b = (_f(v) for v in args)
            on_grid = bool(np.any(f == m))
            pa, pb, pab = call((a, m)) ** 2, call((m, b)) ** 2, call((a, b)) ** 2
            if pa > 0 and pb > 0:
                P.nontrivial.add(("rms-split", n, on_grid, tag))
            if on_grid:
                P.hit("split-on-grid")
                if not within("rms-additive", abs(pa + pb - pab), 3 * rel * pab + GUARD):
                    add_violation(P, f"power not additive at the grid frequency m={m!r}: rms^2[{a},{m}] + rms^2[{m},{b}] = {pa + pb!r} but rms^2[{a},{b}] = {pab!r}; n={n}",
                                  {"sub": "rms-additive-at-grid"}, rp)
            else:
                P.hit("split-off-grid")
                if pab > (pa + pb) * (1 + 1e-9):
                    P.hit("split-off-grid-strict-deficit")
                if not (pa + pb <= pab * (1 + 3 * rel) + GUARD):
                    add_violation(P, f"power not super-additive at the off-grid split m={m!r}: rms^2[{a},{m}] + rms^2[{m},{b}] = {pa + pb!r} > rms^2[{a},{b}] = {pab!r}; n={n}",
                                  {"sub": "rms-superadditive"}, rp)
    except Exception as ex:  # the function must not raise on a valid (a <= b) band
        add_violation(P, f"integral_rms raised {ex!r} in check {check} args {args}; n={n}", {"sub": "rms-" + check, "what": "raises"}, dict(rp, error=repr(ex)))


def rms_grid_checks(P: C.Part, rng: np.random.Generator, f: np.ndarray, y: np.ndarray, gkind: str, nbands: int) -> None:
    n = len(f)
    modes = ["none", "cover", "grid_grid", "one_point", "between"] + [str(m) for m in rng.choice(BAND_MODES, size=nbands)]
    for mode in modes:
        rms_eval(P, f, y, "spec", [gen_band(rng, f, mode)], variant=int(rng.choice([0, 0, 0, 1, 2])), tag=mode)
    # full span: None, the explicit (fmin, fmax) and (-inf, inf) all mean the whole grid
    rms_eval(P, f, y, "spec", [(float(f[0]), float(f[-1]))], tag="fmin_fmax")
    rms_eval(P, f, y, "spec", [(-math.inf, math.inf)], tag="inf_inf")

    def point(on_grid: bool) -> float:
        return float(f[int(rng.integers(0, n))]) if on_grid else pick(rng, f)
    for _ in range(max(2, nbands // 2)):
        q = sorted(point(bool(rng.integers(0, 2))) for _ in range(4))
        if rng.random() < 0.2:
            q[0] = q[0] - abs(q[3] - q[0]) - 1.0
        if rng.random() < 0.2:
            q[3] = q[3] + abs(q[3] - q[0]) + 1.0
        rms_eval(P, f, y, "mono", [(q[1], q[2]), (q[0], q[3])], tag=gkind)
        rms_eval(P, f, y, "mono", [(q[0], q[2]), (q[0], q[3])], tag=gkind)
    for k in range(max(4, nbands)):
        on = (k % 2 == 0)
        if on:
            i = int(rng.integers(0, n))
            m = float(f[i])
        else:
            m = pick(rng, f)                     # strictly inside a panel (on a grid point only for zero-width panels / n = 1)
        lo = f[f <= m]
        hi = f[f >= m]
        ca = [m - abs(pick(rng, f) - m), float(f[0]) - 1.0]
        cb = [m + abs(pick(rng, f) - m), float(f[-1]) + 1.0]
        if len(lo):
            ca += [float(lo[int(rng.integers(0, len(lo)))])] * 2
        if len(hi):
            cb += [float(hi[int(rng.integers(0, len(hi)))])] * 2
        a = min(m, ca[int(rng.integers(0, len(ca)))])
        b = max(m, cb[int(rng.integers(0, len(cb)))])
        rms_eval(P, f, y, "split", [a, m, b], tag=gkind)


# =====================================================================================================================
#  detrend
# =====================================================================================================================
SERIES_KINDS = ["white", "offset", "trend", "walk", "tiny", "const", "zero", "int", "ramp", "step"]


def tscaled(n: int) -> np.ndarray:
    return (2.0 * np.arange(n) - (n - 1)) / max(n - 1, 1)


def make_series(cs: int, n: int, kind: str) -> np.ndarray:
    rng = np.random.default_rng(cs)
    t = tscaled(n)
    z = rng.standard_normal(n)
    if kind == "white":
        return z
    if kind == "offset":
        return z + float(rng.choice([-1.0, 1.0])) * 10 ** rng.uniform(0, 6)
    if kind == "trend":
        c = rng.standard_normal(6) * 10 ** rng.uniform(-1, 3, 6)
        return z + sum(c[k] * t ** k for k in range(6))
    if kind == "walk":
        return np.cumsum(z)
    if kind == "tiny":
        return 1e-8 * z + 5 * t ** 5 - 3 * t ** 2 + 0.5 * t
    if kind == "const":
        return np.full(n, float(rng.choice([0.1, -3.0, 1e6, 1.0 / 3.0])))
    if kind == "zero":
        return np.zeros(n)
    if kind == "int":
        return rng.integers(-1000, 1000, n) + (np.arange(n) // 3)
    if kind == "ramp":
        return rng.uniform(-5, 5) * np.arange(n) + rng.uniform(-100, 100)
    if kind == "step":
        return z + 10.0 * (t > 0.3)
    raise ValueError(kind)


def impl_detrend(x: Any, p: int) -> np.ndarray:
    from speckit.dsp import polynomial_detrend
    with warnings.catch_warnings():
        warnings.simplefilter("ignore")
        return polynomial_detrend(x, p)


def detrend_eval(P: C.Part, x: np.ndarray, p: int, origin: Dict[str, Any], as_list: bool = False) -> None:
    """all detrend claims for one (series, order) on the real polynomial_detrend.
    Tolerance: per-sample error of polyfit (column-scaled SVD least squares) + Horner polyval on t = 0..n-1 is bounded by
    ~ eps * (2p * sum|c_k| t^k + cond) ; for degree <= 5 the monomial coefficients of a polynomial of grid-rms 1 sum to <= ~7.5e3
    (smallest eigenvalue of the 6x6 Hilbert matrix 1.1e-7), so the error is <~ 2e-11 * rms(x); measured worst 1.1e-12. DETREND_REL = 1e-9."""
    n = len(x)
    xf = np.asarray(x, dtype=np.float64)
    rmsx = float(np.sqrt(np.mean(xf * xf)))
    amax = float(np.max(np.abs(xf)))
    t = tscaled(n)
    rp = {"kind": "detrend", "order": p, "as_list": as_list, **origin}
    P.cases += 1
    P.hit(f"detrend-order-{p}")
    P.hit("detrend-short" if n < p + 1 else "detrend-regular")
    try:
        r = impl_detrend(x.tolist() if as_list else x, p)
        r = np.asarray(r)
        if r.shape != (n,) or not np.all(np.isfinite(r)):
            add_violation(P, f"polynomial_detrend(order={p}) of a finite series of length {n} returned shape {r.shape} / non-finite values",
                          {"sub": "detrend-shape", "order": p}, rp)
            return
        r = r.astype(np.float64)
        if n > p + 1 and float(np.max(np.abs(r))) > 1e-6 * rmsx:
            P.nontrivial.add(("detrend", n, p, origin.get("gen", {}).get("series", "explicit")))
        # orthogonality to t^k, k <= p (t scaled to [-1,1], so |sum r t^k| <= sum|r_err| <= n * DETREND_REL * rms(x) = DETREND_REL * sqrt(n) * ||x||_2)
        for k in range(p + 1):
            s = float(np.sum(r * t ** k))
            if not within("detrend-orthogonality", abs(s), DETREND_REL * n * rmsx):
                add_violation(P, f"detrend residual not orthogonal to t^{k}: |sum r*t^{k}| = {abs(s):.6g} > {DETREND_REL * n * rmsx:.3g} "
                                 f"(order {p}, length {n}, rms(x) {rmsx:.4g})", {"sub": "detrend-orthogonality", "order": p}, rp)
                break
        # what was removed is a polynomial of degree <= min(p, n-1) ("polynomial detrending of order p" = x - P x, DESIGN C19-a): the part of
        # x - r outside that space must vanish. Orthonormal Legendre basis on the scaled grid (well conditioned); x - r = trend up to the
        # rounding of the subtraction (<= 4u max|x|) and of polyval (covered by DETREND_REL * rms(x)).
        pe = min(p, n - 1)
        Q, _ = np.linalg.qr(np.polynomial.legendre.legvander(t, pe))
        tr = xf - r
        out = float(np.max(np.abs(tr - Q @ (Q.T @ tr))))
        if not within("detrend-removed-is-polynomial", out, DETREND_REL * rmsx + 1e-12 * amax):
            add_violation(P, f"the removed trend x - D(x) is not a polynomial of degree <= {pe}: component outside that space {out:.6g} > "
                             f"{DETREND_REL * rmsx + 1e-12 * amax:.3g} (order {p}, length {n})", {"sub": "detrend-removes-only-polynomial", "order": p}, rp)
        # idempotence
        r2 = np.asarray(impl_detrend(r, p), dtype=np.float64)
        d = float(np.max(np.abs(r2 - r)))
        if not within("detrend-idempotent", d, DETREND_REL * rmsx):
            add_violation(P, f"detrend not idempotent: max|D(D(x)) - D(x)| = {d:.6g} > {DETREND_REL * rmsx:.3g} (order {p}, length {n})",
                          {"sub": "detrend-idempotent", "order": p}, rp)
        # order 0 = exact mean removal (np.mean pairwise: error <= log2(n) u max|x|; subtraction 2u max|x|)
        if p == 0:
            m = math.fsum(xf.tolist()) / n
            d0 = float(np.max(np.abs(r - (xf - m))))
            if not within("detrend-order0", d0, 1e-13 * amax):
                add_violation(P, f"order-0 detrend is not x - mean(x): max deviation {d0:.6g} > {1e-13 * amax:.3g} (length {n})",
                              {"sub": "detrend-order0", "order": 0}, rp)
        # short series: documented fallback to order len-1, i.e. the polynomial interpolates every sample
        if n < p + 1:
            d1 = float(np.max(np.abs(r)))
            if not within("detrend-short", d1, DETREND_REL * rmsx):
                add_violation(P, f"short series (length {n} < order+1 = {p + 1}): residual {d1:.6g} is not ~0 (fallback to order {n - 1})",
                              {"sub": "detrend-short", "order": p}, rp)
    except Exception as ex:
        add_violation(P, f"polynomial_detrend(order={p}) raised {ex!r} on a finite series of length {n}", {"sub": "detrend-raises", "order": p}, dict(rp, error=repr(ex)))


def poly_eval(P: C.Part, n: int, p: int, coeffs: List[float]) -> None:
    """a polynomial of degree len(coeffs)-1 <= p must detrend to ~0 relative to its size"""
    t = tscaled(n)
    x = np.zeros(n)
    for k, c in enumerate(coeffs):
        x = x + float(c) * t ** k
    rmsx = float(np.sqrt(np.mean(x * x)))
    rp = {"kind": "poly", "n": n, "order": p, "coeffs": [float(c) for c in coeffs]}
    P.cases += 1
    P.hit("detrend-poly-to-zero")
    try:
        r = np.asarray(impl_detrend(x, p), dtype=np.float64)
        d = float(np.max(np.abs(r))) if r.shape == (n,) else math.inf
        if rmsx > 0 and n > len(coeffs):
            P.nontrivial.add(("poly", n, p, len(coeffs) - 1))
        if not within("detrend-kills-poly", d, DETREND_REL * rmsx):
            add_violation(P, f"polynomial of degree {len(coeffs) - 1} not removed by order-{p} detrend: max|r| = {d:.6g} > {DETREND_REL * rmsx:.3g} (length {n}, rms {rmsx:.4g})",
                          {"sub": "detrend-kills-poly", "order": p}, rp)
    except Exception as ex:
        add_violation(P, f"polynomial_detrend(order={p}) raised {ex!r} on a polynomial of length {n}", {"sub": "detrend-raises", "order": p}, dict(rp, error=repr(ex)))


# =====================================================================================================================
#  df_detrend
# =====================================================================================================================
DF_COLS = ["a", "b", "c", "i", "s", "d"]


def make_frame(cs: int, n: int):
    import pandas as pd
    rng = np.random.default_rng(cs)
    t = tscaled(n)
    idx = rng.permutation(n) * 3 + 7                         # non-default, unsorted index
    return pd.DataFrame({
        "a": rng.standard_normal(n) + 40 * t ** 3 - 25 * t ** 2 + 9 * t + 3 + 12 * t ** 5,   # curvature: every order gives a different result
        "b": np.cumsum(rng.standard_normal(n)) + 30 * t ** 4 - 17 * t ** 2,
        "c": 5.0 + 7 * t ** 2 - 11 * t ** 3 + 0.1 * rng.standard_normal(n),
        "i": (rng.integers(-50, 50, n) + (np.arange(n) ** 2) // 7).astype(np.int64),
        "s": [f"r{k}" for k in range(n)],
        "d": pd.date_range("2020-01-01", periods=n, freq="s"),
    }, index=idx)


def df_eval(P: C.Part, spec: Dict[str, Any]) -> None:
    import pandas as pd
    from speckit.dsp import df_detrend
    n, order, cols, inplace, suffix = int(spec["n"]), int(spec["order"]), spec["columns"], bool(spec["inplace"]), spec["suffix"]
    df = make_frame(int(spec["case_seed"]), n)
    df0 = df.copy(deep=True)
    rp = {"kind": "df", **spec}
    P.cases += 1
    P.hit("df-inplace" if inplace else "df-suffix")
    P.hit("df-columns-none" if cols is None else "df-columns-list")
    kw = {"order": order, "inplace": inplace}
    if cols is not None:
        kw["columns"] = list(cols)
    if suffix is not None:
        kw["suffix"] = suffix
    sfx = "_detrended" if suffix is None else suffix
    try:
        with warnings.catch_warnings():
            warnings.simplefilter("ignore")
            out = df_detrend(df, **kw)
        sel = list(df0.columns) if cols is None else list(cols)
        numeric = [c for c in sel if df0[c].dtype.kind in "iuf"]
        skipped = [c for c in sel if c not in numeric]
        if n > order + 1 and numeric:
            P.nontrivial.add(("df", n, order, tuple(sel), inplace, sfx))

        def bad(what: str, sub: str):
            add_violation(P, f"df_detrend(columns={cols}, order={order}, inplace={inplace}, suffix={sfx!r}), n={n}: {what}", {"sub": sub, "inplace": inplace}, rp)
        if not inplace and not df.equals(df0):
            return bad("the input frame was modified although inplace=False", "df-input-modified")
        if not isinstance(out, pd.DataFrame) or len(out) != n or not out.index.equals(df0.index):
            return bad("result is not a frame with the input's index", "df-shape")
        expected_cols = set(df0.columns) | (set() if inplace else {f"{c}{sfx}" for c in numeric})
        if set(out.columns) != expected_cols:
            return bad(f"result columns {sorted(map(str, out.columns))} but expected {sorted(expected_cols)} (selected numeric: {numeric}, skipped non-numeric: {skipped})", "df-columns")
        for c in df0.columns:
            target_changed = inplace and c in numeric
            if not target_changed and not out[c].equals(df0[c]):
                return bad(f"column {c!r} (not a detrend target) differs from the input", "df-untouched")
        for c in numeric:
            xin = df0[c].values
            ref = np.asarray(impl_detrend(xin, order), dtype=np.float64)
            got = np.asarray(out[c if inplace else f"{c}{sfx}"].values, dtype=np.float64)
            scale = float(np.max(np.abs(xin.astype(np.float64))))
            d = float(np.max(np.abs(got - ref)))
            # same routine on the same column: both are within DETREND_REL*rms of the exact projection residual
            if not within("df-values", d, DETREND_REL * scale):
                return bad(f"column {c!r}: differs from polynomial_detrend(column, order={order}) by {d:.6g} (tol {DETREND_REL * scale:.3g})", "df-values")
    except Exception as ex:
        add_violation(P, f"df_detrend raised {ex!r} for columns={cols} order={order} inplace={inplace} n={n}", {"sub": "df-raises"}, dict(rp, error=repr(ex)))


def gen_df_spec(rng: np.random.Generator, i: int) -> Dict[str, Any]:
    n = int(rng.choice([1, 2, 3, 4, 6, 7, int(rng.integers(8, 400))]))
    mode = i % 5
    if mode == 0:
        cols = None
    elif mode == 1:
        cols = [str(rng.choice(["a", "b", "c", "i"]))]
    else:
        k = int(rng.integers(1, 5))
        cols = [str(c) for c in rng.choice(DF_COLS, size=k, replace=False)]
    return {"case_seed": int(rng.integers(0, 2 ** 62)), "n": n, "order": int(rng.integers(0, 6)), "columns": cols,
            "inplace": bool(rng.integers(0, 2)), "suffix": [None, "_x", "_detr", ".d"][int(rng.integers(0, 4))]}


# =====================================================================================================================
#  SpectrumResult.get_rms and the Parseval probe
# =====================================================================================================================
RESULT_CFGS = [{}, {"Jdes": 200}, {"olap": 0.5, "Jdes": 500}, {"order": 1}, {"win": "hann"}]


def make_record(spec: Dict[str, Any]) -> np.ndarray:
    rng = np.random.default_rng(int(spec["rec_seed"]))
    N = int(spec["N"])
    x = float(spec["amp"]) * rng.standard_normal(N)
    if spec["noise"] == "red":
        import scipy.signal as ss
        b, a = ss.butter(1, 0.05)
        x = ss.lfilter(b, a, x)
    return x


def result_eval(P: C.Part, spec: Dict[str, Any]) -> Optional[float]:
    """get_rms(band) == integral_rms(f, asd, sorted band) on a result computed from a real record; Parseval probe on the full band.
    Returns the Parseval deviation (for the report)."""
    import speckit
    from speckit.dsp import integral_rms
    x = make_record(spec)
    fs = float(spec["fs"])
    rp = {"kind": "result", **spec}
    try:
        with warnings.catch_warnings():
            warnings.simplefilter("ignore")
            res = speckit.compute_spectrum(x, fs, **spec["cfg"])
            f = np.asarray(res.f, dtype=np.float64)
            asd = np.asarray(res.asd, dtype=np.float64)
    except Exception as ex:      # planning/computation problems belong to other properties
        P.notes.append(f"compute_spectrum failed for {spec['cfg']} N={spec['N']}: {ex!r}"[:160])
        return None
    rng = np.random.default_rng(int(spec["rec_seed"]) + 1)
    sorted_grid = bool(np.all(np.diff(f) >= 0)) and len(f) >= 1
    bands: List[Any] = [None, (float(f[0]), float(f[-1])), (float(f[-1]), float(f[0]))]
    if sorted_grid:
        for mode in ["inside", "grid_grid", "left_out", "right_out", "outside_left", "between", "one_point", "inside", "grid_in", "in_grid"]:
            b = gen_band(rng, f, mode)
            if b is not None and rng.random() < 0.5:
                b = (b[1], b[0])                       # swapped order must be accepted
            bands.append(b)
    full = float(integral_rms(f, asd, None))
    for b in bands:
        P.cases += 1
        P.hit("get_rms")
        sb = None if b is None else (min(b), max(b))
        swapped = b is not None and b[0] > b[1]
        if swapped:
            P.hit("get_rms-swapped-band")
        try:
            v = res.get_rms(b)
            e = float(integral_rms(f, asd, sb))
        except Exception as ex:
            add_violation(P, f"get_rms({b}) raised {ex!r} (auto spectrum, {len(f)} bins)", {"sub": "get_rms-raises", "swapped": swapped}, dict(rp, band=b, error=repr(ex)))
            continue
        if e > 0:
            P.nontrivial.add(("get_rms", spec["N"], str(spec["cfg"]), spec["noise"], None if b is None else (round(b[0], 9), round(b[1], 9))))
        if not isinstance(v, float) or not within("get_rms", abs(v - e), 1e-12 * full):
            add_violation(P, f"get_rms({b}) = {v!r} but integral_rms(f, asd, {sb}) = {e!r} (full band {full!r})", {"sub": "get_rms-equals-integral", "swapped": swapped}, dict(rp, band=b))
            continue
        if sorted_grid:
            ref, npts = ref_power(f, asd, sb)
            if not (abs(v * v - ref) <= rel_tol(len(f)) * ref + GUARD):
                add_violation(P, f"get_rms({b})^2 = {v * v!r} but the trapezoid sum of asd^2 over the {npts} bins inside is {ref!r}", {"sub": "get_rms-spec"}, dict(rp, band=b))
    # Parseval probe (support only; thresholds with >= 3x margin over the measured worst case)
    P.cases += 1
    P.hit("parseval-" + spec["noise"])
    td = float(np.std(x))
    dev = full / td - 1.0
    P.nontrivial.add(("parseval", spec["N"], str(spec["cfg"]), spec["noise"], spec["fs"], spec["rec_seed"] % 1000003))
    thr = PARSEVAL_THR[spec["noise"]]
    if not within("parseval-" + spec["noise"], abs(dev), thr):
        add_violation(P, f"full-band RMS of the computed ASD = {full:.6g} but the time-domain RMS is {td:.6g} (deviation {100 * dev:+.1f} %, allowed {100 * thr:.0f} %); "
                         f"{spec['noise']} noise N={spec['N']} fs={fs} cfg={spec['cfg']}", {"sub": "parseval", "noise": spec["noise"]}, rp)
    return dev


def cross_probe(P: C.Part, rng: np.random.Generator) -> None:
    """cross-spectral results have no ASD: get_rms refuses (recorded, not a claim of the property)"""
    import speckit
    try:
        x = rng.standard_normal((2, 1500))
        res = speckit.compute_spectrum(x, 1.0)
        try:
            res.get_rms()
            P.hit("cross-get_rms-returned-a-value")
        except NotImplementedError:
            P.hit("cross-get_rms-NotImplementedError")
    except Exception as ex:
        P.notes.append(f"cross probe: {ex!r}"[:120])


def gen_result_spec(rng: np.random.Generator, i: int, thorough: bool) -> Dict[str, Any]:
    sizes = [2000, 10000] + ([50000] if thorough else [])
    return {"rec_seed": int(rng.integers(0, 2 ** 62)), "N": int(sizes[i % len(sizes)]), "fs": float(rng.choice([1.0, 10.0, 1000.0, 1e-3, 1e-6, 3.7e4])),
            "noise": ["white", "red", "white"][i % 3], "amp": float(rng.choice([3.7, 0.02, 150.0])), "cfg": dict(RESULT_CFGS[(i // 2) % len(RESULT_CFGS)])}


# =====================================================================================================================
#  correspondence: model (driver) vs the real functions
# =====================================================================================================================
def rms_line(f: np.ndarray, y: np.ndarray, band: Optional[Tuple[float, float]]) -> str:
    return "rms " + C.arr(f) + " " + C.arr(y) + (" 0" if band is None else f" 1 {C.f2h(band[0])} {C.f2h(band[1])}")


MAX_DISAGREE = 25


def disagree(P: C.Part, d: Dict[str, Any]) -> None:
    """keep the first MAX_DISAGREE disagreeing cases in full (they go into the replay file), count the rest"""
    if len(P.disagreements) < MAX_DISAGREE:
        P.disagreements.append(d)
    else:
        P.hit("further-disagreements-not-stored")


def correspondence(ctx) -> C.Part:
    """Model.integralRms (Float) vs dsp.integral_rms, Model.detrend0 vs dsp.polynomial_detrend(x, 0)"""
    _quiet()
    P = C.Part()
    rng = ctx.rng
    gen_rms_cases: List[Tuple[np.ndarray, np.ndarray, Any, str, str, Any]] = []     # replayed through the GENERATED code at the end
    gen_det_cases: List[Tuple[np.ndarray, str]] = []
    ngrids = ctx.scale(300, 3000)
    for i in range(ngrids):
        if ctx.time_left() < 30:
            P.notes.append("time budget reached")
            break
        n = (i % 12) + 1 if i < 36 else int(rng.integers(1, 201))
        gk = "unsorted" if i % 11 == 5 else GRID_KINDS[i % len(GRID_KINDS)]
        f = gen_grid(rng, n, gk)
        y = gen_asd(rng, f, ASD_KINDS[int(rng.integers(0, len(ASD_KINDS)))])
        n = len(f)
        fs_sorted = np.sort(f)
        A = float(np.sum(np.abs(np.diff(f)) * (y[1:] ** 2 + y[:-1] ** 2) / 2)) if n >= 2 else 0.0
        modes = ["none", "inverted"] + [str(m) for m in rng.choice(BAND_MODES[1:], size=4)]
        for mode in modes:
            if mode == "inverted":
                b = gen_band(rng, fs_sorted, "inside" if n >= 2 else "cover")
                if b[0] == b[1]:
                    continue
                band = (b[1], b[0])
            else:
                band = gen_band(rng, fs_sorted, mode)
            try:
                vi: Any = float(impl_rms(f, y, band))
            except ValueError:
                vi = "RAISE"
            r = ctx.driver.ask(rms_line(f, y, band))
            vm: Any = "RAISE" if r == "RAISE" else C.h2f(r.split()[0])
            gen_rms_cases.append((f, y, band, gk, mode, vi))
            P.cases += 1
            P.hit(f"rms-{gk}")
            P.hit(f"rms-band-{mode}")
            P.hit("rms-n=%s" % ("1" if n == 1 else "2" if n == 2 else "3-12" if n <= 12 else "13-200"))
            case = {"op": "rms", "f": f.tolist(), "y": y.tolist(), "band": band, "grid": gk, "mode": mode}
            if vi == "RAISE" or vm == "RAISE":
                P.hit("rms-raise")
                if vi != vm:
                    disagree(P, {**case, "impl": vi, "model": vm})
                else:
                    P.nontrivial.add(("raise", n, gk))
                continue
            if int(np.sum(inside_mask(f, band))) >= 2:
                P.nontrivial.add(("rms", n, gk, mode))
                if n >= 5 and i % 7 == 0:
                    P.sample({"op": "rms", "n": n, "grid": gk, "band": band, "impl": vi, "model": vm}, cap=4)
            if math.isnan(vi) or math.isnan(vm):
                P.hit("rms-nan(negative signed area on an unsorted grid)")
                if math.isnan(vi) and math.isnan(vm):
                    continue
                other = vm if math.isnan(vi) else vi
                if other * other <= 1e-12 * A + 1e-200:
                    P.unstable += 1
                else:
                    disagree(P, {**case, "impl": vi, "model": vm})
                continue
            if gk == "unsorted":
                ok = abs(vi * vi - vm * vm) <= 1e-12 * A + 1e-200      # signed panels can cancel: budget relative to the sum of |panels|
            else:
                ok = abs(vi - vm) <= 1e-12 * max(abs(vi), abs(vm)) + 1e-200   # non-negative panels: no cancellation (n <= 200: n*u/2 = 2e-14)
            if not ok:
                disagree(P, {**case, "impl": vi, "model": vm})
    # order-0 detrend
    nd = ctx.scale(120, 1200)
    for i in range(nd):
        if ctx.time_left() < 20:
            break
        n = (i % 8) + 1 if i < 16 else int(rng.integers(1, 301))
        kind = SERIES_KINDS[i % len(SERIES_KINDS)]
        x = np.asarray(make_series(int(rng.integers(0, 2 ** 62)), n, kind), dtype=np.float64)
        vi = np.asarray(impl_detrend(x, 0), dtype=np.float64)
        vm = np.array(ctx.driver.floats("detrend0 " + C.arr(x)))
        gen_det_cases.append((x, kind))
        P.cases += 1
        P.hit("detrend0")
        if n >= 2 and float(np.ptp(x)) > 0:
            P.nontrivial.add(("detrend0", n, kind))
        tol = 8 * U * (n + 2) * float(np.max(np.abs(x)))        # sequential (model) vs pairwise (np.mean) summation
        if vm.shape != vi.shape or not np.all(np.abs(vi - vm) <= tol):
            disagree(P, {"op": "detrend0", "x": x.tolist(), "impl": vi.tolist(), "model": vm.tolist(), "tol": tol})
        elif i in (16, 17):
            P.sample({"op": "detrend0", "n": n, "kind": kind, "impl": vi[:4].tolist(), "model": vm[:4].tolist()})
    # generated code (Gen/Rms.lean, translated from the current source) vs the functions it was generated from; the child generator is
    # seeded by ONE integer drawn after the streams above, so those are unchanged
    gen_differential(ctx, P, np.random.default_rng(int(rng.integers(0, 2 ** 62))), gen_rms_cases, gen_det_cases)
    return P


# =====================================================================================================================
#  region Rms: the GENERATED definitions executed in Float by the driver vs the real functions (validates the translator)
# =====================================================================================================================
GEN_ULP = 4.0     # the generated code performs the same IEEE operations in the same order (left-to-right cumsum, x*x, sqrt): allowed
#                   deviation 4 ulp of the result (libm sqrt and NumPy's SIMD loops are correctly rounded; measured: bit-identical)


def band_tokens(band: Any) -> str:
    return " 0" if band is None else f" 1 {C.f2h(band[0])} {C.f2h(band[1])}"


def same_float(a: float, b: float, scale: float = 0.0) -> bool:
    if math.isnan(a) or math.isnan(b):
        return math.isnan(a) and math.isnan(b)
    return abs(a - b) <= GEN_ULP * U * max(abs(a), abs(b), scale) + 1e-300


def impl_get_rms(f: np.ndarray, y: np.ndarray, band: Any, iscsd: bool = False) -> Any:
    """the real SpectrumResult.get_rms executed on an object that carries only what the method reads (iscsd, f, asd)"""
    import types
    from speckit.analysis import SpectrumResult
    stub = types.SimpleNamespace(iscsd=iscsd, f=f, asd=y)
    try:
        with warnings.catch_warnings():
            warnings.simplefilter("ignore")
            return float(SpectrumResult.get_rms(stub, band))
    except (ValueError, NotImplementedError):
        return "RAISE"


def gen_disagree(P: C.Part, d: Dict[str, Any]) -> None:
    """a disagreement between the GENERATED code and the function it was generated from (a translator defect, whatever the source says)"""
    P.hit("gen-vs-real-disagreement")
    disagree(P, d)


def polyfit_table(x: np.ndarray, maxdeg: int) -> List[np.ndarray]:
    """NumPy's own answers to every `np.polyfit(arange(len x), x, deg)` the generated code may request (the contract parameter)"""
    t = np.arange(len(x))
    tab = []
    for dg in range(maxdeg + 1):
        if len(x) == 1 and dg >= 1:          # NumPy's polyfit fails here (all-zero Vandermonde columns; LAPACK prints to stderr): no answer
            tab.append(np.zeros(0))
            continue
        try:
            with warnings.catch_warnings():
                warnings.simplefilter("ignore")
                tab.append(np.asarray(np.polyfit(t, x, deg=dg), dtype=np.float64))
        except Exception:
            tab.append(np.zeros(0))
    return tab


def gen_differential(ctx, P: C.Part, crng: np.random.Generator, rms_cases, det_cases) -> None:
    from speckit.dsp import crop_data, polynomial_detrend
    t_start = ctx.time_left()
    # ---- integral_rms / crop_data / get_rms on every grid x band of the model correspondence above
    for k, (f, y, band, gk, mode, vi) in enumerate(rms_cases):
        if ctx.time_left() < 25:
            P.notes.append("generated-code differential: time budget reached")
            break
        n = len(f)
        base = {"f": f.tolist(), "y": y.tolist(), "band": band, "grid": gk, "mode": mode}
        # integral_rms
        r = ctx.driver.ask("grms " + C.arr(f) + " " + C.arr(y) + band_tokens(band))
        vg: Any = "RAISE" if r == "RAISE" else (C.h2f(r) if not r.startswith("ERR") else r)
        P.cases += 1
        P.hit("gen-integral_rms")
        P.hit(f"gen-rms-band-{mode}")
        P.hit(f"gen-rms-{gk}")
        if band is not None and (math.isinf(band[0]) or math.isinf(band[1])):
            P.hit("gen-rms-infinite-edge")
        if vi == "RAISE" or vg == "RAISE" or isinstance(vg, str):
            if vi != vg:
                gen_disagree(P, {"op": "grms", **base, "impl": vi, "generated": vg})
            else:
                P.hit("gen-rms-raise")
        elif not same_float(vi, vg):
            gen_disagree(P, {"op": "grms", **base, "impl": vi, "generated": vg})
        elif vi > 0:
            P.nontrivial.add(("gen-rms", n, gk, mode))
        # crop_data on the band itself (not clamped): raises for an inverted band, keeps both edges
        if band is not None:
            try:
                xc, yc = crop_data(f, y, band[0], band[1])
                ci: Any = (xc.tolist(), yc.tolist())
            except ValueError:
                ci = "RAISE"
            r = ctx.driver.ask("gcrop " + C.arr(f) + " " + C.arr(y) + f" {C.f2h(band[0])} {C.f2h(band[1])}")
            if r == "RAISE" or r.startswith("ERR"):
                cg: Any = r
            else:
                tk = r.split()
                nx, ny = int(tk[0]), int(tk[1])
                vals = [C.h2f(v) for v in tk[2:]]
                cg = (vals[:nx], vals[nx:nx + ny])
            P.cases += 1
            P.hit("gen-crop_data")
            if ci != cg:
                gen_disagree(P, {"op": "gcrop", **base, "impl": ci, "generated": cg})
            elif ci != "RAISE":
                P.hit("gen-crop-kept=%s" % ("0" if not ci[0] else "1" if len(ci[0]) == 1 else "all" if len(ci[0]) == n else "some"))
                if 0 < len(ci[0]) < n:
                    P.nontrivial.add(("gen-crop", n, gk, mode))
            else:
                P.hit("gen-crop-raise")
        # get_rms band handling: the band as generated, and (every third case) swapped; cross spectra refuse
        for variant in ((0, 1) if (band is not None and k % 3 == 0) else (0,)):
            b = band if (variant == 0 or band is None) else (band[1], band[0])
            iscsd = (k % 41 == 7)
            gi = impl_get_rms(f, y, b, iscsd)
            r = ctx.driver.ask(f"ggetrms {1 if iscsd else 0} " + C.arr(f) + " " + C.arr(y) + band_tokens(b))
            gg: Any = "RAISE" if r == "RAISE" else (C.h2f(r) if not r.startswith("ERR") else r)
            P.cases += 1
            P.hit("gen-get_rms")
            if b is not None and b[0] > b[1]:
                P.hit("gen-get_rms-swapped-band")
            if gi == "RAISE" or gg == "RAISE" or isinstance(gg, str):
                P.hit("gen-get_rms-raise")
                if gi != gg:
                    gen_disagree(P, {"op": "ggetrms", **base, "band": b, "iscsd": iscsd, "impl": gi, "generated": gg})
            elif not same_float(gi, gg):
                gen_disagree(P, {"op": "ggetrms", **base, "band": b, "iscsd": iscsd, "impl": gi, "generated": gg})
            elif gi > 0:
                P.nontrivial.add(("gen-get_rms", n, gk, mode, variant))
    # ---- polynomial_detrend: order 0 on the series above (bit-level: same mean? np.mean sums pairwise -> tolerance), orders 1..5 with
    #      NumPy's polyfit coefficients supplied as the contract parameter, rejected inputs
    extra = [(np.asarray(make_series(int(crng.integers(0, 2 ** 62)), int(n_), SERIES_KINDS[int(crng.integers(0, len(SERIES_KINDS)))]), dtype=np.float64), "short")
             for n_ in (1, 1, 2, 2, 3, 3, 4, 5, 6, 7)]
    for k, (x, kind) in enumerate(list(det_cases) + extra):
        if ctx.time_left() < 20:
            break
        n = len(x)
        amax = float(np.max(np.abs(x))) if n else 0.0
        orders = [0, int(crng.integers(1, 6))] + ([1, 2, 3, 4, 5] if kind == "short" else []) + ([-1] if k % 10 == 0 else [])
        tab = polyfit_table(x, 5)
        for order in orders:
            try:
                with warnings.catch_warnings():
                    warnings.simplefilter("ignore")
                    di: Any = np.asarray(polynomial_detrend(x, order), dtype=np.float64)
            except ValueError:
                di = "RAISE"
            r = ctx.driver.ask("gdetrend " + C.arr(x) + f" {order} {len(tab)} " + " ".join(C.arr(c) for c in tab))
            P.cases += 1
            P.hit(f"gen-detrend-order-{order}")
            if n < order + 1:
                P.hit("gen-detrend-short-series")
            if r == "RAISE" or r.startswith("ERR") or isinstance(di, str):
                if not (r == "RAISE" and isinstance(di, str)):
                    gen_disagree(P, {"op": "gdetrend", "x": x.tolist(), "order": order, "impl": di if isinstance(di, str) else di.tolist(), "generated": r[:200]})
                else:
                    P.hit("gen-detrend-raise")
                continue
            dg_ = np.array([C.h2f(v) for v in r.split()[1:]])
            # order 0: sequential (generated Arr.mean) vs pairwise (np.mean) summation; orders >= 1: identical Horner + subtraction on NumPy's own
            # coefficients, evaluated on integer abscissae (NumPy multiplies by the int array converted to float: same values)
            # (measured: orders >= 1 bit-identical, order 0 within 65 u max|x| for n <= 400)
            tol = 8 * U * (n + 2) * amax if order == 0 else 8 * U * (amax + float(np.max(np.abs(x - di)))) + 1e-300
            if dg_.shape != di.shape or not np.all(np.abs(di - dg_) <= tol):
                gen_disagree(P, {"op": "gdetrend", "x": x.tolist(), "order": order, "impl": di.tolist(), "generated": dg_.tolist(), "tol": tol})
            elif n >= 2 and float(np.ptp(x)) > 0:
                P.nontrivial.add(("gen-detrend", n, kind, order))
    P.notes.append(f"generated-code differential (region Rms): {t_start - ctx.time_left():.1f}s")


# =====================================================================================================================
#  oracle
# =====================================================================================================================
def corpus(P: C.Part) -> None:
    """No failure of C19 is on record for the unchanged tree (DESIGN §3: holds in sampling). The corpus therefore holds the concrete
    witness of the C19-d subtlety (off-grid split loses the straddling panel) and the smallest structural cases."""
    f = np.array([1.0, 2.0, 4.0, 8.0])
    y = np.array([1.0, 2.0, 3.0, 1.0])
    for band in [None, (2.0, 8.0), (1.0, 1.0), (2.5, 3.5), (3.0, 5.0), (0.0, 1.0), (8.0, 9.0), (-1.0, 0.5), (1.0, 2.0)]:
        rms_eval(P, f, y, "spec", [band], tag="corpus")
    rms_eval(P, f, y, "split", [1.0, 4.0, 8.0], tag="corpus")     # on grid: additive
    rms_eval(P, f, y, "split", [1.0, 3.0, 8.0], tag="corpus")     # off grid: panel [2,4] (power 13) lost from both parts
    rms_eval(P, f, y, "split", [1.0, 1.0, 8.0], tag="corpus")
    rms_eval(P, f, y, "split", [1.0, 8.0, 8.0], tag="corpus")
    rms_eval(P, f, y, "mono", [(2.0, 4.0), (1.5, 4.5)], tag="corpus")
    rms_eval(P, np.array([3.0]), np.array([2.0]), "spec", [None], tag="corpus")
    rms_eval(P, np.array([3.0]), np.array([2.0]), "spec", [(0.0, 10.0)], tag="corpus")
    for x, p in [([5.0], 0), ([5.0], 3), ([1.0, 4.0], 1), ([1.0, 4.0], 5), ([1.0, 2.0, 4.0], 0), ([0.0, 1.0, 4.0, 9.0, 16.0], 2),
                 ([0.1, 0.1, 0.1], 0), ([0.0, 0.0, 0.0, 0.0], 2), ([3.0, -1.0, 2.0, 7.0, 1.0, -4.0, 0.5], 5)]:
        detrend_eval(P, np.array(x), p, {"x": x})


def oracle(ctx, intensive: bool = False, hints=()) -> C.Part:
    _quiet()
    P = C.Part()
    rng = ctx.rng
    mult = 4 if intensive else 1
    MARGIN.clear()
    corpus(P)

    # -- inputs on which the model and the code disagreed (if any)
    for h in list(hints)[:20]:
        try:
            if h.get("op") == "rms":
                f, y = np.array(h["f"], dtype=np.float64), np.array(h["y"], dtype=np.float64)
                if np.all(np.diff(f) >= 0) and (h.get("band") is None or h["band"][0] <= h["band"][1]):
                    rms_eval(P, f, y, "spec", [h.get("band")], tag="hint")
                    rms_grid_checks(P, rng, f, y, "hint", 6)
            elif h.get("op") == "detrend0":
                detrend_eval(P, np.array(h["x"], dtype=np.float64), 0, {"x": h["x"]})
        except Exception as ex:
            P.notes.append(f"hint not usable: {ex!r}"[:120])

    # -- (1) polynomial_detrend
    nser = ctx.scale(300, 3000) * mult
    for i in range(nser):
        if ctx.time_left() < 60 or len(P.violations) >= MAX_VIOL:
            break
        if i < 48:
            n = [1, 2, 3, 4, 5, 6, 7, 8][i % 8]                    # around order+1 for every order
        elif i % 25 == 0:
            n = int(rng.choice([5000, 12345, 20000]))
        else:
            n = int(rng.integers(9, 2001))
        p = (i // 8) % 6 if i < 48 else int(rng.integers(0, 6))
        kind = SERIES_KINDS[i % len(SERIES_KINDS)]
        cs = int(rng.integers(0, 2 ** 62))
        x = make_series(cs, n, kind)
        detrend_eval(P, x, p, {"gen": {"case_seed": cs, "n": n, "series": kind}}, as_list=(i % 7 == 3 and n <= 500))
        if i in (50, 51):
            P.sample({"op": "detrend", "n": n, "order": p, "series": kind}, cap=8)
    npoly = ctx.scale(120, 1200) * mult
    for i in range(npoly):
        if ctx.time_left() < 55 or len(P.violations) >= MAX_VIOL:
            break
        n = int(rng.choice([1, 2, 3, 5, 6, 7, 20, int(rng.integers(8, 2001)), int(rng.integers(8, 2001))])) if i % 30 else 20000
        p = int(rng.integers(0, 6))
        q = int(rng.integers(0, p + 1))
        coeffs = (rng.standard_normal(q + 1) * 10 ** rng.uniform(-3, 3, q + 1)).tolist()
        if coeffs[q] == 0.0:
            coeffs[q] = 1.0
        poly_eval(P, n, p, coeffs)

    # -- (2) df_detrend
    ndf = ctx.scale(100, 1000) * mult
    for i in range(ndf):
        if ctx.time_left() < 50 or len(P.violations) >= MAX_VIOL:
            break
        spec = gen_df_spec(rng, i)
        df_eval(P, spec)
        if i == 2:
            P.sample({"op": "df_detrend", **spec}, cap=9)

    # -- (3) integral_rms
    ngrid = ctx.scale(200, 2000) * mult
    for i in range(ngrid):
        if ctx.time_left() < 45 or len(P.violations) >= MAX_VIOL:
            break
        n = (i % 6) + 1 if i < 24 else (int(rng.integers(7, 2001)) if i % 4 else int(rng.integers(7, 60)))
        gk = GRID_KINDS[i % len(GRID_KINDS)]
        f = gen_grid(rng, n, gk)
        y = gen_asd(rng, f, ASD_KINDS[(i // len(GRID_KINDS)) % len(ASD_KINDS)])
        rms_grid_checks(P, rng, f, y, gk, nbands=6)
        if i == 30:
            P.sample({"op": "integral_rms", "n": len(f), "grid": gk, "f[:3]": f[:3].tolist(), "asd[:3]": y[:3].tolist()}, cap=10)

    # -- (4)+(5) get_rms on computed results, Parseval probe
    nres = ctx.scale(24, 200) * mult
    devs: Dict[str, List[float]] = {"white": [], "red": []}
    cross_probe(P, rng)
    for i in range(nres):
        if ctx.time_left() < 25 or len(P.violations) >= MAX_VIOL:
            P.notes.append(f"result stream stopped after {i} records (time budget)")
            break
        spec = gen_result_spec(rng, i, ctx.thorough)
        dev = result_eval(P, spec)
        if dev is not None:
            devs[spec["noise"]].append(dev)
    for k, v in devs.items():
        if v:
            P.notes.append(f"Parseval probe, {k} noise: {len(v)} records, deviation full-band RMS / time-domain RMS - 1 in "
                           f"[{100 * min(v):+.2f} %, {100 * max(v):+.2f} %], threshold {100 * PARSEVAL_THR[k]:.0f} %")
    P.notes.append("worst observed fraction of the allowed tolerance: " + ", ".join(f"{k} {v:.2g}" for k, v in sorted(MARGIN.items())))
    return P


# =====================================================================================================================
#  replay
# =====================================================================================================================
def replay(ctx, data) -> C.Part:
    _quiet()
    P = C.Part()
    for v in data.get("violations", []):
        r = v["replay"]
        k = r.get("kind")
        if k == "rms":
            rms_eval(P, np.array([_f(t) for t in r["f"]]), np.array([_f(t) for t in r["y"]]), r["check"], r["args"], int(r.get("variant", 0)), tag="replay")
        elif k == "detrend":
            if "x" in r:
                x = np.array(r["x"])
            else:
                g = r["gen"]
                x = make_series(int(g["case_seed"]), int(g["n"]), g["series"])
            detrend_eval(P, x, int(r["order"]), {kk: r[kk] for kk in ("x", "gen") if kk in r}, as_list=bool(r.get("as_list", False)))
        elif k == "poly":
            poly_eval(P, int(r["n"]), int(r["order"]), r["coeffs"])
        elif k == "df":
            df_eval(P, {kk: r[kk] for kk in ("case_seed", "n", "order", "columns", "inplace", "suffix")})
        elif k == "result":
            result_eval(P, {kk: r[kk] for kk in ("rec_seed", "N", "fs", "noise", "amp", "cfg")})
        else:
            P.notes.append(f"unknown replay kind {k!r}")
    return P
