"""C19 — time-domain detrending and RMS integration are exact and mutually consistent.

Sub-claims (DESIGN §4 C19):
  a  polynomial_detrend(x, p): residual orthogonal to every polynomial of degree <= p, polynomials of degree <= p go to 0,
     idempotent, what is removed is itself a polynomial of degree <= p (so D = I - P, the orthogonal projection, and nothing else), order 0 = exact mean removal, short series (len < p+1) fall back to order len-1; df_detrend = the same per
     selected numeric column.
  b  integral_rms(f, asd, band) = sqrt(trapezoid sum of asd^2 over the grid points inside the band); 0 with < 2 points;
     band=None = full span;  SpectrumResult.get_rms(band) = integral_rms(result.f, result.asd, sorted band).
  c  monotone under band nesting.
  d  power additive over adjacent bands when the split point IS a grid frequency; super-additive for any other split point
     (the panel straddling the split is lost from both parts) — plain additivity is false off-grid and is never demanded here.
  e  Parseval (statistical, not decided by theorem): full-band RMS of a computed ASD vs the time-domain RMS.

Every oracle run also sweeps (i) SIZES — detrend / df_detrend / integral_rms at 70 001 and 1 100 003 points and around every integer constant mined
from the current speckit/dsp.py, with ASD arrays containing exact zeros / zero runs / tiny / huge values and unsorted or duplicate grids — and
(ii) analysis OPTIONS — get_rms on results of every (backend, order) pair, entry point, scheduler (incl. two user callables), overlap form, window,
layout, auto and cross, single-bin results, second calls (functions detrend_long, rms_sized, option_sweep).
"""
from __future__ import annotations

import contextlib
import ctypes
import logging
import math
import warnings
from typing import Any, Dict, List, Optional, Tuple

import numpy as np

from .. import common as C

PROP = "C19"
GEN_REGIONS: List[str] = ["Rms", "DfWrappers", "GlobalState"]
THEOREMS = {
    "SpecKitV.Lemmas.Rms": ["trapz_sq_nonneg", "trapz_append", "integralRms_spec", "integralRms_none", "rms_monotone",
                            "rms_additive_at_grid", "rms_superadditive", "detrend0_sum_zero", "detrend0_const", "detrend0_idem"],
    "SpecKitV.Lemmas.Detrend": ["detr_poly_kills_span", "detr_poly_orthogonal", "detr_poly_idempotent", "detr_linear"],
    # region Rms (vk/regions/rms.py -> Gen/Rms.lean): crop_data, integral_rms, polynomial_detrend, SpectrumResult.get_rms TRANSLATED from
    # the current source and proved equal to the hand model; the property theorems above restated for the translated code
    "SpecKitV.Props.RmsGen": ["gen_crop_data_eq_model", "gen_integral_rms_eq_model", "gen_integral_rms_eq_model_list", "gen_integral_rms_rejects",
                              "gen_integral_rms_inverted", "gen_integral_rms_inf_inf", "gen_integral_rms_ninf", "gen_integral_rms_pinf",
                              "gen_integral_rms_one_point", "gen_get_rms_eq_integral_rms", "gen_get_rms_none", "gen_get_rms_csd",
                              "gen_get_rms_nonfinite", "gen_get_rms_eq_model", "gen_integralRms_spec", "gen_integralRms_none", "gen_rms_monotone",
                              "gen_rms_additive_at_grid", "gen_rms_superadditive", "gen_detrend0_eq_model", "gen_detrend_rejects",
                              "gen_detrend_poly_structure", "gen_detrend0_sum_zero", "gen_detrend0_idem", "gen_detrend0_const",
                              "RmsGen.lsPolyfit_contract", "gen_detrend_orthogonal", "gen_detrend_kills_poly", "gen_detrend_short_zero",
                              "gen_detrend_idempotent", "gen_detrend_eq_detr"],
    # region DfWrappers (vk/regions/df_wrappers.py -> Gen/DfWrappers.lean): dsp.df_detrend translated WHOLE on a value model of frames in a Python
    # object store, proved equal to the hand model Model/DfWrappers.lean for every input; per-column transfer of the RmsGen theorems
    "SpecKitV.Props.DfWrappersGen": ["gen_df_detrend_eq_model", "gen_df_detrend_spec", "gen_df_detrend_input_untouched", "gen_df_detrend_rejects_iff",
                                     "gen_df_detrend_column_props", "gen_df_detrend_column_order0", "gen_df_detrend_defaults",
                                     "DfAux.col?_setCol", "DfAux.names_setCol"],
    # no state outlives a call in the files this property is anchored in (no module/class-level containers, memoisers, mutable defaults) and the
    # decorators are exactly the audited ones (region GlobalState, re-scanned from the current source each run)
    "SpecKitV.Props.GlobalStateGen": ["GlobalStateGen.gen_globalState_dsp"],
}
CONTRACTS = ["np.polyfit(t, x, deg) returns the least-squares polynomial of degree deg on the abscissae t = 0..len-1 (orders >= 1 of "
             "polynomial_detrend are not modelled beyond this contract: the projection facts are proved for ANY orthonormal basis of the "
             "polynomial space; order 0 is modelled exactly)",
             "scipy.integrate.cumulative_trapezoid(y, x, initial=0)[-1] = sum of (x[i+1]-x[i])*(y[i]+y[i+1])/2 (tied by correspondence to Model.trapz)",
             # contracts of the translated region Rms: Lean DEFINITIONS in lean/SpecKitV/Np/Rms.lean (exercised by the generated-vs-real differential run)
             "Np.Rms.XR / XR.lt,le,gt,ge,neg,isFinite = a Python float that may be +-inf (np.inf, -np.inf, np.isfinite) with IEEE comparisons; NaN is outside the model",
             "Np.Rms.pyMax / pyMin / XR.pyMax / XR.pyMin = Python builtins max(a, b) = (b if b > a else a), min(a, b) = (b if b < a else a) on two floats",
             "Np.Rms.npMin / npMax = np.min(a) / np.max(a) over the WHOLE array in whatever order it is",
             "Np.Rms.compress mask a = boolean-mask selection a[mask] (len(mask) == len(a)): the selected elements in their original order",
             "Np.Rms.cumtrapz y x c = scipy.integrate.cumulative_trapezoid(y, x, initial=c) for 1-D arrays of equal length >= 1: element 0 is c, element k the "
             "left-to-right sum of the first k panels (x[i+1]-x[i])*(y[i+1]+y[i])/2; the code reads [-1] (Np.pyIndex)",
             "Np.Rms.polyval p t = np.polyval(p, t): Horner, highest power first (proved = sum p[k] t^(len(p)-1-k): RmsGen.polyval_get)",
             "Arr.mean = np.mean (left-to-right sum / length; NumPy sums pairwise: rounding only)",
             "np.polyfit is a PARAMETER `polyfit` of Gen.polynomial_detrend (Option-valued: none = it raises); assumed of it (RmsGen.PolyfitLS, only in the "
             "theorems about orders >= 1): on t = 0..n-1 and deg < n it does not raise and returns deg+1 coefficients whose residual is orthogonal to "
             "1, t, .., t^deg (normal equations of the least-squares fit); the contract is proved consistent (RmsGen.lsPolyfit_contract) and in the "
             "differential run the driver answers `polyfit` with NumPy's own coefficients (or `raises` where NumPy's polyfit raises)",
             # region DfWrappers (lean/SpecKitV/Np/DfWrappers.lean): pandas operations as Lean DEFINITIONS on a value model of frames (driver op gdfdt)
             "NpDf.Frame / Col / Heap: a DataFrame = ordered columns (label, dtype.kind, one value per row; non-numeric values are opaque tokens) + row count + "
             "row index, a MUTABLE object of a Python object store; NpDf.copy = df.copy() (new object, same value); duplicate / non-string labels and complex "
             "columns are outside the model",
             "NpDf.Frame.empty = df.empty; Frame.names = df.columns.tolist(); Frame.hasCol = `c in df.columns`; NpDf.getitem = df[c] (.kind = dtype.kind, .vals = "
             ".values); NpDf.kindIn k [chars] = `k in \"chars\"`; NpDf.forEach = a for-loop whose body may update the object store or raise",
             "NpDf.setitem / Frame.setCol = `df[c] = ndarray`: update-or-append with pandas' order rule, positional, ValueError unless the lengths agree, stored "
             "dtype kind 'f'; `polynomial_detrend(df[col].values, order=order)` inside df_detrend is a CALL of the translated Gen.polynomial_detrend (np.polyfit "
             "stays its contract parameter; in the differential run the driver answers it from NumPy's coefficients for the array nearest to the one asked about)"]
ASSUMPTIONS = ["theorems are over the reals; floating-point rounding is covered by the stated tolerances (forward bounds scaled by the data), not by theorem",
               "the RMS property theorems (spec, monotone, additive, super-additive) assume a strictly increasing frequency grid; for EVERY grid (unsorted, "
               "duplicates) translated code = hand model is proved (gen_integral_rms_eq_model) and the real code is tied to both by the differential runs",
               "'full-band RMS reproduces the time-domain RMS within a few percent' is statistical and grid dependent: support run only "
               "(threshold 15 % white / 35 % low-pass coloured, measured worst case on the unchanged tree 3.1 % / 10.3 % over 360 records)",
               "additivity of power is demanded only for split points that are grid frequencies; elsewhere only super-additivity (DESIGN C19-d)",
               "UNSORTED grids (oracle check 'uspec'): 'the trapezoidal integral over the grid points inside the band' is taken in the STORED order of the "
               "points (signed panels; Model.integralRms, equal to the translated code for every grid: gen_integral_rms_eq_model); a negative signed sum "
               "gives NaN, a sum within the rounding budget of 0 is counted as unstable; monotonicity / additivity are not demanded there",
               "cross-spectral results have asd = None and get_rms raises NotImplementedError before reading it (gen_get_rms_csd); the oracle reports a "
               "NUMBER returned for a cross result (there is no ASD whose integral it could be) and only records any other exception type; get_rms "
               "rejects non-finite band edges with ValueError (gen_get_rms_nonfinite): recorded, not judged",
               "option sweep: 'full-band RMS agrees between the NumPy and the Numba backend under identical options' is not part of the C19 text; it is "
               "the consequence of C01/C05 (all kernels compute the same estimator) that makes the statistical Parseval claim sharp per (backend, order): "
               "budget = sum over bins of trapezoid weight x (G/XX) x the C01/C05 forward bound of XX (_an.bin_tol with a <= max|x| sqrt(S12)); "
               "'second call on the same analyzer / input array gives bit-identical f, asd and RMS and leaves the input untouched' is demanded because "
               "both calls run the same code path on the same data (measured: bit-identical on the unchanged library for every backend / order / scheduler)",
               "Parseval per (backend, order): records = noise + offset / line / parabola that the detrending order removes exactly from every segment; the "
               "reference is the time-domain std of the noise part; configurations restricted to those on which the thresholds were measured (PARS_CFGS)",
               "performance only: the sweep streams run with the loaded OpenBLAS limited to one thread (restored afterwards); no predicate depends on it"]
RULE = ("detrend: (series kind incl. offset/trend/walk/int/const/zero, length 1..2000 (a few to 20000), order 0..5, list/array input); "
        "df_detrend: (frame with float/int/str/datetime columns and a shuffled index, column selection, order, inplace, suffix); "
        "rms: (grid kind lin/log/random/duplicates, size 1..2000, asd shape, band mode none/inside/partly/fully outside/on-grid/between/"
        "one-point/degenerate/infinite; nested pairs; on-grid and off-grid split points); get_rms: real computed results x bands incl. swapped; "
        "distinct by (sub-claim, size, kind, order/band mode); non-trivial = length > order+1 with a non-zero residual (detrend), "
        ">= 2 grid points inside the band with positive power (rms); "
        "SIZE sweep (every run): detrend / df_detrend at 70 001 and 1 100 003 samples and at c-1, c, c+1, c+17, 2c+3 around every integer constant "
        "mined from the CURRENT speckit/dsp.py (C.mined_sizes) for orders 0..5; integral_rms on generated grids of 70 001 and 1 100 003 points "
        "(sorted kinds, duplicates, and an unsorted one) and around the mined constants, ASD kinds with exact zeros / zero runs / ideal band-pass / "
        "tiny (1e-120) / huge (1e+140) / mixed values, bands with edges on zero-valued grid points, at block boundaries and in the last points; "
        "OPTION sweep (every run): get_rms on results of every (backend in {numpy, numba|auto}) x (order -1, 0, 1, 2) pair, entry points "
        "SpectrumAnalyzer.compute / compute_spectrum / lpsd / compute_single_bin (method and module level, L= and fres=), schedulers lpsd, ltf, "
        "vectorized_ltf, new_ltf, a fixed-length Welch callable and a callable repeating segment lengths (b, 4b, b, b-1, 4b, b+1 ..), overlap "
        "requested as 'default' / float / 0.0 / 0.9995, windows Kaiser(psll) / hann / callable / constructor default, array and list input, auto "
        "and cross (2xN, Nx2, list) results, second call on the same analyzer and the same input array")

U = 2.0 ** -53
DETREND_REL = 1e-9          # per-sample error of polyfit+polyval relative to rms(x): theory <~ 2e-11 (see final note), measured <= 1.1e-12
PARSEVAL_THR = {"white": 0.15, "red": 0.35}
MAX_VIOL = 12


def _quiet() -> None:
    for name in ("speckit", "speckit.dsp", "speckit.analysis", "speckit.schedulers"):
        logging.getLogger(name).setLevel(logging.CRITICAL + 10)


def _f(v: Any) -> float:
    """floats survive JSON as numbers or as repr strings ('inf', '-inf', 'nan')"""
    return float(v)


def _band_in(b: Any) -> Optional[Tuple[float, float]]:
    return None if b is None else (_f(b[0]), _f(b[1]))


MARGIN: Dict[str, float] = {}


def within(key: str, val: float, tol: float) -> bool:
    """val <= tol, remembering the worst observed fraction of the allowance per kind of check (reported in the evidence notes)"""
    if tol > 0 and val == val:
        MARGIN[key] = max(MARGIN.get(key, 0.0), val / tol)
    return val <= tol


def add_violation(P: C.Part, what: str, signature: Dict[str, Any], replay: Dict[str, Any]) -> None:
    if len(P.violations) < MAX_VIOL:
        P.violations.append(C.Violation(what=what, signature=signature, replay=replay))


# =====================================================================================================================
#  RMS: generators, the independent reference, evaluation of single claims
# =====================================================================================================================
GRID_KINDS = ["lin", "lin0", "log", "rand", "randlog", "dup", "sym"]
ASD_KINDS = ["white", "powerlaw", "lognormal", "zeros", "spikes"]
ASD_ZERO_KINDS = ["zero_runs", "bandpass", "isolated_zeros", "mixed", "zeros"]         # arrays containing EXACT zeros
ASD_KINDS_X = ASD_KINDS + ["zero_runs", "bandpass", "isolated_zeros", "tiny", "huge", "mixed"]   # oracle streams (the correspondence keeps ASD_KINDS)
BAND_MODES = ["none", "inside", "left_out", "right_out", "cover", "outside_left", "outside_right", "grid_grid", "grid_in", "in_grid",
              "between", "one_point", "degenerate", "degenerate_grid", "inf_left", "inf_right"]


def gen_grid(rng: np.random.Generator, n: int, kind: str) -> np.ndarray:
    if kind == "lin":
        f = 10 ** rng.uniform(-4, 2) + 10 ** rng.uniform(-4, 1) * np.arange(n)
    elif kind == "lin0":
        f = 10 ** rng.uniform(-4, 1) * np.arange(n)
    elif kind == "log":
        f = 10 ** rng.uniform(-5, 1) * 10 ** (rng.uniform(0.5, 6) * np.arange(n) / max(n - 1, 1))
    elif kind == "rand":
        f = np.sort(rng.uniform(0, 100, n))
    elif kind == "randlog":
        f = np.sort(10 ** rng.uniform(-4, 3, n))
    elif kind == "sym":
        f = np.sort(rng.uniform(-50, 50, n))
    elif kind == "dup":
        f = np.sort(rng.choice(rng.uniform(0, 10, max(1, n // 2 + 1)), n))
        return f.astype(np.float64)
    elif kind == "unsorted":
        f = rng.permutation(10 ** rng.uniform(-3, 2, n))
        return f.astype(np.float64)
    else:
        raise ValueError(kind)
    return np.unique(f.astype(np.float64))          # strictly increasing


def gen_asd(rng: np.random.Generator, f: np.ndarray, kind: str) -> np.ndarray:
    n = len(f)
    if kind == "white":
        y = np.full(n, 10 ** rng.uniform(-6, 3))
    elif kind == "powerlaw":
        y = 10 ** rng.uniform(-3, 2) * (np.abs(f) + 1e-3) ** (-rng.uniform(0, 2)) * np.exp(0.3 * rng.standard_normal(n))
    elif kind == "lognormal":
        y = 10 ** rng.uniform(-3, 3, n)
    elif kind == "zeros":
        y = 10 ** rng.uniform(-2, 2, n) * (rng.random(n) < 0.6)
    elif kind == "zero_runs":                        # runs of EXACT zeros (also at the first / last grid points) between positive stretches
        y = 10 ** rng.uniform(-2, 2, n)
        nruns = int(rng.integers(1, 6))
        for _ in range(nruns):
            a = int(rng.integers(0, n))
            y[a:a + int(rng.integers(1, max(2, n // 3)))] = 0.0
        if rng.random() < 0.5:
            y[:int(rng.integers(1, max(2, n // 10 + 1)))] = 0.0
        if rng.random() < 0.5:
            y[n - int(rng.integers(1, max(2, n // 10 + 1))):] = 0.0
    elif kind == "bandpass":                         # ideal multi-band model spectrum: constant in two index ranges, exactly 0 elsewhere
        y = np.zeros(n)
        for lvl in (3.0, 1.5):
            a = int(rng.integers(0, n))
            y[a:a + int(rng.integers(1, max(2, n // 4)))] = lvl * 10 ** rng.uniform(-2, 2)
    elif kind == "isolated_zeros":                   # positive everywhere except single notched bins
        y = 10 ** rng.uniform(-1, 1, n)
        y[rng.integers(0, n, size=max(1, n // 15))] = 0.0
    elif kind == "tiny":                             # asd^2 ~ 1e-240 .. 1e-200: far below 1 but normal numbers (no denormals)
        y = 10 ** rng.uniform(-120, -100, n)
    elif kind == "huge":                             # asd^2 ~ 1e+200 .. 1e+280; spans here are <= 1e8, so power < 1e+290: no overflow
        y = 10 ** rng.uniform(100, 140, n)
    elif kind == "mixed":                            # 260 decades of dynamic range in one array, with exact zeros
        y = 10 ** rng.uniform(-120, -100, n)
        y[rng.integers(0, n, size=max(1, n // 7))] = 10 ** rng.uniform(100, 130)
        y[rng.integers(0, n, size=max(1, n // 9))] = 0.0
    elif kind == "spikes":
        y = np.full(n, 1e-3)
        y[rng.integers(0, n, size=max(1, n // 20))] = 1e3
    else:
        raise ValueError(kind)
    return y.astype(np.float64)


def pick(rng: np.random.Generator, f: np.ndarray) -> float:
    """a frequency strictly inside a random panel of the (sorted) grid, uniform in index space"""
    n = len(f)
    if n < 2:
        return float(f[0] + rng.uniform(-1, 1))
    i = int(rng.integers(0, n - 1))
    return float(f[i] + rng.uniform(0.05, 0.95) * (f[i + 1] - f[i]))


def gen_band(rng: np.random.Generator, f: np.ndarray, mode: str) -> Optional[Tuple[float, float]]:
    n = len(f)
    fmin, fmax = float(f[0]), float(f[-1])
    span = (fmax - fmin) if fmax > fmin else 1.0
    below = lambda: fmin - rng.uniform(0.01, 2.0) * span
    above = lambda: fmax + rng.uniform(0.01, 2.0) * span
    if mode == "none":
        return None
    if mode == "inside":
        a, b = sorted((pick(rng, f), pick(rng, f)))
    elif mode == "left_out":
        a, b = below(), pick(rng, f)
    elif mode == "right_out":
        a, b = pick(rng, f), above()
    elif mode == "cover":
        a, b = below(), above()
    elif mode == "outside_left":
        a, b = sorted((below(), below()))
    elif mode == "outside_right":
        a, b = sorted((above(), above()))
    elif mode == "grid_grid":
        i, j = sorted(int(v) for v in rng.integers(0, n, size=2))
        a, b = float(f[i]), float(f[j])
    elif mode == "grid_in":
        a, b = float(f[int(rng.integers(0, n))]), pick(rng, f)
        if a > b:
            b = above()
    elif mode == "in_grid":
        a, b = pick(rng, f), float(f[int(rng.integers(0, n))])
        if a > b:
            a = below()
    elif mode == "between":
        if n < 2:
            a, b = sorted((above(), above()))
        else:
            i = int(rng.integers(0, n - 1))
            u, v = sorted(rng.uniform(0.1, 0.9, 2))
            a, b = float(f[i] + u * (f[i + 1] - f[i])), float(f[i] + v * (f[i + 1] - f[i]))
    elif mode == "one_point":
        i = int(rng.integers(0, n))
        lo = f[i - 1] if i > 0 else fmin - span
        hi = f[i + 1] if i + 1 < n else fmax + span
        a, b = float(f[i] - 0.5 * (f[i] - lo)), float(f[i] + 0.5 * (hi - f[i]))
    elif mode == "degenerate":
        a = b = pick(rng, f)
    elif mode == "degenerate_grid":
        a = b = float(f[int(rng.integers(0, n))])
    elif mode == "inf_left":
        a, b = -math.inf, pick(rng, f)
    elif mode == "inf_right":
        a, b = pick(rng, f), math.inf
    else:
        raise ValueError(mode)
    if a > b:
        a, b = b, a
    return (float(a), float(b))


def inside_mask(f: np.ndarray, band: Optional[Tuple[float, float]]) -> np.ndarray:
    if band is None:
        return np.ones(len(f), dtype=bool)
    return (f >= band[0]) & (f <= band[1])


def ref_power(f: np.ndarray, y: np.ndarray, band: Optional[Tuple[float, float]]) -> Tuple[float, int]:
    """the property's definition, computed independently of the code under test: exactly-rounded sum of the trapezoid panels of
    asd^2 over the grid points inside the band (0 with fewer than two of them). Returns (power, number of points inside)."""
    m = inside_mask(f, band)
    fc, yc = f[m], y[m]
    if len(fc) < 2:
        return 0.0, int(len(fc))
    panels = (fc[1:] - fc[:-1]) * (yc[1:] * yc[1:] + yc[:-1] * yc[:-1]) / 2.0
    if len(panels) > 100000:
        # long grids: NumPy's pairwise sum of NON-NEGATIVE terms in extended precision (error <= ~40 u relative even where long double is a
        # plain double) instead of the exactly rounded fsum over a Python list; the predicate's allowance is 8 (n + 10) u >= 8e5 u there
        return float(np.sum(panels, dtype=np.longdouble)), int(len(fc))
    return math.fsum(panels.tolist()), int(len(fc))


def rel_tol(n: int) -> float:
    """relative rounding budget of a power (square of the returned RMS) on a sorted grid: every panel is >= 0, so there is no cancellation;
    per panel <= 6 roundings, running sum of m <= n terms <= (m-1)u, sqrt and re-squaring 3u  ->  (n+10)u; 8x margin"""
    return 8.0 * (n + 10) * U


GUARD = 1e-280      # absolute guard against denormal effects only (powers generated here are >= 1e-20 or exactly 0)


def impl_rms(f: Any, y: Any, band: Any) -> float:
    from speckit.dsp import integral_rms
    with warnings.catch_warnings():
        warnings.simplefilter("ignore")
        return integral_rms(f, y, band)


def rms_eval(P: C.Part, f: np.ndarray, y: np.ndarray, check: str, args: List[Any], variant: int = 0, tag: str = "",
             origin: Optional[Dict[str, Any]] = None, fn: Any = None) -> None:
    """evaluate ONE claim on the real integral_rms. check/args:
         spec     [band]                 rms^2 = trapezoid sum over the grid points inside the band; 0 with < 2 points
         mono     [inner, outer]         inner within outer  =>  rms(inner) <= rms(outer)
         split    [a, m, b]              additive when m is a grid frequency, super-additive otherwise
         uspec    [band]                 UNSORTED grid: rms^2 = the signed trapezoid sum over the grid points inside the band IN THEIR STORED ORDER
                                         (Model.integralRms; gen_integral_rms_eq_model is proved for every grid); NaN when that sum is negative
       variant selects the container types handed to the function (glue): 0 arrays, 1 lists + list band, 2 arrays + np band.
       origin: a generator spec ({"kind": "rmsgen" | "ocase", ...}) stored in the replay INSTEAD of the arrays (grids of 1e6 points; results
       of an analysis); fn: a callable band -> rms used instead of integral_rms (SpectrumResult.get_rms of a result whose f / asd are f, y)."""
    n = len(f)
    rel = rel_tol(n)
    fin, yin = (f.tolist(), y.tolist()) if variant == 1 else (f, y)

    def conv(b):
        if b is None:
            return None
        return [b[0], b[1]] if variant == 1 else (np.array([b[0], b[1]]) if variant == 2 else (b[0], b[1]))

    def call(b) -> float:
        if fn is not None:
            return float(fn(b))
        return float(impl_rms(fin, yin, conv(b)))

    if origin is not None:
        rp = dict(origin, check=check, args=args, variant=variant)
    else:
        rp = {"kind": "rms", "f": f.tolist(), "y": y.tolist(), "check": check, "args": args, "variant": variant}
    if check not in ("spec", "mono", "split", "uspec"):
        raise ValueError(check)
    P.cases += 1
    P.hit(f"rms-{check}")
    who = "integral_rms" if fn is None else "get_rms"
    try:
        if check == "uspec":
            band = _band_in(args[0])
            msk = inside_mask(f, band)
            fc, yc = f[msk], y[msk]
            npts = int(len(fc))
            if npts >= 2:
                panels = ((fc[1:] - fc[:-1]) * (yc[1:] * yc[1:] + yc[:-1] * yc[:-1]) / 2.0).tolist()
                ref, area = math.fsum(panels), math.fsum(abs(q) for q in panels)
            else:
                ref = area = 0.0
            v = call(band)
            P.hit(f"uband-{tag}" if tag else "uband-?")
            tol = rel * area + GUARD                   # signed panels cancel: the rounding budget is relative to the sum of |panels|
            if npts < 2:
                if v != 0.0:
                    add_violation(P, f"{who} = {v!r} for band {band} containing {npts} point(s) of an unsorted grid; must be 0", {"sub": "rms-unsorted", "what": "lt2-points"}, rp)
                return
            if abs(ref) <= tol:
                P.unstable += 1                        # the sign of the signed area is not decided within rounding
                return
            if ref < 0:
                P.hit("uspec-negative-signed-area")
                if not math.isnan(v):
                    add_violation(P, f"{who} = {v!r} for band {band} on an unsorted grid whose signed trapezoid sum (stored order, {npts} points inside) is "
                                     f"{ref!r} < 0: the square root of the trapezoidal integral is NaN; n={n}", {"sub": "rms-unsorted", "what": "negative-area"}, rp)
                return
            P.nontrivial.add(("rms-uspec", n, tag, npts))
            if not (math.isfinite(v) and v >= 0.0) or not within("rms-uspec", abs(v * v - ref), tol):
                add_violation(P, f"{who}^2 = {v * v!r} but the trapezoid sum of asd^2 over the {npts} points inside band {band} (stored order of the "
                                 f"unsorted grid) is {ref!r} (sum of |panels| {area!r}, tol {tol:.3g}); n={n}", {"sub": "rms-unsorted", "what": "value"}, rp)
            return
        if check == "spec":
            band = _band_in(args[0])
            v = call(band)
            ref, npts = ref_power(f, y, band)
            P.hit(f"band-{tag}" if tag else "band-?")
            if npts >= 2 and ref > 0:
                P.nontrivial.add(("rms-spec", n, tag, npts))
            if not (math.isfinite(v) and v >= 0.0):
                add_violation(P, f"integral_rms returned {v!r} (not a finite non-negative number) for band {band} on a sorted grid of {n} points",
                              {"sub": "rms-spec", "what": "not-finite"}, rp)
                return
            if npts < 2:
                if v != 0.0:
                    add_violation(P, f"integral_rms = {v!r} for band {band} containing {npts} grid point(s); must be 0", {"sub": "rms-spec", "what": "lt2-points"}, rp)
                return
            if not within("rms-spec", abs(v * v - ref), rel * ref + GUARD):
                add_violation(P, f"integral_rms^2 = {v * v!r} but the trapezoid sum of asd^2 over the {npts} grid points inside band {band} is {ref!r} "
                                 f"(rel.err {abs(v * v - ref) / ref if ref else math.inf:.3g}, tol {rel:.3g}); n={n}", {"sub": "rms-spec", "what": "value"}, rp)
        elif check == "mono":
            inner, outer = _band_in(args[0]), _band_in(args[1])
            vi, vo = call(inner), call(outer)
            if vi > 0:
                P.nontrivial.add(("rms-mono", n, tag))
            if not (vi * vi <= vo * vo * (1 + 2 * rel) + GUARD):
                add_violation(P, f"band nesting not monotone: rms{inner} = {vi!r} > rms{outer} = {vo!r}; n={n}", {"sub": "rms-monotone"}, rp)
        elif check == "split":
            a, m, b = (_f(v) for v in args)
            on_grid = bool(np.any(f == m))
            pa, pb, pab = call((a, m)) ** 2, call((m, b)) ** 2, call((a, b)) ** 2
            if pa > 0 and pb > 0:
                P.nontrivial.add(("rms-split", n, on_grid, tag))
            if on_grid:
                P.hit("split-on-grid")
                if not within("rms-additive", abs(pa + pb - pab), 3 * rel * pab + GUARD):
                    add_violation(P, f"power not additive at the grid frequency m={m!r}: rms^2[{a},{m}] + rms^2[{m},{b}] = {pa + pb!r} but rms^2[{a},{b}] = {pab!r}; n={n}",
                                  {"sub": "rms-additive-at-grid"}, rp)
            else:
                P.hit("split-off-grid")
                if pab > (pa + pb) * (1 + 1e-9):
                    P.hit("split-off-grid-strict-deficit")
                if not (pa + pb <= pab * (1 + 3 * rel) + GUARD):
                    add_violation(P, f"power not super-additive at the off-grid split m={m!r}: rms^2[{a},{m}] + rms^2[{m},{b}] = {pa + pb!r} > rms^2[{a},{b}] = {pab!r}; n={n}",
                                  {"sub": "rms-superadditive"}, rp)
    except Exception as ex:  # the function must not raise on a valid (a <= b) band
        add_violation(P, f"integral_rms raised {ex!r} in check {check} args {args}; n={n}", {"sub": "rms-" + check, "what": "raises"}, dict(rp, error=repr(ex)))


def rms_grid_checks(P: C.Part, rng: np.random.Generator, f: np.ndarray, y: np.ndarray, gkind: str, nbands: int,
                    origin: Optional[Dict[str, Any]] = None) -> None:
    n = len(f)
    modes = ["none", "cover", "grid_grid", "one_point", "between"] + [str(m) for m in rng.choice(BAND_MODES, size=nbands)]
    for mode in modes:
        rms_eval(P, f, y, "spec", [gen_band(rng, f, mode)], variant=int(rng.choice([0, 0, 0, 1, 2])), tag=mode, origin=origin)
    # full span: None, the explicit (fmin, fmax) and (-inf, inf) all mean the whole grid
    rms_eval(P, f, y, "spec", [(float(f[0]), float(f[-1]))], tag="fmin_fmax", origin=origin)
    rms_eval(P, f, y, "spec", [(-math.inf, math.inf)], tag="inf_inf", origin=origin)

    def point(on_grid: bool) -> float:
        return float(f[int(rng.integers(0, n))]) if on_grid else pick(rng, f)
    for _ in range(max(2, nbands // 2)):
        q = sorted(point(bool(rng.integers(0, 2))) for _ in range(4))
        if rng.random() < 0.2:
            q[0] = q[0] - abs(q[3] - q[0]) - 1.0
        if rng.random() < 0.2:
            q[3] = q[3] + abs(q[3] - q[0]) + 1.0
        rms_eval(P, f, y, "mono", [(q[1], q[2]), (q[0], q[3])], tag=gkind, origin=origin)
        rms_eval(P, f, y, "mono", [(q[0], q[2]), (q[0], q[3])], tag=gkind, origin=origin)
    for k in range(max(4, nbands)):
        on = (k % 2 == 0)
        if on:
            i = int(rng.integers(0, n))
            m = float(f[i])
        else:
            m = pick(rng, f)                     # strictly inside a panel (on a grid point only for zero-width panels / n = 1)
        lo = f[f <= m]
        hi = f[f >= m]
        ca = [m - abs(pick(rng, f) - m), float(f[0]) - 1.0]
        cb = [m + abs(pick(rng, f) - m), float(f[-1]) + 1.0]
        if len(lo):
            ca += [float(lo[int(rng.integers(0, len(lo)))])] * 2
        if len(hi):
            cb += [float(hi[int(rng.integers(0, len(hi)))])] * 2
        a = min(m, ca[int(rng.integers(0, len(ca)))])
        b = max(m, cb[int(rng.integers(0, len(cb)))])
        rms_eval(P, f, y, "split", [a, m, b], tag=gkind, origin=origin)
    zero_checks(P, rng, f, y, gkind, origin)


def zero_checks(P: C.Part, rng: np.random.Generator, f: np.ndarray, y: np.ndarray, gkind: str, origin: Optional[Dict[str, Any]] = None) -> None:
    """ASD arrays with EXACT zeros (sorted grid): bands whose edges are grid points with asd == 0, bands ending on the first / last point of a
    zero run, a band inside a zero run (power exactly 0 over >= 2 points), nesting around a zero run and splits AT zero-valued grid points. The
    trapezoid runs over ALL grid points inside the band, whatever their value (a change that drops or bridges zero bins shows here)."""
    n = len(f)
    z = np.flatnonzero(y == 0.0)
    if n < 3 or len(z) == 0:
        return
    P.hit("rms-zero-valued-bins")
    nz = np.flatnonzero(y != 0.0)

    def zi() -> int:
        return int(z[int(rng.integers(0, len(z)))])
    for _ in range(3):
        i, j = sorted((zi(), zi()))
        rms_eval(P, f, y, "spec", [(float(f[i]), float(f[j]))], tag="zero_zero", origin=origin)           # both edges on zero bins
        k = int(rng.integers(0, n))
        a, b = sorted((float(f[zi()]), float(f[k])))
        rms_eval(P, f, y, "spec", [(a, b)], tag="zero_grid", origin=origin)                                # one edge on a zero bin
    if len(nz):
        k = int(nz[int(rng.integers(0, len(nz)))])                                                         # a positive bin and its zero neighbourhood
        lo, hi = max(0, k - int(rng.integers(1, 4))), min(n - 1, k + int(rng.integers(1, 4)))
        rms_eval(P, f, y, "spec", [(float(f[lo]), float(f[hi]))], tag="around_positive", origin=origin)
        rms_eval(P, f, y, "mono", [(float(f[k]), float(f[k])), (float(f[lo]), float(f[hi]))], tag=gkind, origin=origin)
    for _ in range(2):                                                                                      # split AT a zero-valued grid point
        m = zi()
        a = int(rng.integers(0, m + 1))
        b = int(rng.integers(m, n))
        rms_eval(P, f, y, "split", [float(f[a]), float(f[m]), float(f[b])], tag="zero-split", origin=origin)
        rms_eval(P, f, y, "split", [float(f[0]) - 1.0, float(f[m]), float(f[-1]) + 1.0], tag="zero-split", origin=origin)
    i, j = sorted((zi(), zi()))                                                                             # nesting with zero-valued edges
    rms_eval(P, f, y, "mono", [(float(f[i]), float(f[j])), (float(f[max(0, i - 1)]), float(f[min(n - 1, j + 1)]))], tag=gkind, origin=origin)


# =====================================================================================================================
#  detrend
# =====================================================================================================================
SERIES_KINDS = ["white", "offset", "trend", "walk", "tiny", "const", "zero", "int", "ramp", "step"]


def tscaled(n: int) -> np.ndarray:
    return (2.0 * np.arange(n) - (n - 1)) / max(n - 1, 1)


def make_series(cs: int, n: int, kind: str) -> np.ndarray:
    rng = np.random.default_rng(cs)
    t = tscaled(n)
    z = rng.standard_normal(n)
    if kind == "white":
        return z
    if kind == "offset":
        return z + float(rng.choice([-1.0, 1.0])) * 10 ** rng.uniform(0, 6)
    if kind == "trend":
        c = rng.standard_normal(6) * 10 ** rng.uniform(-1, 3, 6)
        return z + sum(c[k] * t ** k for k in range(6))
    if kind == "walk":
        return np.cumsum(z)
    if kind == "tiny":
        return 1e-8 * z + 5 * t ** 5 - 3 * t ** 2 + 0.5 * t
    if kind == "const":
        return np.full(n, float(rng.choice([0.1, -3.0, 1e6, 1.0 / 3.0])))
    if kind == "zero":
        return np.zeros(n)
    if kind == "int":
        return rng.integers(-1000, 1000, n) + (np.arange(n) // 3)
    if kind == "ramp":
        return rng.uniform(-5, 5) * np.arange(n) + rng.uniform(-100, 100)
    if kind == "step":
        return z + 10.0 * (t > 0.3)
    raise ValueError(kind)


def impl_detrend(x: Any, p: int) -> np.ndarray:
    from speckit.dsp import polynomial_detrend
    with warnings.catch_warnings():
        warnings.simplefilter("ignore")
        return polynomial_detrend(x, p)


def detrend_eval(P: C.Part, x: np.ndarray, p: int, origin: Dict[str, Any], as_list: bool = False, light: bool = False) -> None:
    """all detrend claims for one (series, order) on the real polynomial_detrend (light=True: only shape, orthogonality, order-0 and
    short-series claims — one call of the function; used for the remaining orders at the longest records of the quick tier).
    Tolerance: per-sample error of polyfit (column-scaled SVD least squares) + Horner polyval on t = 0..n-1 is bounded by
    ~ eps * (2p * sum|c_k| t^k + cond) ; for degree <= 5 the monomial coefficients of a polynomial of grid-rms 1 sum to <= ~7.5e3
    (smallest eigenvalue of the 6x6 Hilbert matrix 1.1e-7), so the error is <~ 2e-11 * rms(x); measured worst 1.1e-12. DETREND_REL = 1e-9.
    LONG records (size sweep, n = 70 001 .. 2.2e6): the bound does not grow with n. np.polyfit scales the Vandermonde columns of t = 0..n-1 to unit
    norm before the SVD least-squares solve; the condition number of that scaled matrix is (measured at n = 65 535, 70 001 and 1 100 003, identical
    to 3 digits, i.e. the n -> infinity limit) 3.73, 16.9, 86.1, 459, 2.5e3 for degrees 1..5, and its rcond = n*eps (2.4e-10 at n = 1.1e6) is far
    below 1/2.5e3, so no singular value is truncated for any n < 1e12. A backward-stable solve then gives fitted values within
    c*u*kappa*sqrt(2)*||x||_2 (kappa <= 2.5e3) in the 2-norm, i.e. per sample (a degree-5 polynomial's maximum is <= 6x its grid rms)
    <= 6*sqrt(2)*2.5e3*c*u*rms(x) = 2.4e-12*c*rms(x) with c a modest LAPACK constant; Horner on t <= 2.2e6 adds 2*5*u*sum|c_k|t^k <= 10 u * 3363 *
    max|trend| <= 2.2e-11 rms(x) (coefficient growth of a degree-5 polynomial on [0, n-1]: |T5*(-1)| = 3363, independent of n). Measured on the
    unchanged library at n = 70 001 and 1 100 003, orders 0..5, seven series kinds: per-sample error vs an extended-precision Legendre
    projection <= 3.3e-13 rms(x), orthogonality <= 3.1e-14 of n*rms(x), idempotence <= 1.1e-13 rms(x): DETREND_REL keeps a margin >= 3000.
    The orthogonality sums are evaluated on the abscissa scaled to [-1, 1] (|t^k| <= 1; pairwise summation error <= 25 u * n * rms, 1e5 below
    the allowance); raw monomials 0..n-1 would need 1e30-sized weights."""
    n = len(x)
    xf = np.asarray(x, dtype=np.float64)
    rmsx = float(np.sqrt(np.mean(xf * xf)))
    amax = float(np.max(np.abs(xf)))
    t = tscaled(n)
    rp = {"kind": "detrend", "order": p, "as_list": as_list, "light": light, **origin}
    P.cases += 1
    P.hit(f"detrend-order-{p}")
    P.hit("detrend-short" if n < p + 1 else "detrend-regular")
    try:
        r = impl_detrend(x.tolist() if as_list else x, p)
        r = np.asarray(r)
        if r.shape != (n,) or not np.all(np.isfinite(r)):
            add_violation(P, f"polynomial_detrend(order={p}) of a finite series of length {n} returned shape {r.shape} / non-finite values",
                          {"sub": "detrend-shape", "order": p}, rp)
            return
        r = r.astype(np.float64)
        if n > p + 1 and float(np.max(np.abs(r))) > 1e-6 * rmsx:
            P.nontrivial.add(("detrend", n, p, origin.get("gen", {}).get("series", "explicit")))
        # orthogonality to t^k, k <= p (t scaled to [-1,1], so |sum r t^k| <= sum|r_err| <= n * DETREND_REL * rms(x) = DETREND_REL * sqrt(n) * ||x||_2)
        for k in range(p + 1):
            s = float(np.sum(r * t ** k))
            if not within("detrend-orthogonality", abs(s), DETREND_REL * n * rmsx):
                add_violation(P, f"detrend residual not orthogonal to t^{k}: |sum r*t^{k}| = {abs(s):.6g} > {DETREND_REL * n * rmsx:.3g} "
                                 f"(order {p}, length {n}, rms(x) {rmsx:.4g})", {"sub": "detrend-orthogonality", "order": p}, rp)
                break
        # what was removed is a polynomial of degree <= min(p, n-1) ("polynomial detrending of order p" = x - P x, DESIGN C19-a): the part of
        # x - r outside that space must vanish. Orthonormal Legendre basis on the scaled grid (well conditioned); x - r = trend up to the
        # rounding of the subtraction (<= 4u max|x|) and of polyval (covered by DETREND_REL * rms(x)).
        pe = min(p, n - 1)
        if not light:
            Q, _ = np.linalg.qr(np.polynomial.legendre.legvander(t, pe))
            tr = xf - r
            out = float(np.max(np.abs(tr - Q @ (Q.T @ tr))))
            if not within("detrend-removed-is-polynomial", out, DETREND_REL * rmsx + 1e-12 * amax):
                add_violation(P, f"the removed trend x - D(x) is not a polynomial of degree <= {pe}: component outside that space {out:.6g} > "
                                 f"{DETREND_REL * rmsx + 1e-12 * amax:.3g} (order {p}, length {n})", {"sub": "detrend-removes-only-polynomial", "order": p}, rp)
            # idempotence
            r2 = np.asarray(impl_detrend(r, p), dtype=np.float64)
            d = float(np.max(np.abs(r2 - r)))
            if not within("detrend-idempotent", d, DETREND_REL * rmsx):
                add_violation(P, f"detrend not idempotent: max|D(D(x)) - D(x)| = {d:.6g} > {DETREND_REL * rmsx:.3g} (order {p}, length {n})",
                              {"sub": "detrend-idempotent", "order": p}, rp)
        # order 0 = exact mean removal (np.mean pairwise: error <= log2(n) u max|x|; subtraction 2u max|x|)
        if p == 0:
            m = math.fsum(xf.tolist()) / n
            d0 = float(np.max(np.abs(r - (xf - m))))
            if not within("detrend-order0", d0, 1e-13 * amax):
                add_violation(P, f"order-0 detrend is not x - mean(x): max deviation {d0:.6g} > {1e-13 * amax:.3g} (length {n})",
                              {"sub": "detrend-order0", "order": 0}, rp)
        # short series: documented fallback to order len-1, i.e. the polynomial interpolates every sample
        if n < p + 1:
            d1 = float(np.max(np.abs(r)))
            if not within("detrend-short", d1, DETREND_REL * rmsx):
                add_violation(P, f"short series (length {n} < order+1 = {p + 1}): residual {d1:.6g} is not ~0 (fallback to order {n - 1})",
                              {"sub": "detrend-short", "order": p}, rp)
    except Exception as ex:
        add_violation(P, f"polynomial_detrend(order={p}) raised {ex!r} on a finite series of length {n}", {"sub": "detrend-raises", "order": p}, dict(rp, error=repr(ex)))


def poly_eval(P: C.Part, n: int, p: int, coeffs: List[float]) -> None:
    """a polynomial of degree len(coeffs)-1 <= p must detrend to ~0 relative to its size"""
    t = tscaled(n)
    x = np.zeros(n)
    for k, c in enumerate(coeffs):
        x = x + float(c) * t ** k
    rmsx = float(np.sqrt(np.mean(x * x)))
    rp = {"kind": "poly", "n": n, "order": p, "coeffs": [float(c) for c in coeffs]}
    P.cases += 1
    P.hit("detrend-poly-to-zero")
    try:
        r = np.asarray(impl_detrend(x, p), dtype=np.float64)
        d = float(np.max(np.abs(r))) if r.shape == (n,) else math.inf
        if rmsx > 0 and n > len(coeffs):
            P.nontrivial.add(("poly", n, p, len(coeffs) - 1))
        if not within("detrend-kills-poly", d, DETREND_REL * rmsx):
            add_violation(P, f"polynomial of degree {len(coeffs) - 1} not removed by order-{p} detrend: max|r| = {d:.6g} > {DETREND_REL * rmsx:.3g} (length {n}, rms {rmsx:.4g})",
                          {"sub": "detrend-kills-poly", "order": p}, rp)
    except Exception as ex:
        add_violation(P, f"polynomial_detrend(order={p}) raised {ex!r} on a polynomial of length {n}", {"sub": "detrend-raises", "order": p}, dict(rp, error=repr(ex)))


# =====================================================================================================================
#  df_detrend
# =====================================================================================================================
DF_COLS = ["a", "b", "c", "i", "s", "d"]


def make_frame(cs: int, n: int, light: bool = False):
    import pandas as pd
    rng = np.random.default_rng(cs)
    t = tscaled(n)
    idx = rng.permutation(n) * 3 + 7                         # non-default, unsorted index
    if light:                                                # long records: two float columns and an integer one (no 1e6 strings / timestamps)
        return pd.DataFrame({
            "a": rng.standard_normal(n) + 40 * t ** 3 - 25 * t ** 2 + 9 * t + 3 + 12 * t ** 5,
            "c": 5.0 + 7 * t ** 2 - 11 * t ** 3 + 0.1 * rng.standard_normal(n),
            "i": (rng.integers(-50, 50, n) + (np.arange(n) // 1000) ** 2 // 7).astype(np.int64),
        }, index=idx)
    return pd.DataFrame({
        "a": rng.standard_normal(n) + 40 * t ** 3 - 25 * t ** 2 + 9 * t + 3 + 12 * t ** 5,   # curvature: every order gives a different result
        "b": np.cumsum(rng.standard_normal(n)) + 30 * t ** 4 - 17 * t ** 2,
        "c": 5.0 + 7 * t ** 2 - 11 * t ** 3 + 0.1 * rng.standard_normal(n),
        "i": (rng.integers(-50, 50, n) + (np.arange(n) ** 2) // 7).astype(np.int64),
        "s": [f"r{k}" for k in range(n)],
        "d": pd.date_range("2020-01-01", periods=n, freq="s"),
    }, index=idx)


def df_eval(P: C.Part, spec: Dict[str, Any]) -> None:
    import pandas as pd
    from speckit.dsp import df_detrend
    n, order, cols, inplace, suffix = int(spec["n"]), int(spec["order"]), spec["columns"], bool(spec["inplace"]), spec["suffix"]
    df = make_frame(int(spec["case_seed"]), n, bool(spec.get("light", False)))
    df0 = df.copy(deep=True)
    rp = {"kind": "df", **spec}
    P.cases += 1
    P.hit("df-inplace" if inplace else "df-suffix")
    P.hit("df-columns-none" if cols is None else "df-columns-list")
    kw = {"order": order, "inplace": inplace}
    if cols is not None:
        kw["columns"] = list(cols)
    if suffix is not None:
        kw["suffix"] = suffix
    sfx = "_detrended" if suffix is None else suffix
    try:
        with warnings.catch_warnings():
            warnings.simplefilter("ignore")
            out = df_detrend(df, **kw)
        sel = list(df0.columns) if cols is None else list(cols)
        numeric = [c for c in sel if df0[c].dtype.kind in "iuf"]
        skipped = [c for c in sel if c not in numeric]
        if n > order + 1 and numeric:
            P.nontrivial.add(("df", n, order, tuple(sel), inplace, sfx))

        def bad(what: str, sub: str):
            add_violation(P, f"df_detrend(columns={cols}, order={order}, inplace={inplace}, suffix={sfx!r}), n={n}: {what}", {"sub": sub, "inplace": inplace}, rp)
        if not inplace and not df.equals(df0):
            return bad("the input frame was modified although inplace=False", "df-input-modified")
        if not isinstance(out, pd.DataFrame) or len(out) != n or not out.index.equals(df0.index):
            return bad("result is not a frame with the input's index", "df-shape")
        expected_cols = set(df0.columns) | (set() if inplace else {f"{c}{sfx}" for c in numeric})
        if set(out.columns) != expected_cols:
            return bad(f"result columns {sorted(map(str, out.columns))} but expected {sorted(expected_cols)} (selected numeric: {numeric}, skipped non-numeric: {skipped})", "df-columns")
        for c in df0.columns:
            target_changed = inplace and c in numeric
            if not target_changed and not out[c].equals(df0[c]):
                return bad(f"column {c!r} (not a detrend target) differs from the input", "df-untouched")
        for c in numeric:
            xin = df0[c].values
            ref = np.asarray(impl_detrend(xin, order), dtype=np.float64)
            got = np.asarray(out[c if inplace else f"{c}{sfx}"].values, dtype=np.float64)
            scale = float(np.max(np.abs(xin.astype(np.float64))))
            d = float(np.max(np.abs(got - ref)))
            # same routine on the same column: both are within DETREND_REL*rms of the exact projection residual
            if not within("df-values", d, DETREND_REL * scale):
                return bad(f"column {c!r}: differs from polynomial_detrend(column, order={order}) by {d:.6g} (tol {DETREND_REL * scale:.3g})", "df-values")
    except Exception as ex:
        add_violation(P, f"df_detrend raised {ex!r} for columns={cols} order={order} inplace={inplace} n={n}", {"sub": "df-raises"}, dict(rp, error=repr(ex)))


def gen_df_spec(rng: np.random.Generator, i: int) -> Dict[str, Any]:
    n = int(rng.choice([1, 2, 3, 4, 6, 7, int(rng.integers(8, 400))]))
    mode = i % 5
    if mode == 0:
        cols = None
    elif mode == 1:
        cols = [str(rng.choice(["a", "b", "c", "i"]))]
    else:
        k = int(rng.integers(1, 5))
        cols = [str(c) for c in rng.choice(DF_COLS, size=k, replace=False)]
    return {"case_seed": int(rng.integers(0, 2 ** 62)), "n": n, "order": int(rng.integers(0, 6)), "columns": cols,
            "inplace": bool(rng.integers(0, 2)), "suffix": [None, "_x", "_detr", ".d"][int(rng.integers(0, 4))]}


# =====================================================================================================================
#  SpectrumResult.get_rms and the Parseval probe
# =====================================================================================================================
RESULT_CFGS = [{}, {"Jdes": 200}, {"olap": 0.5, "Jdes": 500}, {"order": 1}, {"win": "hann"}]


def make_record(spec: Dict[str, Any]) -> np.ndarray:
    rng = np.random.default_rng(int(spec["rec_seed"]))
    N = int(spec["N"])
    x = float(spec["amp"]) * rng.standard_normal(N)
    if spec["noise"] == "red":
        import scipy.signal as ss
        b, a = ss.butter(1, 0.05)
        x = ss.lfilter(b, a, x)
    return x


def read_history_twins(P: C.Part, spec: Dict[str, Any], x: np.ndarray, fs: float, bands: List[Any], rp: Dict[str, Any]) -> None:
    """The RMS of a band is a property of the computed spectrum, not of what was looked at before: results computed from the SAME record with
    the SAME options answer get_rms bit-identically whether it is the first thing asked of a fresh result or comes after every other public
    attribute / to_dataframe() has been read (reads are queries; the first get_rms of the fresh twin is the reference)."""
    import speckit

    def fresh():
        with warnings.catch_warnings():
            warnings.simplefilter("ignore")
            return speckit.compute_spectrum(x.copy(), fs, **spec["cfg"])

    def ask(r) -> List[Any]:
        out = []
        for b in bands:
            try:
                with warnings.catch_warnings():
                    warnings.simplefilter("ignore")
                    out.append(r.get_rms(b))
            except Exception as ex:
                out.append(repr(ex))
        return out
    try:
        ref = ask(fresh())
        names = sorted(a for a in dir(fresh()) if not a.startswith("_") and a not in ("plot", "get_rms", "get_measurement", "to_dataframe"))
    except Exception as ex:
        P.notes.append(f"read-history twins: {ex!r}"[:160])
        return
    histories = [("sorted-attributes", names), ("reverse-attributes", names[::-1]), ("to_dataframe", ["to_dataframe()"]),
                 ("window-sums", ["ENBW", "S2", "S12", "ps", "psd"]), ("errors-first", [a for a in names if a.endswith(("_dev", "_error"))])]
    for hname, reads in histories:
        P.cases += 1
        P.hit("get_rms-after-" + hname)
        try:
            r = fresh()
            with warnings.catch_warnings():
                warnings.simplefilter("ignore")
                for a in reads:
                    try:
                        r.to_dataframe() if a == "to_dataframe()" else getattr(r, a)
                    except Exception:
                        pass                      # an attribute that is not available for this result is not a C19 matter
            got = ask(r)
        except Exception as ex:
            P.notes.append(f"read-history {hname}: {ex!r}"[:160])
            continue
        P.nontrivial.add(("read-history", hname, spec["N"], str(spec["cfg"])))
        for b, v0, v1 in zip(bands, ref, got):
            same = v0 == v1 or (isinstance(v0, float) and isinstance(v1, float) and math.isnan(v0) and math.isnan(v1))
            if not same:
                add_violation(P, f"get_rms({b}) = {v0!r} on a fresh result but {v1!r} on a result of the same record and options after reading "
                                 f"{hname} ({', '.join(reads[:6])}{'…' if len(reads) > 6 else ''}) first", {"sub": "get_rms-read-history", "history": hname},
                              dict(rp, band=b, history=hname, reads=reads))
                break


def result_eval(P: C.Part, spec: Dict[str, Any]) -> Optional[float]:
    """get_rms(band) == integral_rms(f, asd, sorted band) on a result computed from a real record; Parseval probe on the full band.
    Returns the Parseval deviation (for the report)."""
    import speckit
    from speckit.dsp import integral_rms
    x = make_record(spec)
    fs = float(spec["fs"])
    rp = {"kind": "result", **spec}
    try:
        with warnings.catch_warnings():
            warnings.simplefilter("ignore")
            res = speckit.compute_spectrum(x, fs, **spec["cfg"])
            f = np.asarray(res.f, dtype=np.float64)
            asd = np.asarray(res.asd, dtype=np.float64)
    except Exception as ex:      # planning/computation problems belong to other properties
        P.notes.append(f"compute_spectrum failed for {spec['cfg']} N={spec['N']}: {ex!r}"[:160])
        return None
    rng = np.random.default_rng(int(spec["rec_seed"]) + 1)
    sorted_grid = bool(np.all(np.diff(f) >= 0)) and len(f) >= 1
    bands: List[Any] = [None, (float(f[0]), float(f[-1])), (float(f[-1]), float(f[0]))]
    if sorted_grid:
        for mode in ["inside", "grid_grid", "left_out", "right_out", "outside_left", "between", "one_point", "inside", "grid_in", "in_grid"]:
            b = gen_band(rng, f, mode)
            if b is not None and rng.random() < 0.5:
                b = (b[1], b[0])                       # swapped order must be accepted
            bands.append(b)
    full = float(integral_rms(f, asd, None))
    for b in bands:
        P.cases += 1
        P.hit("get_rms")
        sb = None if b is None else (min(b), max(b))
        swapped = b is not None and b[0] > b[1]
        if swapped:
            P.hit("get_rms-swapped-band")
        try:
            v = res.get_rms(b)
            e = float(integral_rms(f, asd, sb))
        except Exception as ex:
            add_violation(P, f"get_rms({b}) raised {ex!r} (auto spectrum, {len(f)} bins)", {"sub": "get_rms-raises", "swapped": swapped}, dict(rp, band=b, error=repr(ex)))
            continue
        if e > 0:
            P.nontrivial.add(("get_rms", spec["N"], str(spec["cfg"]), spec["noise"], None if b is None else (round(b[0], 9), round(b[1], 9))))
        if not isinstance(v, float) or not within("get_rms", abs(v - e), 1e-12 * full):
            add_violation(P, f"get_rms({b}) = {v!r} but integral_rms(f, asd, {sb}) = {e!r} (full band {full!r})", {"sub": "get_rms-equals-integral", "swapped": swapped}, dict(rp, band=b))
            continue
        if sorted_grid:
            ref, npts = ref_power(f, asd, sb)
            if not (abs(v * v - ref) <= rel_tol(len(f)) * ref + GUARD):
                add_violation(P, f"get_rms({b})^2 = {v * v!r} but the trapezoid sum of asd^2 over the {npts} bins inside is {ref!r}", {"sub": "get_rms-spec"}, dict(rp, band=b))
    read_history_twins(P, spec, x, fs, bands[:6], rp)
    # Parseval probe (support only; thresholds with >= 3x margin over the measured worst case)
    P.cases += 1
    P.hit("parseval-" + spec["noise"])
    td = float(np.std(x))
    dev = full / td - 1.0
    P.nontrivial.add(("parseval", spec["N"], str(spec["cfg"]), spec["noise"], spec["fs"], spec["rec_seed"] % 1000003))
    thr = PARSEVAL_THR[spec["noise"]]
    if not within("parseval-" + spec["noise"], abs(dev), thr):
        add_violation(P, f"full-band RMS of the computed ASD = {full:.6g} but the time-domain RMS is {td:.6g} (deviation {100 * dev:+.1f} %, allowed {100 * thr:.0f} %); "
                         f"{spec['noise']} noise N={spec['N']} fs={fs} cfg={spec['cfg']}", {"sub": "parseval", "noise": spec["noise"]}, rp)
    return dev


def cross_probe(P: C.Part, rng: np.random.Generator) -> None:
    """cross-spectral results have no ASD: get_rms refuses (recorded, not a claim of the property)"""
    import speckit
    try:
        x = rng.standard_normal((2, 1500))
        res = speckit.compute_spectrum(x, 1.0)
        try:
            res.get_rms()
            P.hit("cross-get_rms-returned-a-value")
        except NotImplementedError:
            P.hit("cross-get_rms-NotImplementedError")
    except Exception as ex:
        P.notes.append(f"cross probe: {ex!r}"[:120])


def gen_result_spec(rng: np.random.Generator, i: int, thorough: bool) -> Dict[str, Any]:
    sizes = [2000, 10000] + ([50000] if thorough else [])
    return {"rec_seed": int(rng.integers(0, 2 ** 62)), "N": int(sizes[i % len(sizes)]), "fs": float(rng.choice([1.0, 10.0, 1000.0, 1e-3, 1e-6, 3.7e4])),
            "noise": ["white", "red", "white"][i % 3], "amp": float(rng.choice([3.7, 0.02, 150.0])), "cfg": dict(RESULT_CFGS[(i // 2) % len(RESULT_CFGS)])}


# =====================================================================================================================
#  correspondence: model (driver) vs the real functions
# =====================================================================================================================
def rms_line(f: np.ndarray, y: np.ndarray, band: Optional[Tuple[float, float]]) -> str:
    return "rms " + C.arr(f) + " " + C.arr(y) + (" 0" if band is None else f" 1 {C.f2h(band[0])} {C.f2h(band[1])}")


MAX_DISAGREE = 25


def disagree(P: C.Part, d: Dict[str, Any]) -> None:
    """keep the first MAX_DISAGREE disagreeing cases in full (they go into the replay file), count the rest"""
    if len(P.disagreements) < MAX_DISAGREE:
        P.disagreements.append(d)
    else:
        P.hit("further-disagreements-not-stored")


def correspondence(ctx) -> C.Part:
    """Model.integralRms (Float) vs dsp.integral_rms, Model.detrend0 vs dsp.polynomial_detrend(x, 0)"""
    _quiet()
    P = C.Part()
    rng = ctx.rng
    gen_rms_cases: List[Tuple[np.ndarray, np.ndarray, Any, str, str, Any]] = []     # replayed through the GENERATED code at the end
    gen_det_cases: List[Tuple[np.ndarray, str]] = []
    ngrids = ctx.scale(300, 3000)
    for i in range(ngrids):
        if ctx.time_left() < 30:
            P.notes.append("time budget reached")
            break
        n = (i % 12) + 1 if i < 36 else int(rng.integers(1, 201))
        gk = "unsorted" if i % 11 == 5 else GRID_KINDS[i % len(GRID_KINDS)]
        f = gen_grid(rng, n, gk)
        y = gen_asd(rng, f, ASD_KINDS[int(rng.integers(0, len(ASD_KINDS)))])
        n = len(f)
        fs_sorted = np.sort(f)
        A = float(np.sum(np.abs(np.diff(f)) * (y[1:] ** 2 + y[:-1] ** 2) / 2)) if n >= 2 else 0.0
        modes = ["none", "inverted"] + [str(m) for m in rng.choice(BAND_MODES[1:], size=4)]
        for mode in modes:
            if mode == "inverted":
                b = gen_band(rng, fs_sorted, "inside" if n >= 2 else "cover")
                if b[0] == b[1]:
                    continue
                band = (b[1], b[0])
            else:
                band = gen_band(rng, fs_sorted, mode)
            try:
                vi: Any = float(impl_rms(f, y, band))
            except ValueError:
                vi = "RAISE"
            r = ctx.driver.ask(rms_line(f, y, band))
            vm: Any = "RAISE" if r == "RAISE" else C.h2f(r.split()[0])
            gen_rms_cases.append((f, y, band, gk, mode, vi))
            P.cases += 1
            P.hit(f"rms-{gk}")
            P.hit(f"rms-band-{mode}")
            P.hit("rms-n=%s" % ("1" if n == 1 else "2" if n == 2 else "3-12" if n <= 12 else "13-200"))
            case = {"op": "rms", "f": f.tolist(), "y": y.tolist(), "band": band, "grid": gk, "mode": mode}
            if vi == "RAISE" or vm == "RAISE":
                P.hit("rms-raise")
                if vi != vm:
                    disagree(P, {**case, "impl": vi, "model": vm})
                else:
                    P.nontrivial.add(("raise", n, gk))
                continue
            if int(np.sum(inside_mask(f, band))) >= 2:
                P.nontrivial.add(("rms", n, gk, mode))
                if n >= 5 and i % 7 == 0:
                    P.sample({"op": "rms", "n": n, "grid": gk, "band": band, "impl": vi, "model": vm}, cap=4)
            if math.isnan(vi) or math.isnan(vm):
                P.hit("rms-nan(negative signed area on an unsorted grid)")
                if math.isnan(vi) and math.isnan(vm):
                    continue
                other = vm if math.isnan(vi) else vi
                if other * other <= 1e-12 * A + 1e-200:
                    P.unstable += 1
                else:
                    disagree(P, {**case, "impl": vi, "model": vm})
                continue
            if gk == "unsorted":
                ok = abs(vi * vi - vm * vm) <= 1e-12 * A + 1e-200      # signed panels can cancel: budget relative to the sum of |panels|
            else:
                ok = abs(vi - vm) <= 1e-12 * max(abs(vi), abs(vm)) + 1e-200   # non-negative panels: no cancellation (n <= 200: n*u/2 = 2e-14)
            if not ok:
                disagree(P, {**case, "impl": vi, "model": vm})
    # order-0 detrend
    nd = ctx.scale(120, 1200)
    for i in range(nd):
        if ctx.time_left() < 20:
            break
        n = (i % 8) + 1 if i < 16 else int(rng.integers(1, 301))
        kind = SERIES_KINDS[i % len(SERIES_KINDS)]
        x = np.asarray(make_series(int(rng.integers(0, 2 ** 62)), n, kind), dtype=np.float64)
        vi = np.asarray(impl_detrend(x, 0), dtype=np.float64)
        vm = np.array(ctx.driver.floats("detrend0 " + C.arr(x)))
        gen_det_cases.append((x, kind))
        P.cases += 1
        P.hit("detrend0")
        if n >= 2 and float(np.ptp(x)) > 0:
            P.nontrivial.add(("detrend0", n, kind))
        tol = 8 * U * (n + 2) * float(np.max(np.abs(x)))        # sequential (model) vs pairwise (np.mean) summation
        if vm.shape != vi.shape or not np.all(np.abs(vi - vm) <= tol):
            disagree(P, {"op": "detrend0", "x": x.tolist(), "impl": vi.tolist(), "model": vm.tolist(), "tol": tol})
        elif i in (16, 17):
            P.sample({"op": "detrend0", "n": n, "kind": kind, "impl": vi[:4].tolist(), "model": vm[:4].tolist()})
    # generated code (Gen/Rms.lean, translated from the current source) vs the functions it was generated from; the child generator is
    # seeded by ONE integer drawn after the streams above, so those are unchanged
    crng = np.random.default_rng(int(rng.integers(0, 2 ** 62)))
    gen_differential(ctx, P, crng, gen_rms_cases, gen_det_cases)
    # region DfWrappers: the WHOLE df_detrend as translated vs the real one on generated pandas frames (child generator of the child: the
    # streams above are unchanged)
    from ..regions import df_wrappers as DFW
    DFW.differential(P, ctx, np.random.default_rng(int(crng.integers(0, 2 ** 62))), "detrend")
    return P


# =====================================================================================================================
#  region Rms: the GENERATED definitions executed in Float by the driver vs the real functions (validates the translator)
# =====================================================================================================================
GEN_ULP = 4.0     # the generated code performs the same IEEE operations in the same order (left-to-right cumsum, x*x, sqrt): allowed
#                   deviation 4 ulp of the result (libm sqrt and NumPy's SIMD loops are correctly rounded; measured: bit-identical)


def band_tokens(band: Any) -> str:
    return " 0" if band is None else f" 1 {C.f2h(band[0])} {C.f2h(band[1])}"


def same_float(a: float, b: float, scale: float = 0.0) -> bool:
    if math.isnan(a) or math.isnan(b):
        return math.isnan(a) and math.isnan(b)
    return abs(a - b) <= GEN_ULP * U * max(abs(a), abs(b), scale) + 1e-300


def impl_get_rms(f: np.ndarray, y: np.ndarray, band: Any, iscsd: bool = False) -> Any:
    """the real SpectrumResult.get_rms executed on an object that carries only what the method reads (iscsd, f, asd)"""
    import types
    from speckit.analysis import SpectrumResult
    stub = types.SimpleNamespace(iscsd=iscsd, f=f, asd=y)
    try:
        with warnings.catch_warnings():
            warnings.simplefilter("ignore")
            return float(SpectrumResult.get_rms(stub, band))
    except (ValueError, NotImplementedError):
        return "RAISE"


def gen_disagree(P: C.Part, d: Dict[str, Any]) -> None:
    """a disagreement between the GENERATED code and the function it was generated from (a translator defect, whatever the source says)"""
    P.hit("gen-vs-real-disagreement")
    disagree(P, d)


def polyfit_table(x: np.ndarray, maxdeg: int) -> List[np.ndarray]:
    """NumPy's own answers to every `np.polyfit(arange(len x), x, deg)` the generated code may request (the contract parameter)"""
    t = np.arange(len(x))
    tab = []
    for dg in range(maxdeg + 1):
        if len(x) == 1 and dg >= 1:          # NumPy's polyfit fails here (all-zero Vandermonde columns; LAPACK prints to stderr): no answer
            tab.append(np.zeros(0))
            continue
        try:
            with warnings.catch_warnings():
                warnings.simplefilter("ignore")
                tab.append(np.asarray(np.polyfit(t, x, deg=dg), dtype=np.float64))
        except Exception:
            tab.append(np.zeros(0))
    return tab


def gen_differential(ctx, P: C.Part, crng: np.random.Generator, rms_cases, det_cases) -> None:
    from speckit.dsp import crop_data, polynomial_detrend
    t_start = ctx.time_left()
    # ---- integral_rms / crop_data / get_rms on every grid x band of the model correspondence above
    for k, (f, y, band, gk, mode, vi) in enumerate(rms_cases):
        if ctx.time_left() < 25:
            P.notes.append("generated-code differential: time budget reached")
            break
        n = len(f)
        base = {"f": f.tolist(), "y": y.tolist(), "band": band, "grid": gk, "mode": mode}
        # integral_rms
        r = ctx.driver.ask("grms " + C.arr(f) + " " + C.arr(y) + band_tokens(band))
        vg: Any = "RAISE" if r == "RAISE" else (C.h2f(r) if not r.startswith("ERR") else r)
        P.cases += 1
        P.hit("gen-integral_rms")
        P.hit(f"gen-rms-band-{mode}")
        P.hit(f"gen-rms-{gk}")
        if band is not None and (math.isinf(band[0]) or math.isinf(band[1])):
            P.hit("gen-rms-infinite-edge")
        if vi == "RAISE" or vg == "RAISE" or isinstance(vg, str):
            if vi != vg:
                gen_disagree(P, {"op": "grms", **base, "impl": vi, "generated": vg})
            else:
                P.hit("gen-rms-raise")
        elif not same_float(vi, vg):
            gen_disagree(P, {"op": "grms", **base, "impl": vi, "generated": vg})
        elif vi > 0:
            P.nontrivial.add(("gen-rms", n, gk, mode))
        # crop_data on the band itself (not clamped): raises for an inverted band, keeps both edges
        if band is not None:
            try:
                xc, yc = crop_data(f, y, band[0], band[1])
                ci: Any = (xc.tolist(), yc.tolist())
            except ValueError:
                ci = "RAISE"
            r = ctx.driver.ask("gcrop " + C.arr(f) + " " + C.arr(y) + f" {C.f2h(band[0])} {C.f2h(band[1])}")
            if r == "RAISE" or r.startswith("ERR"):
                cg: Any = r
            else:
                tk = r.split()
                nx, ny = int(tk[0]), int(tk[1])
                vals = [C.h2f(v) for v in tk[2:]]
                cg = (vals[:nx], vals[nx:nx + ny])
            P.cases += 1
            P.hit("gen-crop_data")
            if ci != cg:
                gen_disagree(P, {"op": "gcrop", **base, "impl": ci, "generated": cg})
            elif ci != "RAISE":
                P.hit("gen-crop-kept=%s" % ("0" if not ci[0] else "1" if len(ci[0]) == 1 else "all" if len(ci[0]) == n else "some"))
                if 0 < len(ci[0]) < n:
                    P.nontrivial.add(("gen-crop", n, gk, mode))
            else:
                P.hit("gen-crop-raise")
        # get_rms band handling: the band as generated, and (every third case) swapped; cross spectra refuse
        for variant in ((0, 1) if (band is not None and k % 3 == 0) else (0,)):
            b = band if (variant == 0 or band is None) else (band[1], band[0])
            iscsd = (k % 41 == 7)
            gi = impl_get_rms(f, y, b, iscsd)
            r = ctx.driver.ask(f"ggetrms {1 if iscsd else 0} " + C.arr(f) + " " + C.arr(y) + band_tokens(b))
            gg: Any = "RAISE" if r == "RAISE" else (C.h2f(r) if not r.startswith("ERR") else r)
            P.cases += 1
            P.hit("gen-get_rms")
            if b is not None and b[0] > b[1]:
                P.hit("gen-get_rms-swapped-band")
            if gi == "RAISE" or gg == "RAISE" or isinstance(gg, str):
                P.hit("gen-get_rms-raise")
                if gi != gg:
                    gen_disagree(P, {"op": "ggetrms", **base, "band": b, "iscsd": iscsd, "impl": gi, "generated": gg})
            elif not same_float(gi, gg):
                gen_disagree(P, {"op": "ggetrms", **base, "band": b, "iscsd": iscsd, "impl": gi, "generated": gg})
            elif gi > 0:
                P.nontrivial.add(("gen-get_rms", n, gk, mode, variant))
    # ---- polynomial_detrend: order 0 on the series above (bit-level: same mean? np.mean sums pairwise -> tolerance), orders 1..5 with
    #      NumPy's polyfit coefficients supplied as the contract parameter, rejected inputs
    extra = [(np.asarray(make_series(int(crng.integers(0, 2 ** 62)), int(n_), SERIES_KINDS[int(crng.integers(0, len(SERIES_KINDS)))]), dtype=np.float64), "short")
             for n_ in (1, 1, 2, 2, 3, 3, 4, 5, 6, 7)]
    for k, (x, kind) in enumerate(list(det_cases) + extra):
        if ctx.time_left() < 20:
            break
        n = len(x)
        amax = float(np.max(np.abs(x))) if n else 0.0
        orders = [0, int(crng.integers(1, 6))] + ([1, 2, 3, 4, 5] if kind == "short" else []) + ([-1] if k % 10 == 0 else [])
        tab = polyfit_table(x, 5)
        for order in orders:
            try:
                with warnings.catch_warnings():
                    warnings.simplefilter("ignore")
                    di: Any = np.asarray(polynomial_detrend(x, order), dtype=np.float64)
            except ValueError:
                di = "RAISE"
            r = ctx.driver.ask("gdetrend " + C.arr(x) + f" {order} {len(tab)} " + " ".join(C.arr(c) for c in tab))
            P.cases += 1
            P.hit(f"gen-detrend-order-{order}")
            if n < order + 1:
                P.hit("gen-detrend-short-series")
            if r == "RAISE" or r.startswith("ERR") or isinstance(di, str):
                if not (r == "RAISE" and isinstance(di, str)):
                    gen_disagree(P, {"op": "gdetrend", "x": x.tolist(), "order": order, "impl": di if isinstance(di, str) else di.tolist(), "generated": r[:200]})
                else:
                    P.hit("gen-detrend-raise")
                continue
            dg_ = np.array([C.h2f(v) for v in r.split()[1:]])
            # order 0: sequential (generated Arr.mean) vs pairwise (np.mean) summation; orders >= 1: identical Horner + subtraction on NumPy's own
            # coefficients, evaluated on integer abscissae (NumPy multiplies by the int array converted to float: same values)
            # (measured: orders >= 1 bit-identical, order 0 within 65 u max|x| for n <= 400)
            tol = 8 * U * (n + 2) * amax if order == 0 else 8 * U * (amax + float(np.max(np.abs(x - di)))) + 1e-300
            if dg_.shape != di.shape or not np.all(np.abs(di - dg_) <= tol):
                gen_disagree(P, {"op": "gdetrend", "x": x.tolist(), "order": order, "impl": di.tolist(), "generated": dg_.tolist(), "tol": tol})
            elif n >= 2 and float(np.ptp(x)) > 0:
                P.nontrivial.add(("gen-detrend", n, kind, order))
    P.notes.append(f"generated-code differential (region Rms): {t_start - ctx.time_left():.1f}s")


# =====================================================================================================================
#  SIZE sweep (family S): long records / long grids, sizes around the integer constants of the current source
# =====================================================================================================================
LONG_N = (70_001, 1_100_003)            # beyond 2**16 and beyond 2**20 / 1e6: well past anything in the regular generators (<= 20 000)
POW2_MARKS = (1 << 15, 1 << 16, 1 << 17, 1 << 20)
LONG_SERIES = ["trend", "offset", "walk", "step", "int", "white", "tiny"]      # trend / offset first: a term dropped beyond a threshold shows


def _blas_handles() -> List[Tuple[Any, Any]]:
    """(get_num_threads, set_num_threads) of every OpenBLAS loaded into this process"""
    out: List[Tuple[Any, Any]] = []
    try:
        paths = sorted({ln.split()[-1] for ln in open("/proc/self/maps") if "openblas" in ln.lower() and ".so" in ln})
    except Exception:
        return out
    for pth in paths:
        try:
            h = ctypes.CDLL(pth)
        except Exception:
            continue
        for stem in ("scipy_openblas_", "openblas_"):
            for suf in ("64_", "_64_", "", "_"):
                g, s = getattr(h, f"{stem}get_num_threads{suf}", None), getattr(h, f"{stem}set_num_threads{suf}", None)
                if g is not None and s is not None:
                    out.append((g, s))
                    break
            else:
                continue
            break
    return out


@contextlib.contextmanager
def one_blas_thread():
    """PERFORMANCE only: the runner imports NumPy before speckit, so speckit's `OPENBLAS_NUM_THREADS=1` default comes too late and every LAPACK /
    matmul call of the long-record and NumPy-backend cases spins 16 BLAS threads (measured on a loaded machine: polyfit at 1.1e6 samples 1.2-1.7 s
    vs 0.4 s, a NumPy-backend analysis of 2000 samples 4-9 s vs 0.04-0.3 s). Limits the loaded OpenBLAS to one thread for the duration of
    the sweep streams and restores the previous setting. No predicate depends on it (bit-identity is only demanded between two runs inside)."""
    hs = _blas_handles()
    old = []
    for g, s in hs:
        try:
            old.append(int(g()))
            s(1)
        except Exception:
            old.append(None)
    try:
        yield len(hs)
    finally:
        for (g, s), o in zip(hs, old):
            if o:
                try:
                    s(o)
                except Exception:
                    pass


def mined_constants() -> List[int]:
    """integer constants (>= 16) of the CURRENT speckit/dsp.py (the whole file: polynomial_detrend, df_detrend, crop_data, integral_rms and any
    helper a change may add) and of SpectrumResult.get_rms; on the unchanged tree: [31]"""
    out: List[int] = []
    try:
        out += C.mined_sizes(["speckit/dsp.py"])
        out += C.mined_sizes(["speckit/analysis.py"], lo=1024, names=["get_rms"])
    except Exception:
        pass
    return sorted(set(int(c) for c in out))


def probe_sizes(cap: int, limit: int) -> List[int]:
    """sizes around every mined constant c, at most `cap` samples each and `limit` sizes in all. Order = priority under a time budget: the sizes
    ABOVE a threshold first (c+1, c+17, 2c+3 — where block-wise code takes its second block), then c and c-1; larger constants first."""
    out: List[int] = []
    cs = sorted(mined_constants(), reverse=True)
    for group in ((1, 17), (None,), (0, -1)):
        for c in cs:
            for d in group:
                n = 2 * c + 3 if d is None else c + d
                if 2 <= n <= cap and n not in out and n not in LONG_N:
                    out.append(n)
    return out[:limit]


def detrend_long(ctx, P: C.Part, rng: np.random.Generator, intensive: bool) -> None:
    """polynomial_detrend / df_detrend on LONG records, every order 0..5 at every size. Predicates and tolerances are those of detrend_eval /
    poly_eval / df_eval (global over the WHOLE output: orthogonality sums run over all samples, 'the removed part is a polynomial', idempotence and
    polynomial -> 0 are maxima over all samples, so the last block counts as much as the first)."""
    t_in = ctx.time_left()
    deep = bool(ctx.thorough or intensive)
    budget = 60.0 if ctx.thorough else (30.0 if intensive else 9.0)      # the quick tier stays quick also when an obligation broke
    sizes = list(LONG_N) + probe_sizes(2_300_000 if deep else 1_200_000, 40 if deep else 15) + ([250_007, 2_200_003] if deep else [])
    for si, n in enumerate(sizes):
        big = n > 200_000
        if big and not deep:
            full_orders = {0} | {int(v) for v in rng.choice([1, 2, 3, 4, 5], size=(2 if n in LONG_N else 1), replace=False)}
        elif n == 2_200_003:
            full_orders = {0, 3}                       # t**3 passes 2**63 only beyond 2.1e6 samples
        else:
            full_orders = set(range(6))
        orders = list(range(6)) if n > 2000 else [int(v) for v in rng.choice(6, size=2, replace=False)]
        for p in orders:
            if t_in - ctx.time_left() > budget or ctx.time_left() < 40 or len(P.violations) >= MAX_VIOL:
                P.notes.append(f"long detrend stream stopped at n={n} order={p} (time budget)")
                return
            kind = LONG_SERIES[(si + p) % len(LONG_SERIES)]
            cs = int(rng.integers(0, 2 ** 62))
            x = make_series(cs, n, kind)
            P.hit("long-detrend-n=%s" % ("<=2000" if n <= 2000 else "<=2e5" if n <= 200_000 else ">2e5"))
            detrend_eval(P, x, p, {"gen": {"case_seed": cs, "n": n, "series": kind}}, light=(p not in full_orders))
            if p >= 1 and (not big or deep or p == max(full_orders)):
                coeffs = (rng.standard_normal(p + 1) * 10 ** rng.uniform(-2, 2, p + 1)).tolist()
                if coeffs[p] == 0.0:
                    coeffs[p] = 1.0
                poly_eval(P, n, p, coeffs)                       # a polynomial of FULL degree p at this length
    # df_detrend: the wrapper on long frames (its own loop / assignment may be block-wise even when polynomial_detrend is not)
    dsizes = [n for n in sizes if n > 2000]
    for di, n in enumerate(dsizes):
        big = n > 200_000
        nspec = (1 if big else 3) * (2 if deep else 1)
        for k in range(nspec):
            if t_in - ctx.time_left() > budget + (20.0 if ctx.thorough else 8.0 if intensive else 4.0) or ctx.time_left() < 40 or len(P.violations) >= MAX_VIOL:
                P.notes.append(f"long df_detrend stream stopped at n={n} (time budget)")
                return
            cols = [None, ["a", "i"], ["c"], ["i", "a", "c"]][(di + k) % 4] if not big else [["a"], ["i"], ["c", "a"]][int(rng.integers(0, 3))]
            spec = {"case_seed": int(rng.integers(0, 2 ** 62)), "n": n, "order": int(rng.integers(0, 6)) if k else [5, 4, 0, 3, 1, 2][di % 6],
                    "columns": cols, "inplace": bool(rng.integers(0, 2)), "suffix": [None, "_x"][int(rng.integers(0, 2))], "light": True}
            P.hit("long-df_detrend")
            df_eval(P, spec)
    P.notes.append(f"size sweep, detrend: sizes {sizes}, {t_in - ctx.time_left():.1f}s")


# ---------------------------------------------------------------- long / zero-rich / unsorted grids
BIG_GRIDS = ["lin", "log", "rand", "dup", "randlog", "lin0"]


def make_grid(spec: Dict[str, Any]) -> Tuple[np.ndarray, np.ndarray]:
    """the (grid, ASD) of a generated case: reproducible from (case_seed, n, grid kind, asd kind) — grids of 1e6 points are not stored in replays"""
    rng = np.random.default_rng(int(spec["case_seed"]))
    f = gen_grid(rng, int(spec["n"]), spec["grid"])
    y = gen_asd(rng, f, spec["asd"])
    return f, y


def index_marks(n: int, rng: np.random.Generator) -> List[int]:
    """grid indices at which a block-wise implementation would change block: multiples of the mined constants and of 2**15 .. 2**20, plus the
    first and the last points"""
    marks = {0, 1, n - 2, n - 1}
    for c in list(POW2_MARKS) + mined_constants():
        if 1 < c < n:
            ks = {1, (n - 1) // c} | {int(v) for v in rng.integers(1, (n - 1) // c + 1, size=2)}
            marks |= {k * c for k in ks}
    return sorted(m for m in marks if 0 <= m < n)


def window_checks(P: C.Part, rng: np.random.Generator, f: np.ndarray, y: np.ndarray, origin: Dict[str, Any], limit: int) -> None:
    """bands a few grid points wide around every index mark (edges ON grid points and BETWEEN grid points), the last / first points with an
    infinite or outside edge, and additivity split exactly AT the mark: the power of a narrow band is not hidden behind the full-band total"""
    n = len(f)
    marks = index_marks(n, rng)
    if len(marks) > limit:
        keep = {0, 1, n - 2, n - 1}
        rest = [m for m in marks if m not in keep]
        marks = sorted(keep & set(marks)) + [rest[int(i)] for i in rng.choice(len(rest), size=max(0, limit - 4), replace=False)]

    def mid(i: int) -> float:
        return float(f[i] + 0.5 * (f[i + 1] - f[i]))
    for c in marks:
        w = int(rng.integers(1, 4))
        lo, hi = max(0, c - w), min(n - 1, c + w)
        rms_eval(P, f, y, "spec", [(float(f[lo]), float(f[hi]))], tag="mark_grid", origin=origin)
        if lo >= 1 and hi + 1 <= n - 1:
            rms_eval(P, f, y, "spec", [(mid(lo - 1), mid(hi))], tag="mark_between", origin=origin)
        if 0 < c < n - 1:
            rms_eval(P, f, y, "split", [float(f[lo]), float(f[c]), float(f[hi])], tag="mark-split", origin=origin)
    span = float(f[-1] - f[0]) or 1.0
    rms_eval(P, f, y, "spec", [(float(f[n - 3]) if n >= 3 else float(f[0]), math.inf)], tag="last_inf", origin=origin)
    rms_eval(P, f, y, "spec", [(mid(n - 2), float(f[-1]) + span)], tag="last_one_point", origin=origin)
    rms_eval(P, f, y, "spec", [(-math.inf, float(f[min(2, n - 1)]))], tag="first_inf", origin=origin)
    rms_eval(P, f, y, "mono", [(float(f[n // 2]), float(f[n - 2])), (float(f[n // 2]), float(f[n - 1]))], tag="last", origin=origin)


def rms_sized(ctx, P: C.Part, rng: np.random.Generator, intensive: bool) -> None:
    """integral_rms on (a) small and medium grids with the zero-rich / tiny / huge ASD kinds, (b) unsorted grids (stored-order trapezoid), (c) LONG
    grids (70 001 and 1 100 003 points and sizes around the mined constants). Predicates: rms_eval (independent trapezoid over ALL grid points
    inside the band, monotone under nesting, additive at grid-point splits, super-additive elsewhere); tolerance rel_tol(n) = 8 (n + 10) u."""
    t_in = ctx.time_left()
    deep = bool(ctx.thorough or intensive)
    # (a) every zero-rich ASD kind on sizes 2 .. 2000, every grid kind
    na = 66 * (4 if deep else 1)
    for i in range(na):
        if ctx.time_left() < 40 or len(P.violations) >= MAX_VIOL:
            return
        n = [2, 3, 4, 5, 7, 12][i % 6] if i < 18 else int(rng.integers(6, 2001 if i % 3 else 80))
        gk = GRID_KINDS[i % len(GRID_KINDS)]
        ak = ASD_KINDS_X[5:][(i // 2) % 6] if i % 4 else ASD_ZERO_KINDS[(i // 4) % len(ASD_ZERO_KINDS)]
        f = gen_grid(rng, n, gk)
        y = gen_asd(rng, f, ak)
        P.hit(f"asd-{ak}")
        rms_grid_checks(P, rng, f, y, gk, nbands=3)
    # (b) unsorted grids: duplicates allowed, zeros allowed
    nb = 40 * (4 if deep else 1)
    for i in range(nb):
        if ctx.time_left() < 40 or len(P.violations) >= MAX_VIOL:
            return
        n = [2, 3, 4, 6][i % 4] if i < 8 else int(rng.integers(5, 1500 if i % 3 else 40))
        f = gen_grid(rng, n, "unsorted")
        if i % 5 == 2:
            f = rng.permutation(gen_grid(rng, n, "dup"))                       # unsorted AND duplicate frequencies
        y = gen_asd(rng, f, ASD_KINDS_X[i % len(ASD_KINDS_X)] if i % 6 != 1 else "white")
        fsort = np.sort(f)
        for mode in ["none", "cover", "inf_left", "inf_right", "grid_grid", "inside", "between", "one_point", "outside_right"] if len(f) >= 2 else ["none", "cover"]:
            rms_eval(P, f, y, "uspec", [gen_band(rng, fsort, mode)], variant=int(rng.choice([0, 0, 1, 2])), tag=mode)
    # (c) long grids
    budget = 40.0 if ctx.thorough else (20.0 if intensive else 7.0)
    sizes = list(LONG_N) + [n for n in probe_sizes(2_300_000 if deep else 1_200_000, 30 if deep else 10) if n > 2000]
    for si, n in enumerate(sizes):
        big = n > 200_000
        plans = [("sorted", "pos"), ("sorted", "zero")] + ([("unsorted", "any")] if (not big or deep) else [])
        if big and not deep and n not in LONG_N:
            plans = [plans[si % 2]]
        for which, ak_ in plans:
            if t_in - ctx.time_left() > budget or ctx.time_left() < 40 or len(P.violations) >= MAX_VIOL:
                P.notes.append(f"long rms stream stopped at n={n} (time budget)")
                return
            gk = BIG_GRIDS[int(rng.integers(0, len(BIG_GRIDS)))] if which == "sorted" else "unsorted"
            ak = {"pos": ["powerlaw", "lognormal", "white", "huge", "tiny"][int(rng.integers(0, 5))],
                  "zero": ASD_ZERO_KINDS[int(rng.integers(0, len(ASD_ZERO_KINDS)))],
                  "any": ASD_KINDS_X[int(rng.integers(0, len(ASD_KINDS_X)))]}[ak_]
            origin = {"kind": "rmsgen", "case_seed": int(rng.integers(0, 2 ** 62)), "n": n, "grid": gk, "asd": ak}
            f, y = make_grid(origin)
            P.hit("long-rms-n=%s" % ("<=2e5" if not big else ">2e5"))
            P.hit(f"long-rms-{gk}-{ak}")
            if which == "unsorted":
                fsort = np.sort(f)
                for mode in ["none", "cover", "inf_left", "inf_right", "grid_grid", "inside", "between"]:
                    rms_eval(P, f, y, "uspec", [gen_band(rng, fsort, mode)], tag=mode, origin=origin)
                continue
            rms_grid_checks(P, rng, f, y, gk, nbands=(2 if big and not deep else 5), origin=origin)
            window_checks(P, rng, f, y, origin, limit=(8 if big and not deep else 16))
    P.notes.append(f"size sweep, integral_rms: long sizes {sizes}, {t_in - ctx.time_left():.1f}s")


# =====================================================================================================================
#  OPTION sweep (family O): get_rms on results of every (backend, order) pair / entry point / scheduler / overlap form / window / layout
# =====================================================================================================================
O_ORDERS = (-1, 0, 1, 2)
O_SCHEDS = ["vectorized_ltf", "welch", "lpsd", "repeatL", "ltf", "new_ltf"]
O_OLAPS = ["default", "float", "zero", "high"]
O_WINS = ["kaiser", "hann", "callable", "default"]
O_ENTRIES = ["analyzer", "compute_spectrum", "lpsd"]
O_SB_ENTRIES = ["analyzer-L", "module-fres", "analyzer-fres", "module-L"]
O_CROSS_LAYOUTS = ["2xN", "Nx2", "list"]


def sweep_window(L: int) -> np.ndarray:
    """a positive user window whose values depend on L"""
    return 0.5 + ((np.arange(L) * 7 + 3 * L) % 11) / 11


def welch_sched(Lw: int):
    """a user scheduler: ONE fixed segment length (Welch), bins k*fs/L for k = 1 .. L/2, segments every max(1, floor((1-olap) L)) samples"""
    def welch_plan(N, fs, olap, **kw):
        L = int(min(Lw, N))
        shift = max(1, int((1.0 - float(olap)) * L))
        starts = np.arange(0, int(N) - L + 1, shift, dtype=np.int64)
        k = np.arange(1, L // 2 + 1)
        nf = len(k)
        return {"f": k * float(fs) / L, "r": np.full(nf, float(fs) / L), "b": k.astype(np.float64), "L": np.full(nf, L, dtype=np.int64),
                "K": np.full(nf, len(starts), dtype=np.int64), "navg": np.full(nf, len(starts), dtype=np.int64),
                "D": [starts.copy() for _ in range(nf)], "O": np.full(nf, float(olap))}
    welch_plan.__name__ = f"welch_plan_{Lw}"
    return welch_plan


def repeat_sched(base: int):
    """a user scheduler that lists a segment length AGAIN after a different one (b, 4b, b, b-1, 4b, b+1, b, 4b, b+1, b-1 — the 256, 1024, 256
    pattern), both parities, frequencies not tied to L (ascending for an even base, two of them exchanged for an odd base), at most 24 segments per bin"""
    def repeat_plan(N, fs, olap, **kw):
        b = int(max(8, min(base, int(N) // 5)))
        Ls = [min(int(N), v) for v in (b, 4 * b, b, b - 1, 4 * b, b + 1, b, 4 * b, b + 1, b - 1)]
        nf = len(Ls)
        f = float(fs) * (0.03 + 0.44 * np.arange(nf) / (nf - 1))
        if base % 2:                                    # odd base: the frequencies are NOT ascending (an unsorted result grid)
            f[[2, 5]] = f[[5, 2]]
        L = np.array(Ls, dtype=np.int64)
        D = []
        for Lj in Ls:
            shift = max(1, int((1.0 - float(olap)) * Lj))
            D.append(np.arange(0, int(N) - Lj + 1, shift, dtype=np.int64)[:24])
        K = np.array([len(d) for d in D], dtype=np.int64)
        r = float(fs) / L
        return {"f": f, "r": r, "b": f / r, "L": L, "K": K, "navg": K.copy(), "D": D, "O": np.full(nf, float(olap))}
    repeat_plan.__name__ = f"repeat_plan_{base}"
    return repeat_plan


# configurations on which the Parseval thresholds were measured (unchanged library, numba, 12 seeds x N in {2000, 4000} x orders -1..2 x white / red
# records carrying an offset of 50 sigma and a linear / quadratic trend of 80 / 60 sigma where the order removes them): worst deviation
# white 3.4 %, red 10.0 % (thresholds 15 % / 35 %). Welch plans with L = 255 / 512 and few averages reach 18 % on red records and are NOT used.
PARS_CFGS: List[Dict[str, Any]] = [{}, {"Jdes": 200}, {"olap": 0.5, "Jdes": 500}, {"win": "hann"}, {"scheduler": "lpsd", "Jdes": 300}, {"scheduler": "ltf"},
                                   {"scheduler": "new_ltf"}, {"scheduler": "welch:256"}]


def o_record(spec: Dict[str, Any]) -> Tuple[np.ndarray, float]:
    """noise (white / low-pass red) + what the detrending order removes EXACTLY from every segment: an offset (order >= 0), a line (>= 1), a
    parabola (2) — a kernel branch that drops a term leaks it into the spectrum. Returns (record, time-domain std of the noise part)."""
    rng = np.random.default_rng(int(spec["rec_seed"]))
    N = int(spec["N"])
    z = rng.standard_normal(N)
    if spec["noise"] == "red":
        import scipy.signal as ss
        b, a = ss.butter(1, 0.05)
        z = ss.lfilter(b, a, z)
    z = float(spec["amp"]) * z
    s = float(np.std(z))
    t = tscaled(N)
    k = float(spec.get("trend", 50.0))
    x = z.copy()
    order = int(spec["order"])
    if order >= 0:
        x = x + k * s
    if order >= 1:
        x = x + 1.6 * k * s * t
    if order >= 2:
        x = x - 1.2 * k * s * t * t
    return x, s


def o_kwargs(spec: Dict[str, Any], backend: str) -> Dict[str, Any]:
    kw: Dict[str, Any] = {"order": int(spec["order"]), "backend": backend}
    if spec["mode"] == "parseval":
        kw.update(PARS_CFGS[int(spec["cfg"])])
    else:
        kw.update(Jdes=int(spec["Jdes"]), Kdes=int(spec["Kdes"]), Lmin=int(spec["Lmin"]), scheduler=spec["scheduler"])
        ol = spec["olap"]
        kw["olap"] = {"default": "default", "float": float(spec["olap_val"]), "zero": 0.0, "high": 0.9995}[ol]
        w = spec["win"]
        if w == "kaiser":
            kw.update(win="kaiser", psll=float(spec["psll"]))
        elif w == "hann":
            kw.update(win="hann")
        elif w == "callable":
            kw.update(win=sweep_window)
        else:
            kw.update(psll=float(spec["psll"]))           # the constructor's default window
    sch = kw.get("scheduler")
    if isinstance(sch, str) and sch.startswith("welch"):
        kw["scheduler"] = welch_sched(int(sch.split(":")[1]) if ":" in sch else int(spec["sched_par"]))
    elif sch == "repeatL":
        kw["scheduler"] = repeat_sched(int(spec["sched_par"]))
    return kw


def o_call(spec: Dict[str, Any], backend: str, data: Any):
    """-> (result, analyzer or None)"""
    import speckit
    from speckit.analysis import SpectrumAnalyzer
    kw = o_kwargs(spec, backend)
    fs = float(spec["fs"])
    with warnings.catch_warnings():
        warnings.simplefilter("ignore")
        e = spec["entry"]
        if e == "analyzer":
            an = SpectrumAnalyzer(data, fs, **kw)
            return an.compute(), an
        if e == "compute_spectrum":
            return speckit.compute_spectrum(data, fs, **kw), None
        if e == "lpsd":
            return speckit.lpsd(data, fs, **kw), None
        L = int(spec["sb_L"])
        freq = float(spec["sb_freq"]) * fs
        req = {"L": L} if e.endswith("-L") else {"fres": fs / L}
        if e.startswith("analyzer"):
            an = SpectrumAnalyzer(data, fs, **kw)
            return an.compute_single_bin(freq, **req), an
        return speckit.compute_single_bin(data, fs, freq, **req, **kw), None


def trap_weights(f: np.ndarray) -> np.ndarray:
    w = np.zeros(len(f))
    d = np.diff(f)
    w[:-1] += d / 2
    w[1:] += d / 2
    return w


def backend_budget(res, xmax: float, order: int, fs: float) -> Optional[float]:
    """rounding budget of the full-band POWER of one auto result: sum_j w_j (G_j / XX_j) * tXX_j with w_j the trapezoid weights, tXX_j the forward bound
    of XX in bin j (_an.bin_tol, the budget of C01/C05: Goertzel growth, x8 for orders >= 1) with the magnitude scale a_j <= max|x| sum|w| = max|x|
    sqrt(S12_j) (all windows used here are non-negative), plus 64 u (L_j + 4) G_j for the window sums. None when a bin has XX = 0 < G or the grid is
    not sorted."""
    from . import _an as A
    f = np.asarray(res.f, dtype=np.float64)
    G = np.asarray(res.asd, dtype=np.float64) ** 2
    XX = np.asarray(res.XX, dtype=np.float64)
    S12 = np.asarray(res.S12, dtype=np.float64)
    Ls = np.asarray(res.L)
    if len(f) < 2 or not np.all(np.diff(f) >= 0):
        return None
    w = trap_weights(f)
    B = 0.0
    for j in range(len(f)):
        a = math.sqrt(max(float(S12[j]), 0.0)) * xmax
        tXX = A.bin_tol(int(Ls[j]), 2 * math.pi * float(f[j]) / fs, a, a, order)[0]
        if XX[j] > 0:
            B += float(w[j]) * (float(G[j]) / float(XX[j]) * tXX + 64 * U * (int(Ls[j]) + 4) * float(G[j]))
        elif G[j] > 0:
            return None
    return B


def get_rms_claims(P: C.Part, res, rng: np.random.Generator, rp: Dict[str, Any], label: str) -> Optional[float]:
    """every C19 claim about SpectrumResult.get_rms on ONE auto result: = integral_rms(f, asd, sorted band) = the independent trapezoid over the bins
    inside the band (sorted grids; stored-order signed trapezoid on an unsorted grid of a user scheduler), reversed band accepted, monotone /
    additive at a bin / super-additive through get_rms itself, the same answer when the same band is asked again after other bands, f and asd
    untouched. Returns the full-band RMS."""
    from speckit.dsp import integral_rms
    f = np.array(res.f, dtype=np.float64)
    asd = np.array(res.asd, dtype=np.float64)
    n = len(f)
    if n == 0 or asd.shape != f.shape or not (np.all(np.isfinite(f)) and np.all(np.isfinite(asd))):
        P.notes.append(f"{label}: result without a finite ASD on its grid (belongs to other properties)"[:160])
        return None
    sorted_grid = bool(np.all(np.diff(f) >= 0))
    fs_ = np.sort(f)
    P.hit("get_rms-grid-sorted" if sorted_grid else "get_rms-grid-unsorted")

    def sub(what: str, **kw) -> Dict[str, Any]:
        return dict({"sub": what, "via": "option-sweep"}, **kw)
    bands: List[Any] = [None, (float(fs_[0]), float(fs_[-1])), (float(fs_[-1]), float(fs_[0]))]
    for mode in ["inside", "grid_grid", "left_out", "right_out", "outside_left", "outside_right", "between", "one_point", "grid_in", "in_grid", "cover", "degenerate_grid"]:
        b = gen_band(rng, fs_, mode)
        if rng.random() < 0.5:
            b = (b[1], b[0])
        bands.append(b)
    with warnings.catch_warnings():
        warnings.simplefilter("ignore")
        full = float(integral_rms(f, asd, None))
    if not sorted_grid:        # the signed area of an unsorted grid can vanish or be negative (NaN): scale by the sum of |panels| instead
        full = math.sqrt(float(np.sum(np.abs(np.diff(f)) * (asd[1:] ** 2 + asd[:-1] ** 2) / 2))) if n >= 2 else 0.0
    first: Dict[int, float] = {}
    for bi, b in enumerate(bands):
        P.cases += 1
        P.hit("get_rms")
        sb = None if b is None else (min(b), max(b))
        swapped = b is not None and b[0] > b[1]
        if swapped:
            P.hit("get_rms-swapped-band")
        try:
            with warnings.catch_warnings():
                warnings.simplefilter("ignore")
                v = res.get_rms(b)
                e = float(integral_rms(f, asd, sb))
        except Exception as ex:
            add_violation(P, f"{label}: get_rms({b}) raised {ex!r} ({n} bins)", sub("get_rms-raises", swapped=swapped), dict(rp, band=b, error=repr(ex)))
            continue
        first[bi] = v
        if e > 0:
            P.nontrivial.add(("get_rms-sweep", label, bi))
        same = isinstance(v, float) and ((math.isnan(v) and math.isnan(e)) or within("get_rms", abs(v - e), 1e-12 * full))
        if not same:
            add_violation(P, f"{label}: get_rms({b}) = {v!r} but integral_rms(f, asd, {sb}) = {e!r} (full band {full!r})", sub("get_rms-equals-integral", swapped=swapped), dict(rp, band=b))
            continue
        if sorted_grid:
            ref, npts = ref_power(f, asd, sb)
            if not (abs(v * v - ref) <= rel_tol(n) * ref + GUARD):
                add_violation(P, f"{label}: get_rms({b})^2 = {v * v!r} but the trapezoid sum of asd^2 over the {npts} bins inside is {ref!r}", sub("get_rms-spec"), dict(rp, band=b))
    if not sorted_grid:                                  # stored-order trapezoid on the unsorted grid, through get_rms
        for mode in ["none", "cover", "inside", "grid_grid"]:
            b = gen_band(rng, fs_, mode)
            if b is None or (math.isfinite(b[0]) and math.isfinite(b[1])):
                rms_eval(P, f, asd, "uspec", [b], tag="result-" + mode, origin=rp, fn=res.get_rms)
    elif n >= 2:                                          # nesting / additivity through get_rms itself
        for _ in range(2):
            q = sorted(float(fs_[int(rng.integers(0, n))]) if rng.random() < 0.5 else pick(rng, fs_) for _ in range(4))
            rms_eval(P, f, asd, "mono", [(q[1], q[2]), (q[0], q[3])], tag="result", origin=rp, fn=res.get_rms)
            i = int(rng.integers(0, n))
            lo, hi = int(rng.integers(0, i + 1)), int(rng.integers(i, n))
            rms_eval(P, f, asd, "split", [float(f[lo]), float(f[i]), float(f[hi])], tag="result", origin=rp, fn=res.get_rms)
            m = pick(rng, fs_)
            rms_eval(P, f, asd, "split", [float(f[0]), m, float(f[-1])], tag="result", origin=rp, fn=res.get_rms)
    # the same bands asked again, in reverse order, AFTER all the other queries: same code path on an immutable result -> bit-identical
    for bi in sorted(first, reverse=True):
        P.cases += 1
        try:
            with warnings.catch_warnings():
                warnings.simplefilter("ignore")
                v2 = res.get_rms(bands[bi])
        except Exception as ex:
            add_violation(P, f"{label}: the second get_rms({bands[bi]}) raised {ex!r}", sub("get_rms-repeat"), dict(rp, band=bands[bi], error=repr(ex)))
            continue
        v1 = first[bi]
        if not (v2 == v1 or (isinstance(v2, float) and math.isnan(v1) and math.isnan(v2))):
            add_violation(P, f"{label}: get_rms({bands[bi]}) = {v1!r} at first, {v2!r} when asked again after other bands on the same result", sub("get_rms-repeat"), dict(rp, band=bands[bi]))
    if not (np.array_equal(np.asarray(res.f, dtype=np.float64), f) and np.array_equal(np.asarray(res.asd, dtype=np.float64), asd)):
        add_violation(P, f"{label}: result.f / result.asd changed while get_rms was called", sub("get_rms-mutates-result"), rp)
    with warnings.catch_warnings():
        warnings.simplefilter("ignore")
        return float(integral_rms(f, asd, None))


def o_full(P: C.Part, spec: Dict[str, Any]) -> Optional[float]:
    """one analysis-level case: the SAME record and options on the NumPy backend and on the Numba backend (requested as 'numba' or 'auto')"""
    x, s = o_record(spec)
    xmax = float(np.max(np.abs(x)))
    fs, order = float(spec["fs"]), int(spec["order"])
    rp = {"kind": "ocase", **spec}
    rng = np.random.default_rng(int(spec["rec_seed"]) + 7)
    out: Dict[str, Any] = {}
    dev = None
    for be in ("numpy", spec["nb"]):
        label = f"[{spec['entry']} backend={be} order={order} {spec['mode']}:{spec.get('scheduler', spec.get('cfg'))} olap={spec.get('olap')} win={spec.get('win')} N={spec['N']}]"
        xin = x.copy()
        data = xin.tolist() if spec["layout"] == "list" else xin
        try:
            res, an = o_call(spec, be, data)
            asd_ok = res.asd is not None and not res.iscsd
        except Exception as ex:      # planning / computation problems belong to other properties
            P.hit("O-analysis-failed")
            P.notes.append(f"option sweep: {label} failed: {ex!r}"[:200])
            return None
        P.hit(f"O-auto:{'numpy' if be == 'numpy' else 'numba'}:order={order}")
        P.hit(f"O-entry:{spec['entry']}")
        P.hit(f"O-backend-arg:{be}")
        if spec["mode"] == "sweep":
            for kk in ("scheduler", "olap", "win", "layout"):
                P.hit(f"O-{kk}:{spec[kk]}")
            P.hit("O-Lparity:" + "+".join(sorted({"odd" if int(v) % 2 else "even" for v in np.asarray(res.L)})))
            P.hit("O-K:" + "+".join(sorted({("1" if int(v) == 1 else "2" if int(v) == 2 else ">2") for v in np.asarray(res.K)})))
        if not asd_ok:
            add_violation(P, f"{label}: a one-channel analysis returned a result without ASD (iscsd={res.iscsd})", {"sub": "O-auto-result-without-asd"}, rp)
            return None
        if not np.array_equal(xin, x):
            add_violation(P, f"{label}: the input array was modified by the analysis", {"sub": "O-input-modified", "backend": be, "order": order}, rp)
        full = get_rms_claims(P, res, rng, rp, label)
        if full is None:
            return None
        out[be] = (res, full)
        if spec.get("repeat"):
            # second call on the same analyzer (or the same module-level call on the same input array): same code path -> bit-identical
            try:
                with warnings.catch_warnings():
                    warnings.simplefilter("ignore")
                    res2 = an.compute() if an is not None else o_call(spec, be, data)[0]
                    same = (np.array_equal(np.asarray(res2.f), np.asarray(res.f)) and np.array_equal(np.asarray(res2.asd), np.asarray(res.asd))
                            and res2.get_rms() == res.get_rms())
            except Exception as ex:
                same = False
                P.notes.append(f"option sweep: second call of {label} raised {ex!r}"[:200])
            P.cases += 1
            P.hit("O-second-call")
            if not same:
                add_violation(P, f"{label}: the second call on the same analyzer / input gives a different f / asd / full-band RMS than the first",
                              {"sub": "O-second-call-differs", "backend": be, "order": order}, rp)
            if not np.array_equal(xin, x):
                add_violation(P, f"{label}: the input array was modified by the second call", {"sub": "O-input-modified", "backend": be, "order": order}, rp)
        if spec["mode"] == "parseval":
            P.cases += 1
            P.hit("parseval-" + spec["noise"])
            dev = full / s - 1.0
            P.nontrivial.add(("parseval-sweep", be, order, spec["noise"], spec["cfg"], spec["N"]))
            thr = PARSEVAL_THR[spec["noise"]]
            if not within("parseval-" + spec["noise"], abs(dev), thr):
                add_violation(P, f"{label}: full-band RMS of the computed ASD = {full:.6g} but the time-domain RMS of the record (after removing what order "
                                 f"{order} removes) is {s:.6g} (deviation {100 * dev:+.1f} %, allowed {100 * thr:.0f} %); {spec['noise']} noise fs={fs}",
                              {"sub": "parseval", "noise": spec["noise"], "backend": be, "order": order}, rp)
    # the two backends under identical options
    (r1, p1), (r2, p2) = out["numpy"], out[spec["nb"]]
    P.cases += 1
    P.hit("O-backend-agreement")
    if np.array_equal(np.asarray(r1.f), np.asarray(r2.f)):
        B1, B2 = backend_budget(r1, xmax, order, fs), backend_budget(r2, xmax, order, fs)
        if B1 is not None and B2 is not None:
            n = len(r1.f)
            tol = B1 + B2 + 2 * rel_tol(n) * max(p1 * p1, p2 * p2) + GUARD
            P.nontrivial.add(("backend-agreement", order, spec["mode"], spec.get("scheduler", spec.get("cfg")), n))
            if not within("backend-agreement", abs(p1 * p1 - p2 * p2), tol):
                add_violation(P, f"full-band power differs between backends under identical options: numpy {p1 * p1!r}, {spec['nb']} {p2 * p2!r} "
                                 f"(difference {abs(p1 * p1 - p2 * p2):.3g}, kernels' rounding budget {tol:.3g}); order={order} entry={spec['entry']} "
                                 f"{spec['mode']}:{spec.get('scheduler', spec.get('cfg'))} N={spec['N']}", {"sub": "O-backend-agreement", "order": order}, rp)
    else:
        P.hit("O-backend-grids-differ")
        P.notes.append(f"option sweep: frequency grids differ between backends for {spec.get('scheduler', spec.get('cfg'))} (belongs to C05)"[:160])
    return dev


def o_single(P: C.Part, spec: Dict[str, Any]) -> None:
    """single-bin results (one grid point): get_rms is 0 for every band (fewer than two points), reversed bands accepted"""
    x, s = o_record(spec)
    fs, order = float(spec["fs"]), int(spec["order"])
    rp = {"kind": "ocase", **spec}
    for be in ("numpy", spec["nb"]):
        label = f"[{spec['entry']} backend={be} order={order} L={spec['sb_L']} N={spec['N']}]"
        xin = x.copy()
        try:
            res, _ = o_call(spec, be, xin.tolist() if spec["layout"] == "list" else xin)
            f0 = float(np.asarray(res.f, dtype=np.float64).ravel()[0])
            nb = int(np.asarray(res.f).size)
        except Exception as ex:
            P.hit("O-analysis-failed")
            P.notes.append(f"option sweep: {label} failed: {ex!r}"[:200])
            return
        P.hit(f"O-single:{'numpy' if be == 'numpy' else 'numba'}:order={order}")
        P.hit(f"O-entry:{spec['entry']}")
        if nb != 1:
            P.notes.append(f"option sweep: {label} returned {nb} bins (belongs to C05)")
            continue
        w = abs(f0) + fs
        for b in [None, (f0 - 0.5 * w, f0 + 0.5 * w), (f0 + 0.5 * w, f0 - 0.5 * w), (f0, f0), (0.0, fs / 2), (f0, f0 + w), (f0 - w, f0), (f0 + 0.1 * w, f0 + w)]:
            P.cases += 1
            P.hit("get_rms-single-bin")
            try:
                with warnings.catch_warnings():
                    warnings.simplefilter("ignore")
                    v = res.get_rms(b)
            except Exception as ex:
                add_violation(P, f"{label}: get_rms({b}) on a single-bin result raised {ex!r}", {"sub": "get_rms-single-bin", "what": "raises"}, dict(rp, band=b, error=repr(ex)))
                continue
            if float(np.asarray(res.asd, dtype=np.float64).ravel()[0]) > 0:
                P.nontrivial.add(("get_rms-single", be, order, spec["entry"]))
            if not (isinstance(v, float) and v == 0.0):
                add_violation(P, f"{label}: get_rms({b}) = {v!r} on a single-bin result (one grid point at {f0!r}); fewer than two points inside any band: must be 0",
                              {"sub": "get_rms-single-bin", "what": "nonzero"}, dict(rp, band=b))
        try:                                               # what the code does with a non-finite edge: ValueError (gen_get_rms_nonfinite); recorded
            res.get_rms((-math.inf, f0))
            P.hit("get_rms-infinite-edge-accepted")
        except ValueError:
            P.hit("get_rms-infinite-edge-ValueError")
        except Exception:
            P.hit("get_rms-infinite-edge-other-exception")


def o_cross(P: C.Part, spec: Dict[str, Any]) -> None:
    """two-channel results: asd is None, and get_rms REFUSES (NotImplementedError, raised before asd is read: theorem gen_get_rms_csd). A number
    returned here would be 'the RMS' of a result that has no ASD to integrate: reported. Another exception type is recorded, not judged."""
    x, s = o_record(spec)
    rng = np.random.default_rng(int(spec["rec_seed"]) + 11)
    x2 = 0.5 * np.roll(x, 3) + s * rng.standard_normal(len(x))
    lay = spec["layout"]
    d = np.ascontiguousarray(np.stack([x, x2]))
    data: Any = d if lay == "2xN" else (np.ascontiguousarray(d.T) if lay == "Nx2" else d.tolist())
    rp = {"kind": "ocase", **spec}
    order = int(spec["order"])
    for be in ("numpy", spec["nb"]):
        label = f"[cross {spec['entry']} backend={be} order={order} layout={lay} N={spec['N']}]"
        try:
            res, _ = o_call(spec, be, data)
            iscsd = bool(res.iscsd)
        except Exception as ex:
            P.hit("O-analysis-failed")
            P.notes.append(f"option sweep: {label} failed: {ex!r}"[:200])
            return
        P.hit(f"O-cross:{'numpy' if be == 'numpy' else 'numba'}:order={order}")
        P.hit(f"O-cross-layout:{lay}")
        P.hit(f"O-entry:{spec['entry']}")
        if not iscsd:
            P.notes.append(f"option sweep: {label}: two channels but iscsd is False (belongs to C05)")
            continue
        P.hit("cross-asd-is-None" if res.asd is None else "cross-asd-not-None")
        f = np.sort(np.asarray(res.f, dtype=np.float64).ravel())
        for b in [None, (float(f[0]), float(f[-1])), (float(f[-1]), float(f[0]))]:
            P.cases += 1
            P.hit("get_rms-cross")
            try:
                with warnings.catch_warnings():
                    warnings.simplefilter("ignore")
                    v = res.get_rms(b)
            except NotImplementedError:
                P.nontrivial.add(("get_rms-cross", be, order, lay, spec["entry"]))
                P.hit("cross-get_rms-NotImplementedError")
                continue
            except Exception as ex:
                P.hit("cross-get_rms-other-exception")
                P.notes.append(f"option sweep: {label}: get_rms({b}) raised {ex!r} instead of NotImplementedError"[:200])
                continue
            add_violation(P, f"{label}: get_rms({b}) = {v!r} on a cross-spectral result (asd is {'None' if res.asd is None else 'set'}): there is no ASD whose "
                             f"trapezoidal integral this could be; the method must refuse", {"sub": "get_rms-cross-returns-value", "backend": be, "order": order}, dict(rp, band=b))


def o_eval(P: C.Part, spec: Dict[str, Any]) -> Optional[float]:
    w = spec.get("what")
    if w == "single":
        return o_single(P, spec)
    if w == "cross":
        return o_cross(P, spec)
    return o_full(P, spec)


def gen_o_spec(rng: np.random.Generator, k: int, off: int, order: int, what: str, mode: str) -> Dict[str, Any]:
    """ONE generator for the options of every analysis-level case: cycles entry points, schedulers, overlap forms, windows, layouts with the case
    index k and a per-run offset (so that other seeds see other combinations); both backends are run for every spec"""
    q = k + off
    c = k // 4 + k + off                                # k % 4 is the position in O_ORDERS: advance the option cycles with the round as well
    spec: Dict[str, Any] = {"what": what, "mode": mode, "rec_seed": int(rng.integers(0, 2 ** 62)), "order": int(order), "nb": ["numba", "auto"][q % 2],
                            "fs": float(rng.choice([1.0, 10.0, 1000.0, 1e-3, 1e-6, 3.7e4])), "noise": ["white", "red"][(q // 2) % 2],
                            "amp": float(rng.choice([3.7, 0.02, 150.0])), "repeat": bool(q % 2 == 0)}
    if mode == "parseval":
        spec.update(N=int(rng.choice([2000, 4000])), cfg=int(rng.integers(0, len(PARS_CFGS))), trend=50.0, entry=O_ENTRIES[q % 3], layout="array")
        return spec
    N = int(rng.integers(600, 1501))
    spec.update(N=N, trend=5.0, scheduler=O_SCHEDS[c % len(O_SCHEDS)], olap=O_OLAPS[(c + off // 7) % len(O_OLAPS)], olap_val=float(rng.uniform(0.1, 0.9)),
                win=O_WINS[(c // 2 + off // 3) % len(O_WINS)], psll=float(rng.choice([60.0, 100.0, 200.0])), Jdes=int(rng.integers(8, 31)),
                Kdes=int(rng.choice([1, 2, 5, 20])), Lmin=int(max(8, N // 40) + int(rng.integers(0, 2))),
                sched_par=int(rng.choice([63, 64, 96, 127])), layout=["array", "list"][(c // 3) % 2])
    if what == "single":
        spec.update(entry=O_SB_ENTRIES[q % len(O_SB_ENTRIES)], sb_L=int(rng.integers(16, N + 1)) if q % 3 else N, sb_freq=float(rng.uniform(0.01, 0.49)))
        if spec["olap"] == "high":
            spec["olap"] = "float"                       # navg of a single bin grows like 1/(1-olap): keep it cheap
    elif what == "cross":
        spec.update(entry=O_ENTRIES[q % 3] if q % 4 else O_SB_ENTRIES[q % 4], layout=O_CROSS_LAYOUTS[q % 3], N=int(rng.integers(300, 601)),
                    sb_L=int(rng.integers(16, 300)), sb_freq=float(rng.uniform(0.01, 0.49)))
        spec["Lmin"] = max(8, spec["N"] // 30)
        if spec["olap"] == "high":
            spec["olap"] = "zero"
    else:
        spec.update(entry=O_ENTRIES[q % 3])
    return spec


def option_sweep(ctx, P: C.Part, rng: np.random.Generator, intensive: bool) -> None:
    t_in = ctx.time_left()
    deep = bool(ctx.thorough or intensive)
    rounds = 12 if ctx.thorough else (8 if intensive else 4)
    budget = 120.0 if ctx.thorough else (45.0 if intensive else 12.0)
    off = int(rng.integers(0, 1000))
    devs: Dict[str, List[float]] = {"white": [], "red": []}
    k = 0
    cnt: Dict[Tuple[str, str], int] = {}
    for rd in range(rounds):
        for what, mode in (("full", "sweep"), ("full", "parseval"), ("single", "sweep"), ("cross", "sweep")):
            if what == "full" and mode == "parseval" and rd >= max(1, rounds // 2):
                continue
            for order in O_ORDERS:
                if t_in - ctx.time_left() > budget or ctx.time_left() < 25 or len(P.violations) >= MAX_VIOL:
                    P.notes.append(f"option sweep stopped in round {rd} ({what}/{mode}, time budget)")
                    return
                kk_ = cnt.get((what, mode), 0)                # a counter per kind of case: the option cycles advance with it
                cnt[(what, mode)] = kk_ + 1
                spec = gen_o_spec(rng, kk_, off, order, what, mode)
                k += 1
                dev = o_eval(P, spec)
                if mode == "parseval" and dev is not None:
                    devs[spec["noise"]].append(dev)
                if k == 3:
                    P.sample({"op": "option-sweep", **{kk: spec[kk] for kk in ("what", "mode", "order", "nb", "entry", "N") if kk in spec}}, cap=12)
    for kk, v in devs.items():
        if v:
            P.notes.append(f"Parseval per (backend, order), {kk} noise: {len(v)} records x 2 backends, deviation in [{100 * min(v):+.2f} %, {100 * max(v):+.2f} %]")
    P.notes.append(f"option sweep: {k} specs x 2 backends, {t_in - ctx.time_left():.1f}s")


# =====================================================================================================================
#  oracle
# =====================================================================================================================
def corpus(P: C.Part) -> None:
    """No failure of C19 is on record for the unchanged tree (DESIGN §3: holds in sampling). The corpus therefore holds the concrete
    witness of the C19-d subtlety (off-grid split loses the straddling panel) and the smallest structural cases."""
    f = np.array([1.0, 2.0, 4.0, 8.0])
    y = np.array([1.0, 2.0, 3.0, 1.0])
    for band in [None, (2.0, 8.0), (1.0, 1.0), (2.5, 3.5), (3.0, 5.0), (0.0, 1.0), (8.0, 9.0), (-1.0, 0.5), (1.0, 2.0)]:
        rms_eval(P, f, y, "spec", [band], tag="corpus")
    rms_eval(P, f, y, "split", [1.0, 4.0, 8.0], tag="corpus")     # on grid: additive
    rms_eval(P, f, y, "split", [1.0, 3.0, 8.0], tag="corpus")     # off grid: panel [2,4] (power 13) lost from both parts
    rms_eval(P, f, y, "split", [1.0, 1.0, 8.0], tag="corpus")
    rms_eval(P, f, y, "split", [1.0, 8.0, 8.0], tag="corpus")
    rms_eval(P, f, y, "mono", [(2.0, 4.0), (1.5, 4.5)], tag="corpus")
    rms_eval(P, np.array([3.0]), np.array([2.0]), "spec", [None], tag="corpus")
    rms_eval(P, np.array([3.0]), np.array([2.0]), "spec", [(0.0, 10.0)], tag="corpus")
    for x, p in [([5.0], 0), ([5.0], 3), ([1.0, 4.0], 1), ([1.0, 4.0], 5), ([1.0, 2.0, 4.0], 0), ([0.0, 1.0, 4.0, 9.0, 16.0], 2),
                 ([0.1, 0.1, 0.1], 0), ([0.0, 0.0, 0.0, 0.0], 2), ([3.0, -1.0, 2.0, 7.0, 1.0, -4.0, 0.5], 5)]:
        detrend_eval(P, np.array(x), p, {"x": x})


def oracle(ctx, intensive: bool = False, hints=()) -> C.Part:
    _quiet()
    P = C.Part()
    rng = ctx.rng
    mult = 4 if intensive else 1
    MARGIN.clear()
    corpus(P)

    # -- inputs on which the model and the code disagreed (if any)
    for h in list(hints)[:20]:
        try:
            if h.get("op") == "rms":
                f, y = np.array(h["f"], dtype=np.float64), np.array(h["y"], dtype=np.float64)
                if np.all(np.diff(f) >= 0) and (h.get("band") is None or h["band"][0] <= h["band"][1]):
                    rms_eval(P, f, y, "spec", [h.get("band")], tag="hint")
                    rms_grid_checks(P, rng, f, y, "hint", 6)
            elif h.get("op") == "detrend0":
                detrend_eval(P, np.array(h["x"], dtype=np.float64), 0, {"x": h["x"]})
        except Exception as ex:
            P.notes.append(f"hint not usable: {ex!r}"[:120])

    # -- (1) polynomial_detrend
    nser = ctx.scale(300, 3000) * mult
    for i in range(nser):
        if ctx.time_left() < 60 or len(P.violations) >= MAX_VIOL:
            break
        if i < 48:
            n = [1, 2, 3, 4, 5, 6, 7, 8][i % 8]                    # around order+1 for every order
        elif i % 25 == 0:
            n = int(rng.choice([5000, 12345, 20000]))
        else:
            n = int(rng.integers(9, 2001))
        p = (i // 8) % 6 if i < 48 else int(rng.integers(0, 6))
        kind = SERIES_KINDS[i % len(SERIES_KINDS)]
        cs = int(rng.integers(0, 2 ** 62))
        x = make_series(cs, n, kind)
        detrend_eval(P, x, p, {"gen": {"case_seed": cs, "n": n, "series": kind}}, as_list=(i % 7 == 3 and n <= 500))
        if i in (50, 51):
            P.sample({"op": "detrend", "n": n, "order": p, "series": kind}, cap=8)
    npoly = ctx.scale(120, 1200) * mult
    for i in range(npoly):
        if ctx.time_left() < 55 or len(P.violations) >= MAX_VIOL:
            break
        n = int(rng.choice([1, 2, 3, 5, 6, 7, 20, int(rng.integers(8, 2001)), int(rng.integers(8, 2001))])) if i % 30 else 20000
        p = int(rng.integers(0, 6))
        q = int(rng.integers(0, p + 1))
        coeffs = (rng.standard_normal(q + 1) * 10 ** rng.uniform(-3, 3, q + 1)).tolist()
        if coeffs[q] == 0.0:
            coeffs[q] = 1.0
        poly_eval(P, n, p, coeffs)

    # -- (2) df_detrend
    ndf = ctx.scale(100, 1000) * mult
    for i in range(ndf):
        if ctx.time_left() < 50 or len(P.violations) >= MAX_VIOL:
            break
        spec = gen_df_spec(rng, i)
        df_eval(P, spec)
        if i == 2:
            P.sample({"op": "df_detrend", **spec}, cap=9)

    # -- (3) integral_rms
    ngrid = ctx.scale(200, 2000) * mult
    for i in range(ngrid):
        if ctx.time_left() < 45 or len(P.violations) >= MAX_VIOL:
            break
        n = (i % 6) + 1 if i < 24 else (int(rng.integers(7, 2001)) if i % 4 else int(rng.integers(7, 60)))
        gk = GRID_KINDS[i % len(GRID_KINDS)]
        f = gen_grid(rng, n, gk)
        y = gen_asd(rng, f, ASD_KINDS[(i // len(GRID_KINDS)) % len(ASD_KINDS)])
        rms_grid_checks(P, rng, f, y, gk, nbands=6)
        if i == 30:
            P.sample({"op": "integral_rms", "n": len(f), "grid": gk, "f[:3]": f[:3].tolist(), "asd[:3]": y[:3].tolist()}, cap=10)

    # -- (4)+(5) get_rms on computed results, Parseval probe
    nres = ctx.scale(24, 200) * mult
    devs: Dict[str, List[float]] = {"white": [], "red": []}
    cross_probe(P, rng)
    for i in range(nres):
        if ctx.time_left() < 25 or len(P.violations) >= MAX_VIOL:
            P.notes.append(f"result stream stopped after {i} records (time budget)")
            break
        spec = gen_result_spec(rng, i, ctx.thorough)
        dev = result_eval(P, spec)
        if dev is not None:
            devs[spec["noise"]].append(dev)
    for k, v in devs.items():
        if v:
            P.notes.append(f"Parseval probe, {k} noise: {len(v)} records, deviation full-band RMS / time-domain RMS - 1 in "
                           f"[{100 * min(v):+.2f} %, {100 * max(v):+.2f} %], threshold {100 * PARSEVAL_THR[k]:.0f} %")

    # -- (6)-(8) sweeps over SIZES and analysis OPTIONS (after the streams above, whose random inputs are therefore unchanged). Each stream has
    #    its own child generator (one integer drawn from ctx.rng each), so a stream cut short by its time budget does not shift the others.
    seeds = [int(v) for v in rng.integers(0, 2 ** 62, size=3)]
    with one_blas_thread() as nblas:
        P.hit("blas-libraries-limited-to-one-thread", int(nblas))
        for fn_, sd in zip((option_sweep, rms_sized, detrend_long), seeds):
            if len(P.violations) >= MAX_VIOL or ctx.time_left() < 40:
                P.notes.append(f"{fn_.__name__} skipped (time budget / violation cap)")
                continue
            try:
                fn_(ctx, P, np.random.default_rng(sd), intensive)
            except Exception as ex:       # a failure of the sweep machinery itself must not hide the results above
                import traceback
                P.notes.append(f"{fn_.__name__} aborted: {ex!r} :: {traceback.format_exc()[-300:]}"[:480])
                P.hit("sweep-stream-aborted")
    P.notes.append("worst observed fraction of the allowed tolerance: " + ", ".join(f"{k} {v:.2g}" for k, v in sorted(MARGIN.items())))
    return P


# =====================================================================================================================
#  replay
# =====================================================================================================================
def replay(ctx, data) -> C.Part:
    _quiet()
    P = C.Part()
    for v in data.get("violations", []):
        r = v["replay"]
        k = r.get("kind")
        if k == "rms":
            rms_eval(P, np.array([_f(t) for t in r["f"]]), np.array([_f(t) for t in r["y"]]), r["check"], r["args"], int(r.get("variant", 0)), tag="replay")
        elif k == "detrend":
            if "x" in r:
                x = np.array(r["x"])
            else:
                g = r["gen"]
                x = make_series(int(g["case_seed"]), int(g["n"]), g["series"])
            detrend_eval(P, x, int(r["order"]), {kk: r[kk] for kk in ("x", "gen") if kk in r}, as_list=bool(r.get("as_list", False)),
                         light=bool(r.get("light", False)))
        elif k == "poly":
            poly_eval(P, int(r["n"]), int(r["order"]), r["coeffs"])
        elif k == "df":
            df_eval(P, {kk: r[kk] for kk in ("case_seed", "n", "order", "columns", "inplace", "suffix", "light") if kk in r})
        elif k == "result":
            result_eval(P, {kk: r[kk] for kk in ("rec_seed", "N", "fs", "noise", "amp", "cfg")})
        elif k == "rmsgen":
            org = {kk: r[kk] for kk in ("kind", "case_seed", "n", "grid", "asd")}
            f, y = make_grid(org)
            rms_eval(P, f, y, r["check"], r["args"], int(r.get("variant", 0)), tag="replay", origin=org)
        elif k == "ocase":
            with one_blas_thread():
                o_eval(P, {kk: vv for kk, vv in r.items() if kk not in ("check", "args", "variant", "band", "error")})
        else:
            P.notes.append(f"unknown replay kind {k!r}")
    return P
