"""C04 — resolution is log-spaced and monotone; averaging honours the overlap."""
from __future__ import annotations

from typing import List

from .. import common as C
from . import _sched as S
from .C02 import WITNESSES

PROP = "C04"
GEN_REGIONS: List[str] = ["Sched", "Utils", "SchedGlue", "ConfigGlue", "GlobalState"]
THEOREMS = {
    "SpecKitV.Lemmas.SchedLtf": ["ltfStep_mono", "ltfStep_logspaced", "ltfStep_K"],
    "SpecKitV.Lemmas.Starts": ["nsegRaw_eq", "capK_le", "startsEven_safe", "startsAccum_safe", "overlapMean_eq_closed", "overlapMean_accum_eq_closed"],
    "SpecKitV.Lemmas.SchedNewVec": ["SchedNV.searchLeft_mono", "SchedNV.roundEven_mono", "SchedNV.roundEven_abs_sub_le"],
    "SpecKitV.Props.C04": ["ltfPlan_monotone", "lpsdPlan_monotone", "ltfPlan_K_formula", "lpsdPlan_K_formula", "ltfPlan_logspaced", "plan_even_spread", "plan_overlap_reported", "findJdes_sound", "findJdes_fuel", "findJdes_complete"],
    "SpecKitV.Props.JdesGen": ["gen_findJdes_eq_model", "gen_findJdes_sound", "gen_findJdes_complete", "gen_findJdes_complete_log"],
    "SpecKitV.Props.C04New": ["newPlan_monotone", "NewMono.newStep_mono", "NewMono.inv_step", "NewMono.newK_anti"],
    "SpecKitV.Props.C04Vec": ["vecGridPoint_mono", "vecGrid_mono", "vecGrid_pos", "vecPlan_monotone"],
    "SpecKitV.Props.SchedGen": ["gen_ltf_round_eq", "gen_ltf_walk_eq_model", "gen_new_walk_eq_model"],
    "SpecKitV.Props.VecGen": ["Arr.memo_eq", "Np.logspace_get", "Np.searchsortedLeft_eq", "gen_vec_walk_eq_model", "gen_vec_walk_eq_plan"],
    "SpecKitV.Props.StartsGen": ["gen_ltf_starts_eq_model", "gen_ltf_starts_safe"],
    "SpecKitV.Props.PostGen": ["gen_vec_post_eq_model", "gen_new_post_eq_vec_post", "gen_post_starts_safe"],
    "SpecKitV.Props.Utils": ["gen_round_half_up_eq_model", "gen_round_half_up_eq_floor"],
    "SpecKitV.Props.SchedGlueGen": ["SchedGlue.gen_require_args_eq", "SchedGlue.gen_ltf_post_eq", "SchedGlue.gen_vec_post_glue_eq", "SchedGlue.gen_new_post_glue_eq", "SchedGlue.gen_ltf_plan_eq_model", "SchedGlue.gen_vec_plan_eq_model", "SchedGlue.gen_new_plan_eq_model", "SchedGlue.gen_lpsd_forward", "SchedGlue.gen_lpsd_plan_eq_ltf", "SchedGlue.gen_lpsd_plan_eq_model", "SchedGlue.gen_plan_missing_key", "SchedGlue.gen_lpsd_missing_key", "SchedGlue.planDict_keys", "SchedGlue.gen_plan_wiring", "SchedGlue.planDict_overlap", "SchedGlue.gen_ltf_plan_props", "SchedGlue.gen_lpsd_plan_props", "SchedGlue.gen_new_plan_props", "SchedGlue.gen_vec_plan_props", "SchedGlue.gen_plan_overlap_key"],
    "SpecKitV.Props.ConfigGlueGen": ["ConfigGlue.gen_window_eq_spec", "ConfigGlue.gen_window_explicit_olap", "ConfigGlue.gen_window_explicit_olap_ok",
                                     "ConfigGlue.gen_sched_eq_spec", "ConfigGlue.gen_sched_new_ltf", "ConfigGlue.gen_sched_callable", "ConfigGlue.gen_cg_plan_eq_model"],
    # no state outlives a call in the files this property is anchored in (no module/class-level containers, memoisers, mutable defaults) and the
    # decorators are exactly the audited ones (region GlobalState, re-scanned from the current source each run)
    "SpecKitV.Props.GlobalStateGen": ["GlobalStateGen.gen_globalState_schedulers", "GlobalStateGen.gen_globalState_utils"],
}
CONTRACTS: List[str] = [
    'Python dict with string keys = association list, most recent binding first (Py.Dict in Np/SchedGlue.lean): d[k]=v (last write wins), d[k], k in d, dict(d) copies, d.update(e), dict(k=v,...)',
    'np.array(list) = NpSG.ofList: element i is list[i], length len(list); NpSG.toList / NpSG.toList2: the elements of a (nested) array in order (the view under which the output dictionary is stated)',
    "NumPy basic slicing a[lo:hi] (step 1) = NpSG.slice with Python's normalisation of negative / out-of-range bounds; np.mean = left-to-right sum / length (Arr.mean)",
]
ASSUMPTIONS = ["sub-claim 'vectorised bin count within 10 % of the iterative one' is a comparison of two algorithms that no theorem here decides: "
               "it is probed on the real schedulers only (known finding D10 for Jdes < 10)",
               "monotonicity of L/K is proved for all four schedulers (Props/C04, C04Vec, C04New) over the reals; in floats a rounding tie can flip a single step, which is what the oracle's instability probe absorbs"]
RULE = "admissible configurations × 4 schedulers; every bin checked; distinct by (scheduler, configuration)"

D10 = {"N": 16861, "fs": 1.0, "olap": 0.9, "bmin": 1.5, "Lmin": 1, "Jdes": 1, "Kdes": 10}


def correspondence(ctx) -> C.Part:
    P = C.Part()
    cfgs = S.correspondence_plans(ctx, P, ctx.scale(80, 600))
    # the GENERATED Jdes search (translated from utils.find_Jdes_binary_search each run) driving the generated walks,
    # against the real search driving the real schedulers (iterative schedulers only: the vectorised one is too slow in the model
    # at Jdes ~ 5e5, where its lookup grid has 5e6 points)
    from speckit.utils import find_Jdes_binary_search
    from speckit import schedulers as SK
    for i in range(ctx.scale(6, 40)):
        if ctx.time_left() < 60:
            break
        cfg = {"N": int(ctx.rng.integers(300, 4000)), "fs": float(ctx.rng.choice([1.0, 2.0, 100.0])), "olap": float(ctx.rng.choice([0.0, 0.5, 0.75])),
               "bmin": float(ctx.rng.choice([1.0, 2.0])), "Lmin": int(ctx.rng.choice([1, 8])), "Kdes": int(ctx.rng.choice([2, 10, 50]))}
        target = int(ctx.rng.integers(20, 600))
        which, fn = (("ltf", SK.ltf_plan), ("new", SK.new_ltf_plan))[i % 2]
        try:
            real = find_Jdes_binary_search(fn, target, **cfg)
        except Exception as ex:
            P.disagreements.append({"op": "genjdes", "sched": which, "cfg": cfg, "target": target, "impl_raised": repr(ex)})
            continue
        g = ctx.driver.ask(f"genjdes {which} {cfg['N']} {C.f2h(cfg['fs'])} {C.f2h(cfg['olap'])} {C.f2h(cfg['bmin'])} {cfg['Lmin']} 100 {cfg['Kdes']} {target}")
        P.cases += 1
        P.hit("genjdes-" + which + ("-found" if real is not None else "-none"))
        P.nontrivial.add(("genjdes", which, cfg["N"], target))
        want = "none" if real is None else f"some {int(real)}"
        if g != want:
            P.disagreements.append({"op": "genjdes", "sched": which, "cfg": cfg, "target": target, "generated": g, "impl": want})
    # region SchedGlue: the generated schedulers (unpacking, lpsd forwarding, statements after the walk, output dictionary) vs the real ones
    # (last, so that the one integer it draws from ctx.rng does not shift the streams above)
    S.correspondence_glue(ctx, P, cfgs)
    return P


def check_cfg(P: C.Part, cfg, scheds=S.SCHEDS, count: bool = True, analyzer: bool = False) -> None:
    for sched in scheds:
        P.cases += 1
        P.hit(sched)
        P.nontrivial.add((sched,) + S.cfg_key(cfg))
        try:
            plan = S.real_plan(sched, cfg)
        except BaseException as ex:  # noqa
            P.violations.append(S.viol(PROP, sched, cfg, "scheduler-raises", f"scheduler raised {ex!r}"))
            continue
        P.violations.extend(S.pred_C04(sched, cfg, plan))
        if analyzer:
            # the same predicate on the plan the ANALYZER builds when the overlap is requested explicitly: "averaging honours the overlap"
            # is about the overlap the user asked for, so the path request -> resolved overlap -> scheduler is part of the claim
            # (wave-5 miss C04e: an explicit olap=0 silently replaced by the window's default)
            P.cases += 1
            P.hit("through-analyzer")
            try:
                ap = S.analyzer_norm_plan(sched, cfg, win=("hann", "kaiser")[len(P.nontrivial) % 2])
            except BaseException as ex:  # noqa
                P.violations.append(S.viol(PROP, sched, cfg, "analyzer-raises", f"SpectrumAnalyzer.plan() raised {ex!r} for an admissible configuration",
                                           extra={"entry": "analyzer"}))
                continue
            for v in S.pred_C04(sched, cfg, ap):
                v.signature["entry"] = "analyzer"
                v.what = "through SpectrumAnalyzer.plan(): " + v.what
                v.replay["entry"] = "analyzer"
                P.violations.append(v)
    if count:
        P.cases += 1
        try:
            P.violations.extend(S.pred_C04_count(cfg))
        except BaseException:  # noqa  (reported by the loop above)
            pass


# ------------------------------------------------------------------------------------------ forced count over a call sequence on ONE analyzer
# "forcing a target bin count yields exactly that count or an error" holds for the request the analyzer was built with
# (Jdes=<count>, force_target_nf=True), i.e. for EVERY plan()/compute() on that object: a retry after an exception (an `except` block, a
# re-run notebook cell) has not changed the request.  Wave-7 miss C04g: the state written before the `solved_Jdes is None` guard made the
# first call raise and the second return an ordinary un-forced plan (1047 bins where exactly 500 were demanded).  The class covered here:
# exception paths (unreachable target below / above what the search interval [MIN_JDES, MAX_JDES] can give, an always-empty band, a
# single-bin request, another analyzer's failing plan) leave the analyzer able only to raise again or to deliver exactly the count.
FORCE_SEQS = {
    "retry": ("plan", "plan", "plan", "compute", "plan"),
    "compute-first": ("compute", "compute", "plan", "compute"),
    "single-bin": ("single", "plan", "single", "plan", "compute", "single", "plan"),
    "other-fails": ("other-empty-band", "plan", "other-unreachable", "plan", "compute", "plan"),
    "retry-short": ("plan", "compute"),         # quick tier, vectorised scheduler: every failing call repeats a search of 1-3 s
}
FORCE_CORPUS = [
    # the witnesses of C04g scaled to a short record: Lmin = N/10 makes every Jdes of the interval give >= 120 bins (60 unreachable);
    # 1500 > the N/2 = 1000 bins the record can give
    {"N": 2000, "fs": 1.0, "olap": 0.5, "bmin": 1.0, "Lmin": 200, "Kdes": 20, "scheduler": "ltf", "target": 60, "band": None, "win": "kaiser",
     "seq": "retry", "klass": "too-small", "data_seed": 1},
    {"N": 2000, "fs": 1.0, "olap": 0.5, "bmin": 1.0, "Lmin": 1, "Kdes": 20, "scheduler": "new_ltf", "target": 1500, "band": None, "win": "hann",
     "seq": "compute-first", "klass": "too-large", "data_seed": 2},
    {"N": 1200, "fs": 2.0, "olap": 0.5, "bmin": 1.0, "Lmin": 1, "Kdes": 10, "scheduler": "lpsd", "target": 3, "band": None, "win": "kaiser",
     "seq": "single-bin", "klass": "too-small", "data_seed": 3},
]


def _force_kwargs(case):
    kw = dict(olap=case["olap"], bmin=case["bmin"], Lmin=case["Lmin"], Kdes=case["Kdes"], scheduler=case["scheduler"], backend="numpy")
    if case.get("win") == "hann":
        kw["win"] = "hann"
    return kw


def run_force_sequence(case) -> tuple:
    """(violations, outcomes): every plan()/compute() of the sequence on ONE analyzer built with Jdes=target, force_target_nf=True either
    raises or delivers exactly `target` bins (integers compared exactly; nothing else is demanded: an error on every retry is fine, and so is
    a different plan with the same count).  Steps that are not forced requests ("single": compute_single_bin on the same analyzer;
    "other-…": a plan() of ANOTHER analyzer that fails) are only interleaved, never judged."""
    import numpy as np
    from speckit.analysis import SpectrumAnalyzer
    N, fs, target, sched = case["N"], case["fs"], case["target"], case["scheduler"]
    x = np.random.default_rng(case["data_seed"]).standard_normal(N)
    kw = _force_kwargs(case)
    band = None if case.get("band") is None else tuple(case["band"])
    outcomes: List[str] = []
    try:
        an = SpectrumAnalyzer(x, fs, Jdes=target, force_target_nf=True, band=band, **kw)
    except Exception as ex:  # noqa  (a refused request is an error, which the clause admits)
        return [], ["ctor:" + type(ex).__name__]
    for k, step in enumerate(FORCE_SEQS[case["seq"]]):
        if step == "single":
            try:
                an.compute_single_bin(0.11 * fs, L=max(2, N // 7))
                outcomes.append("single:ok")
            except BaseException as ex:  # noqa
                outcomes.append("single:" + type(ex).__name__)
            continue
        if step.startswith("other-"):
            try:
                if step == "other-empty-band":       # below the first frequency bmin*fs/N >= fs/N of every plan
                    SpectrumAnalyzer(x, fs, Jdes=target, force_target_nf=True, band=(0.0, 0.25 * fs / N), **kw).plan()
                else:                                # more bins than N/2 distinct frequencies
                    SpectrumAnalyzer(x, fs, Jdes=N + 5, force_target_nf=True, **kw).plan()
                outcomes.append(step + ":ok")
            except BaseException as ex:  # noqa
                outcomes.append(step + ":" + type(ex).__name__)
            continue
        try:
            if step == "plan":
                p = an.plan()
                got = {"nf": int(p["nf"]), **{key: len(p[key]) for key in ("f", "L", "K", "D")}}
            else:
                r = an.compute()
                got = {"nf": int(r.nf), "f": len(r.f), "XX": len(r.XX)}
        except KeyboardInterrupt:
            raise
        except BaseException as ex:  # noqa  (SystemExit is how ltf_plan reports an empty plan)
            outcomes.append(step + ":" + type(ex).__name__)
            continue
        outcomes.append(step + ":%d" % got["nf"])
        if any(v != target for v in got.values()):
            earlier = ", ".join(outcomes[:-1]) or "none"
            after_error = any(o.split(":")[0] in ("plan", "compute") and not o.split(":")[1].isdigit() for o in outcomes[:-1])
            sig = {"scheduler": sched, "subclaim": "forced-count-sequence", "step": step, "after_error": after_error}
            return [C.Violation(what=f"{sched}: exactly {target} bins forced (force_target_nf=True), but call #{k + 1} ({step}()) on the same analyzer "
                                     f"returned {got} without an error; earlier calls: {earlier}  case={case}",
                                signature=sig,
                                replay={"scheduler": sched, "subclaim": "forced-count-sequence", "case": case,
                                        "cfg": {"N": N, "fs": fs, "olap": case["olap"], "bmin": case["bmin"], "Lmin": case["Lmin"], "Jdes": target,
                                                "Kdes": case["Kdes"]}})], outcomes
    return [], outcomes


def gen_force_case(rng, sched: str, klass: str, seq: str, n_max: int):
    """a forced request of the given class; the attainable range of counts [lo, hi] is read off the real scheduler at the ends of the search
    interval (only to AIM the target: the predicate does not depend on it).  The vectorised scheduler needs ~1 s per call at Jdes ~ 1e6
    (a 1e7-point grid), so its upper end is taken from the iterative one (the two agree there: all N/2 Fourier frequencies)."""
    from speckit import utils as U
    lo = hi = lo1 = None
    for _ in range(8):
        N = int(rng.integers(300, n_max + 1))
        cfg = {"N": N, "fs": float(rng.choice([1.0, 10.0, 0.37])), "olap": float(rng.choice([0.5, 0.75, 0.0, 0.3])),
               "bmin": float(rng.choice([1.0, 1.0, 2.0])), "Lmin": int(rng.choice([1, 1, 8, max(2, N // 10), max(2, N // 4)])),
               "Kdes": int(rng.choice([2, 10, 50]))}
        if klass == "too-small" and rng.random() < 0.5:
            cfg["Lmin"] = max(2, N // int(rng.integers(4, 12)))          # nearly linear spacing: every Jdes gives many bins
        try:
            lo = int(S.sched_fn(sched)(**cfg, Jdes=int(U.MIN_JDES))["nf"])
            lo1 = int(S.sched_fn(sched)(**cfg, Jdes=int(U.MIN_JDES) + 1)["nf"])
            hi = int(S.sched_fn("ltf" if sched == "vectorized_ltf" else sched)(**S.eff(cfg, sched), Jdes=int(U.MAX_JDES))["nf"])
        except BaseException:  # noqa
            lo, lo1, hi = 50, 51, N // 2
        if klass != "ends" or lo != lo1:             # lower end reachable ONLY at Jdes = MIN_JDES, the last probe of the search
            break
    if klass == "reachable":
        target = int(rng.integers(lo + 1, max(lo + 2, min(hi, 4 * lo))))
    elif klass == "too-small":
        target = int(rng.choice([int(rng.integers(1, 6)), max(1, lo - 1), int(rng.integers(1, max(2, lo)))]))
    elif klass == "too-large":
        target = int(rng.choice([hi + 1, int(rng.integers(hi + 1, 4 * hi + 2)), N, N // 2 + 1]))
    else:
        target = int(rng.choice([lo, lo, hi, hi - 1, lo + 1]))
    band = None
    br = rng.random()
    if br < 0.15:
        band = [0.0, float(cfg["fs"])]                # every frequency of every plan: nothing is filtered, the count stays the forced one
    elif br < 0.3:
        band = [0.0, 0.25 * cfg["fs"] / N]            # below the first frequency of every plan: every call must raise (DESIGN §8.3 (i))
    return dict(cfg, scheduler=sched, target=max(1, target), band=band, win=("kaiser", "hann")[int(rng.integers(0, 2))], seq=seq, klass=klass,
                data_seed=int(rng.integers(0, 2 ** 31)))


def force_sequences(ctx, P: C.Part, intensive: bool) -> None:
    import time as _time
    import numpy as np
    rng = ctx.rng.spawn(1)[0]
    t0 = _time.time()
    cap = (60.0 if ctx.thorough else 9.0) * (2 if intensive else 1)
    klasses = ["reachable", "too-small", "too-large", "ends"]
    seqs = ["retry", "compute-first", "single-bin", "other-fails"]
    cases = list(FORCE_CORPUS)
    vec_cases: List[dict] = []
    rounds = ctx.scale(1, 4) * (4 if intensive else 1)
    off = int(rng.integers(0, 4))
    for rd in range(rounds):
        for ki, klass in enumerate(klasses):
            for si, sched in enumerate(["ltf", "lpsd", "new_ltf"]):
                cases.append(gen_force_case(rng, sched, klass, seqs[(ki + si + rd + off) % 4], ctx.scale(2000, 4000)))
        # the vectorised scheduler repeats a search of 1-3 s (grids of up to 1e7 points) on every failing call, 10-30 s when the target is too
        # large (all ~20 probes at Jdes > 5e5): quick tier = ONE failing request (too small: the cheapest failing search) retried once;
        # thorough tier = every class, the too-large one retried once and only if the budget allows
        if not ctx.thorough and rd > 0:
            continue
        if ctx.thorough:
            vk = klasses[(rd + off) % 4]
            vc = gen_force_case(rng, "vectorized_ltf", vk, "retry-short" if vk == "too-large" else ("retry", "compute-first")[rd % 2], 1200)
        else:
            vc = gen_force_case(rng, "vectorized_ltf", "too-small", "retry-short", 1200)
            vc["band"] = None
        vec_cases.append(vc)
    cases += sorted(vec_cases, key=lambda c: c["klass"] == "too-large")      # last: the time cap cuts these first
    for case in cases:
        if case["scheduler"] == "vectorized_ltf" and not (ctx.thorough or intensive) and _time.time() - t0 > 5.0:
            P.notes.append("forced-count sequences: vectorised case skipped (the iterative ones took %.1f s)" % (_time.time() - t0))
            continue
        if case["scheduler"] == "vectorized_ltf" and case["klass"] == "too-large" and ctx.time_left() < 300:
            P.notes.append("forced-count sequences: vectorised too-large case skipped (two searches of ~20 probes at Jdes > 5e5 each)")
            continue
        if (_time.time() - t0 > cap and not (case["scheduler"] == "vectorized_ltf" and case["klass"] == "too-large")) or ctx.time_left() < 25:
            P.notes.append("forced-count sequences stopped at the time cap")
            break
        if sum(1 for v in P.violations if v.signature.get("subclaim") == "forced-count-sequence") >= 4:
            break
        vs, outcomes = run_force_sequence(case)
        P.cases += 1
        judged = [o for o in outcomes if o.split(":")[0] in ("plan", "compute")]
        raised = sum(1 for o in judged if not o.split(":")[1].isdigit())
        P.hit("forced-seq-" + case["klass"] + ("-raises" if raised == len(judged) else "-delivers" if raised == 0 else "-mixed"))
        P.hit("forced-seq-" + case["scheduler"])
        P.hit("forced-seq-calls", len(judged))
        if case["band"] is not None:
            P.hit("forced-seq-band-" + ("empty" if case["band"][1] < case["fs"] / 2 else "full"))
        P.nontrivial.add(("force-seq", case["scheduler"], case["klass"], case["seq"], case["N"], case["target"]))
        if len(P.samples) < 6 and case["klass"] != "reachable":
            P.sample({"op": "forced-count-sequence", "case": case, "outcomes": outcomes})
        P.violations.extend(vs)
    P.notes.append(f"forced-count sequences: {len(cases)} analyzers in {_time.time() - t0:.1f} s")


def oracle(ctx, intensive: bool = False, hints=()) -> C.Part:
    P = C.Part()
    for w in WITNESSES + [D10]:
        check_cfg(P, w)
    # explicit overlaps at the ends of the admissible range, through the analyzer (corpus: wave-5 change C04e)
    for w in ({"N": 4096, "fs": 1.0, "olap": 0.0, "bmin": 1.0, "Lmin": 1, "Jdes": 30, "Kdes": 10},
              {"N": 1000, "fs": 2.0, "olap": 0.0, "bmin": 1.5, "Lmin": 4, "Jdes": 12, "Kdes": 4},
              {"N": 3000, "fs": 10.0, "olap": 0.999, "bmin": 1.0, "Lmin": 1, "Jdes": 20, "Kdes": 50}):
        check_cfg(P, w, count=False, analyzer=True)
    for h in hints:
        if isinstance(h, dict) and "cfg" in h:
            check_cfg(P, h["cfg"])
    # forced count over a call SEQUENCE on one analyzer, failing calls included.  Before the random sweep, which in the thorough tier runs until
    # the budget is used up; on a generator SPAWNED from ctx.rng (reproducible from the seed, and the streams below stay what they were)
    force_sequences(ctx, P, intensive)
    n = ctx.scale(120, 2000) * (4 if intensive else 1)
    for i in range(n):
        if ctx.time_left() < 40 or len([v for v in P.violations if v.signature.get("subclaim") != "count-vs-iterative"]) >= 8:
            break
        cfg = S.gen_cfg(ctx.rng, ctx.thorough, small=(i % 4 == 0))
        check_cfg(P, cfg, analyzer=(i % 3 == 1))
        if i < 4:
            P.sample({"op": "oracle", "cfg": cfg})
    # forced target count (binary search over Jdes in [100, 1e6]): exactly the target or an error
    for i in range(ctx.scale(3, 12)):
        if ctx.time_left() < 25:
            break
        N = int(ctx.rng.integers(1500, 6000))
        cfg = {"N": N, "fs": float(ctx.rng.choice([1.0, 10.0])), "olap": float(ctx.rng.choice([0.5, 0.75])), "bmin": 1.0, "Lmin": 1,
               "Jdes": int(ctx.rng.integers(120, 400)), "Kdes": int(ctx.rng.choice([10, 50]))}
        sched = ["ltf", "lpsd", "vectorized_ltf", "new_ltf"][i % 4]
        P.cases += 1
        P.hit("forced-count")
        P.violations.extend(S.pred_C04_force(cfg, sched))
    # the same over call histories: consecutive forced plans differing in ONE parameter (overlap, Kdes, fs, N, bmin, Lmin, target)
    for i in range(ctx.scale(2, 8)):
        if ctx.time_left() < 25:
            break
        base = {"N": int(ctx.rng.integers(1500, 5000)), "fs": float(ctx.rng.choice([1.0, 10.0])), "olap": 0.5, "bmin": 1.0, "Lmin": 1,
                "Jdes": int(ctx.rng.integers(120, 300)), "Kdes": 10}
        hist = [dict(base)]
        for key, val in (("olap", 0.75), ("olap", 0.0), ("Kdes", 50), ("fs", base["fs"] * 3.0), ("N", base["N"] + 137),
                         ("bmin", 2.0), ("Lmin", 16), ("Jdes", base["Jdes"] + 17), ("olap", 0.9)):
            nxt = dict(hist[-1])
            nxt[key] = val
            hist.append(nxt)
        sched = ["ltf", "vectorized_ltf", "lpsd", "new_ltf"][i % 4]
        P.cases += 1
        P.hit("forced-count-history", len(hist))
        P.nontrivial.add(("force-history", sched, base["N"], base["Jdes"]))
        P.violations.extend(S.pred_C04_force_history(hist, sched))
    return P


def replay(ctx, data) -> C.Part:
    P = C.Part()
    for v in data.get("violations", []):
        r = v["replay"]
        if r["subclaim"] == "forced-count-history":
            P.violations.extend(S.pred_C04_force_history(r["history"], r["scheduler"]))
            P.cases += 1
        elif r["subclaim"] == "forced-count":
            P.violations.extend(S.pred_C04_force(r["cfg"], r["scheduler"]))
            P.cases += 1
        elif r["subclaim"] == "forced-count-sequence":
            P.violations.extend(run_force_sequence(r["case"])[0])
            P.cases += 1
        else:
            check_cfg(P, r["cfg"], scheds=[r["scheduler"]], count=(r["subclaim"] == "count-vs-iterative"), analyzer=(r.get("entry") == "analyzer"))
    return P
