"""C04 — resolution is log-spaced and monotone; averaging honours the overlap."""
from __future__ import annotations

from typing import List

from .. import common as C
from . import _sched as S
from .C02 import WITNESSES

PROP = "C04"
GEN_REGIONS: List[str] = ["Sched", "Utils", "SchedGlue", "ConfigGlue"]
THEOREMS = {
    "SpecKitV.Lemmas.SchedLtf": ["ltfStep_mono", "ltfStep_logspaced", "ltfStep_K"],
    "SpecKitV.Lemmas.Starts": ["nsegRaw_eq", "capK_le", "startsEven_safe", "startsAccum_safe", "overlapMean_eq_closed", "overlapMean_accum_eq_closed"],
    "SpecKitV.Lemmas.SchedNewVec": ["SchedNV.searchLeft_mono", "SchedNV.roundEven_mono", "SchedNV.roundEven_abs_sub_le"],
    "SpecKitV.Props.C04": ["ltfPlan_monotone", "lpsdPlan_monotone", "ltfPlan_K_formula", "lpsdPlan_K_formula", "ltfPlan_logspaced", "plan_even_spread", "plan_overlap_reported", "findJdes_sound", "findJdes_fuel", "findJdes_complete"],
    "SpecKitV.Props.JdesGen": ["gen_findJdes_eq_model", "gen_findJdes_sound", "gen_findJdes_complete", "gen_findJdes_complete_log"],
    "SpecKitV.Props.C04New": ["newPlan_monotone", "NewMono.newStep_mono", "NewMono.inv_step", "NewMono.newK_anti"],
    "SpecKitV.Props.C04Vec": ["vecGridPoint_mono", "vecGrid_mono", "vecGrid_pos", "vecPlan_monotone"],
    "SpecKitV.Props.SchedGen": ["gen_ltf_round_eq", "gen_ltf_walk_eq_model", "gen_new_walk_eq_model"],
    "SpecKitV.Props.VecGen": ["Arr.memo_eq", "Np.logspace_get", "Np.searchsortedLeft_eq", "gen_vec_walk_eq_model", "gen_vec_walk_eq_plan"],
    "SpecKitV.Props.StartsGen": ["gen_ltf_starts_eq_model", "gen_ltf_starts_safe"],
    "SpecKitV.Props.PostGen": ["gen_vec_post_eq_model", "gen_new_post_eq_vec_post", "gen_post_starts_safe"],
    "SpecKitV.Props.Utils": ["gen_round_half_up_eq_model", "gen_round_half_up_eq_floor"],
    "SpecKitV.Props.SchedGlueGen": ["SchedGlue.gen_require_args_eq", "SchedGlue.gen_ltf_post_eq", "SchedGlue.gen_vec_post_glue_eq", "SchedGlue.gen_new_post_glue_eq", "SchedGlue.gen_ltf_plan_eq_model", "SchedGlue.gen_vec_plan_eq_model", "SchedGlue.gen_new_plan_eq_model", "SchedGlue.gen_lpsd_forward", "SchedGlue.gen_lpsd_plan_eq_ltf", "SchedGlue.gen_lpsd_plan_eq_model", "SchedGlue.gen_plan_missing_key", "SchedGlue.gen_lpsd_missing_key", "SchedGlue.planDict_keys", "SchedGlue.gen_plan_wiring", "SchedGlue.planDict_overlap", "SchedGlue.gen_ltf_plan_props", "SchedGlue.gen_lpsd_plan_props", "SchedGlue.gen_new_plan_props", "SchedGlue.gen_vec_plan_props", "SchedGlue.gen_plan_overlap_key"],
    "SpecKitV.Props.ConfigGlueGen": ["ConfigGlue.gen_window_eq_spec", "ConfigGlue.gen_window_explicit_olap", "ConfigGlue.gen_window_explicit_olap_ok",
                                     "ConfigGlue.gen_sched_eq_spec", "ConfigGlue.gen_sched_new_ltf", "ConfigGlue.gen_sched_callable", "ConfigGlue.gen_cg_plan_eq_model"],
}
CONTRACTS: List[str] = [
    'Python dict with string keys = association list, most recent binding first (Py.Dict in Np/SchedGlue.lean): d[k]=v (last write wins), d[k], k in d, dict(d) copies, d.update(e), dict(k=v,...)',
    'np.array(list) = NpSG.ofList: element i is list[i], length len(list); NpSG.toList / NpSG.toList2: the elements of a (nested) array in order (the view under which the output dictionary is stated)',
    "NumPy basic slicing a[lo:hi] (step 1) = NpSG.slice with Python's normalisation of negative / out-of-range bounds; np.mean = left-to-right sum / length (Arr.mean)",
]
ASSUMPTIONS = ["sub-claim 'vectorised bin count within 10 % of the iterative one' is a comparison of two algorithms that no theorem here decides: "
               "it is probed on the real schedulers only (known finding D10 for Jdes < 10)",
               "monotonicity of L/K is proved for all four schedulers (Props/C04, C04Vec, C04New) over the reals; in floats a rounding tie can flip a single step, which is what the oracle's instability probe absorbs"]
RULE = "admissible configurations × 4 schedulers; every bin checked; distinct by (scheduler, configuration)"

D10 = {"N": 16861, "fs": 1.0, "olap": 0.9, "bmin": 1.5, "Lmin": 1, "Jdes": 1, "Kdes": 10}


def correspondence(ctx) -> C.Part:
    P = C.Part()
    cfgs = S.correspondence_plans(ctx, P, ctx.scale(80, 600))
    # the GENERATED Jdes search (translated from utils.find_Jdes_binary_search each run) driving the generated walks,
    # against the real search driving the real schedulers (iterative schedulers only: the vectorised one is too slow in the model
    # at Jdes ~ 5e5, where its lookup grid has 5e6 points)
    from speckit.utils import find_Jdes_binary_search
    from speckit import schedulers as SK
    for i in range(ctx.scale(6, 40)):
        if ctx.time_left() < 60:
            break
        cfg = {"N": int(ctx.rng.integers(300, 4000)), "fs": float(ctx.rng.choice([1.0, 2.0, 100.0])), "olap": float(ctx.rng.choice([0.0, 0.5, 0.75])),
               "bmin": float(ctx.rng.choice([1.0, 2.0])), "Lmin": int(ctx.rng.choice([1, 8])), "Kdes": int(ctx.rng.choice([2, 10, 50]))}
        target = int(ctx.rng.integers(20, 600))
        which, fn = (("ltf", SK.ltf_plan), ("new", SK.new_ltf_plan))[i % 2]
        try:
            real = find_Jdes_binary_search(fn, target, **cfg)
        except Exception as ex:
            P.disagreements.append({"op": "genjdes", "sched": which, "cfg": cfg, "target": target, "impl_raised": repr(ex)})
            continue
        g = ctx.driver.ask(f"genjdes {which} {cfg['N']} {C.f2h(cfg['fs'])} {C.f2h(cfg['olap'])} {C.f2h(cfg['bmin'])} {cfg['Lmin']} 100 {cfg['Kdes']} {target}")
        P.cases += 1
        P.hit("genjdes-" + which + ("-found" if real is not None else "-none"))
        P.nontrivial.add(("genjdes", which, cfg["N"], target))
        want = "none" if real is None else f"some {int(real)}"
        if g != want:
            P.disagreements.append({"op": "genjdes", "sched": which, "cfg": cfg, "target": target, "generated": g, "impl": want})
    # region SchedGlue: the generated schedulers (unpacking, lpsd forwarding, statements after the walk, output dictionary) vs the real ones
    # (last, so that the one integer it draws from ctx.rng does not shift the streams above)
    S.correspondence_glue(ctx, P, cfgs)
    return P


def check_cfg(P: C.Part, cfg, scheds=S.SCHEDS, count: bool = True, analyzer: bool = False) -> None:
    for sched in scheds:
        P.cases += 1
        P.hit(sched)
        P.nontrivial.add((sched,) + S.cfg_key(cfg))
        try:
            plan = S.real_plan(sched, cfg)
        except BaseException as ex:  # noqa
            P.violations.append(S.viol(PROP, sched, cfg, "scheduler-raises", f"scheduler raised {ex!r}"))
            continue
        P.violations.extend(S.pred_C04(sched, cfg, plan))
        if analyzer:
            # the same predicate on the plan the ANALYZER builds when the overlap is requested explicitly: "averaging honours the overlap"
            # is about the overlap the user asked for, so the path request -> resolved overlap -> scheduler is part of the claim
            # (wave-5 miss C04e: an explicit olap=0 silently replaced by the window's default)
            P.cases += 1
            P.hit("through-analyzer")
            try:
                ap = S.analyzer_norm_plan(sched, cfg, win=("hann", "kaiser")[len(P.nontrivial) % 2])
            except BaseException as ex:  # noqa
                P.violations.append(S.viol(PROP, sched, cfg, "analyzer-raises", f"SpectrumAnalyzer.plan() raised {ex!r} for an admissible configuration",
                                           extra={"entry": "analyzer"}))
                continue
            for v in S.pred_C04(sched, cfg, ap):
                v.signature["entry"] = "analyzer"
                v.what = "through SpectrumAnalyzer.plan(): " + v.what
                v.replay["entry"] = "analyzer"
                P.violations.append(v)
    if count:
        P.cases += 1
        try:
            P.violations.extend(S.pred_C04_count(cfg))
        except BaseException:  # noqa  (reported by the loop above)
            pass


def oracle(ctx, intensive: bool = False, hints=()) -> C.Part:
    P = C.Part()
    for w in WITNESSES + [D10]:
        check_cfg(P, w)
    # explicit overlaps at the ends of the admissible range, through the analyzer (corpus: wave-5 change C04e)
    for w in ({"N": 4096, "fs": 1.0, "olap": 0.0, "bmin": 1.0, "Lmin": 1, "Jdes": 30, "Kdes": 10},
              {"N": 1000, "fs": 2.0, "olap": 0.0, "bmin": 1.5, "Lmin": 4, "Jdes": 12, "Kdes": 4},
              {"N": 3000, "fs": 10.0, "olap": 0.999, "bmin": 1.0, "Lmin": 1, "Jdes": 20, "Kdes": 50}):
        check_cfg(P, w, count=False, analyzer=True)
    for h in hints:
        if isinstance(h, dict) and "cfg" in h:
            check_cfg(P, h["cfg"])
    n = ctx.scale(120, 2000) * (4 if intensive else 1)
    for i in range(n):
        if ctx.time_left() < 40 or len([v for v in P.violations if v.signature.get("subclaim") != "count-vs-iterative"]) >= 8:
            break
        cfg = S.gen_cfg(ctx.rng, ctx.thorough, small=(i % 4 == 0))
        check_cfg(P, cfg, analyzer=(i % 3 == 1))
        if i < 4:
            P.sample({"op": "oracle", "cfg": cfg})
    # forced target count (binary search over Jdes in [100, 1e6]): exactly the target or an error
    for i in range(ctx.scale(3, 12)):
        if ctx.time_left() < 25:
            break
        N = int(ctx.rng.integers(1500, 6000))
        cfg = {"N": N, "fs": float(ctx.rng.choice([1.0, 10.0])), "olap": float(ctx.rng.choice([0.5, 0.75])), "bmin": 1.0, "Lmin": 1,
               "Jdes": int(ctx.rng.integers(120, 400)), "Kdes": int(ctx.rng.choice([10, 50]))}
        sched = ["ltf", "lpsd", "vectorized_ltf", "new_ltf"][i % 4]
        P.cases += 1
        P.hit("forced-count")
        P.violations.extend(S.pred_C04_force(cfg, sched))
    # the same over call histories: consecutive forced plans differing in ONE parameter (overlap, Kdes, fs, N, bmin, Lmin, target)
    for i in range(ctx.scale(2, 8)):
        if ctx.time_left() < 25:
            break
        base = {"N": int(ctx.rng.integers(1500, 5000)), "fs": float(ctx.rng.choice([1.0, 10.0])), "olap": 0.5, "bmin": 1.0, "Lmin": 1,
                "Jdes": int(ctx.rng.integers(120, 300)), "Kdes": 10}
        hist = [dict(base)]
        for key, val in (("olap", 0.75), ("olap", 0.0), ("Kdes", 50), ("fs", base["fs"] * 3.0), ("N", base["N"] + 137),
                         ("bmin", 2.0), ("Lmin", 16), ("Jdes", base["Jdes"] + 17), ("olap", 0.9)):
            nxt = dict(hist[-1])
            nxt[key] = val
            hist.append(nxt)
        sched = ["ltf", "vectorized_ltf", "lpsd", "new_ltf"][i % 4]
        P.cases += 1
        P.hit("forced-count-history", len(hist))
        P.nontrivial.add(("force-history", sched, base["N"], base["Jdes"]))
        P.violations.extend(S.pred_C04_force_history(hist, sched))
    return P


def replay(ctx, data) -> C.Part:
    P = C.Part()
    for v in data.get("violations", []):
        r = v["replay"]
        if r["subclaim"] == "forced-count-history":
            P.violations.extend(S.pred_C04_force_history(r["history"], r["scheduler"]))
            P.cases += 1
        elif r["subclaim"] == "forced-count":
            P.violations.extend(S.pred_C04_force(r["cfg"], r["scheduler"]))
            P.cases += 1
        else:
            check_cfg(P, r["cfg"], scheds=[r["scheduler"]], count=(r["subclaim"] == "count-vs-iterative"), analyzer=(r.get("entry") == "analyzer"))
    return P
