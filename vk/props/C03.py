"""C03 — the frequency grid obeys the DFT and stepping constraints."""
from __future__ import annotations

import bisect as _bisect
import json as _json
import os as _os
import subprocess as _subprocess
import sys as _sys
from typing import Any, Dict, List

import numpy as np

from .. import common as C
from . import _sched as S
from .C02 import WITNESSES

PROP = "C03"
GEN_REGIONS: List[str] = ["Sched", "Utils", "SchedGlue", "ConfigGlue", "GlobalState"]
THEOREMS = {
    "SpecKitV.Lemmas.SchedLtf": ["ltfStep_rL", "ltfStep_bin", "ltfStep_bmin_slack", "walk_first", "walk_below", "walk_stepping",
                                 "ltf_walk_ge_fmin", "ltf_walk_nonempty"],
    "SpecKitV.Lemmas.SchedNewVec": ["SchedNV.newStep_rL", "SchedNV.newStep_bin", "SchedNV.newStep_next", "SchedNV.newStep_bmin",
                                    "SchedNV.newWalk_below", "SchedNV.newWalk_stepping", "SchedNV.vecWalk_below", "SchedNV.vecWalk_stepping",
                                    "SchedNV.vecGridPoint_props", "SchedNV.searchLeft_spec"],
    "SpecKitV.Props.C03": ["ltfPlan_grid", "lpsdPlan_grid", "lpsd_is_ltf", "newPlan_grid", "vecPlan_grid", "vecPlan_increasing"],
    "SpecKitV.Props.SchedGen": ["gen_ltf_round_eq", "gen_ltf_walk_eq_model", "gen_new_walk_eq_model"],
    "SpecKitV.Props.VecGen": ["Arr.memo_eq", "Np.logspace_get", "Np.searchsortedLeft_eq", "gen_vec_walk_eq_model", "gen_vec_walk_eq_plan"],
    "SpecKitV.Props.Utils": ["gen_round_half_up_eq_model", "gen_round_half_up_eq_floor"],
    "SpecKitV.Props.SchedGlueGen": ["SchedGlue.gen_require_args_eq", "SchedGlue.gen_ltf_post_eq", "SchedGlue.gen_vec_post_glue_eq", "SchedGlue.gen_new_post_glue_eq", "SchedGlue.gen_ltf_plan_eq_model", "SchedGlue.gen_vec_plan_eq_model", "SchedGlue.gen_new_plan_eq_model", "SchedGlue.gen_lpsd_forward", "SchedGlue.gen_lpsd_plan_eq_ltf", "SchedGlue.gen_lpsd_plan_eq_model", "SchedGlue.gen_plan_missing_key", "SchedGlue.gen_lpsd_missing_key", "SchedGlue.planDict_keys", "SchedGlue.gen_plan_wiring", "SchedGlue.planDict_overlap", "SchedGlue.gen_ltf_plan_props", "SchedGlue.gen_lpsd_plan_props", "SchedGlue.gen_new_plan_props", "SchedGlue.gen_vec_plan_props", "SchedGlue.gen_plan_overlap_key"],
    "SpecKitV.Props.ConfigGlueGen": ["ConfigGlue.gen_window_eq_spec", "ConfigGlue.gen_window_explicit_olap", "ConfigGlue.gen_window_explicit_olap_ok",
                                     "ConfigGlue.gen_sched_eq_spec", "ConfigGlue.gen_sched_new_ltf", "ConfigGlue.gen_sched_callable", "ConfigGlue.gen_cg_plan_eq_model"],
    # no state outlives a call in the files this property is anchored in (no module/class-level containers, memoisers, mutable defaults) and the
    # decorators are exactly the audited ones (region GlobalState, re-scanned from the current source each run)
    "SpecKitV.Props.GlobalStateGen": ["GlobalStateGen.gen_globalState_schedulers", "GlobalStateGen.gen_globalState_utils"],
}
CONTRACTS = ["np.logspace/np.searchsorted as modelled (10**linspace; count of grid points below the query)",
             'Python dict with string keys = association list, most recent binding first (Py.Dict in Np/SchedGlue.lean): d[k]=v (last write wins), d[k], k in d, dict(d) copies, d.update(e), dict(k=v,...)',
             'np.array(list) = NpSG.ofList: element i is list[i], length len(list); NpSG.toList / NpSG.toList2: the elements of a (nested) array in order (the view under which the output dictionary is stated)',
             "NumPy basic slicing a[lo:hi] (step 1) = NpSG.slice with Python's normalisation of negative / out-of-range bounds; np.mean = left-to-right sum / length (Arr.mean)",
]
ASSUMPTIONS = ["float evaluation: r*L=fs and f[j+1]=f[j]+r[j] are checked to a few ulp on the real code; exact in the real-number theorems"]
RULE = S.__doc__ and ("admissible configurations × 4 schedulers; every bin checked for r*L=fs, stepping, f0, monotone, below Nyquist, bin number, bmin slack; "
                      "distinct by (scheduler, configuration); call HISTORIES (the same request again after a band-limited / forced-count / computed analysis of it, "
                      "after a caller altered what it was handed, after 0..40 other requests; directly in several keyword orders and through the analyzer by name "
                      "and by callable): every plan of every step satisfies the predicates, equals the plan of a fresh interpreter bit for bit, shares no memory "
                      "with an earlier one; distinct by (scheduler, disturbance, gap, configuration)")


def correspondence(ctx) -> C.Part:
    P = C.Part()
    cfgs = S.correspondence_plans(ctx, P, ctx.scale(80, 600))
    # region SchedGlue: the generated schedulers (unpacking, lpsd forwarding, statements after the walk, output dictionary) vs the real ones
    S.correspondence_glue(ctx, P, cfgs)
    return P


def check_cfg(P: C.Part, cfg, scheds=S.SCHEDS) -> None:
    for sched in scheds:
        P.cases += 1
        P.hit(sched)
        P.nontrivial.add((sched,) + S.cfg_key(cfg))
        try:
            plan = S.real_plan(sched, cfg)
        except BaseException as ex:  # noqa
            P.violations.append(S.viol(PROP, sched, cfg, "scheduler-raises", f"scheduler raised {ex!r}"))
            continue
        P.violations.extend(S.pred_C03(sched, cfg, plan))
    if "lpsd" in scheds:
        P.cases += 1
        try:
            P.violations.extend(S.pred_C03_lpsd_is_ltf(cfg))
        except BaseException:  # noqa  (a scheduler that raises is reported by the loop above)
            pass


# ------------------------------------------------------------------------------------------ call histories
# A plan is a function of its arguments: "in every plan ..." is quantified over configurations, not over what the process did before.
# The block below runs HISTORIES on the real code -- the same request made again after the analyzer post-processed a plan of the same
# arguments (band filter, forced target count, compute()), after a caller overwrote / truncated / deleted / cleared what it was handed,
# and after 0, 1, 2, 9, 40 requests with other arguments (one-parameter neighbours of the configuration among them) -- and demands of
# EVERY plan returned at EVERY step: (i) all C03 predicates, (ii) equality, every key, bit for bit, with the plan of the same request
# evaluated in a FRESH interpreter (`_h_references`), (iii) no writable memory shared with a plan returned by an earlier call,
# and (iv) plans handed out earlier in the round are unchanged at its end.  Equality is exact because both sides are the same code on
# the same arguments (HARNESS.md: "same code path"); nothing here depends on a tolerance.

H_KEYS = ["N", "fs", "olap", "bmin", "Lmin", "Jdes", "Kdes"]
H_EXTRA = {"num_patch_pts": 50, "zzz_unknown": 3.5}          # keywords a scheduler does not use (the analyzer passes the first to new_ltf_plan)


def _h_order_analyzer(sched: str) -> List[str]:
    """the keywords SpectrumAnalyzer.plan() passes, in its order (a memo keyed on the call's keywords sees exactly this)"""
    return ["N", "fs", "olap", "bmin", "Lmin", "Kdes"] + (["num_patch_pts"] if sched == "new_ltf" else []) + ["Jdes"]


H_ABUSES = ["zero-f", "scale-r", "ones-K", "trunc-L", "del-m", "set-nf", "D-inplace", "D-pop", "clear", "band-like"]
H_GAPS = (0, 1, 2, 9, 40)
H_MARK = "@@C03-HISTORY-REFERENCE@@"
_FLOAT_KEYS = ("f", "r", "b", "m", "O")
_INT_KEYS = ("L", "K", "navg")


def _h_cfg(rng: np.random.Generator) -> Dict[str, Any]:
    """a small admissible configuration (plans of some ten to a hundred bins; evaluated in about a millisecond)"""
    N = int(rng.choice([int(rng.integers(64, 400)), int(rng.integers(400, 1600)), 128, 1000, 1013]))
    fs = float(rng.choice([1.0, 2.0, 0.37, 1000.0, float(rng.uniform(0.01, 5000.0))]))
    olap = float(rng.choice([0.0, 0.5, 0.75, 0.9, float(rng.uniform(0, 0.95))]))
    bmin = float(rng.choice([1.0, 1.5, 2.0, 3.7, float(rng.uniform(1.0, 6.0))]))
    Lmin = int(rng.choice([1, 1, 2, max(1, N // 20)]))
    Jdes = int(rng.choice([10, 20, 50, int(rng.integers(8, 90))]))
    Kdes = int(rng.choice([1, 2, 5, 10, 30]))
    return {"N": N, "fs": fs, "olap": olap, "bmin": bmin, "Lmin": Lmin, "Jdes": Jdes, "Kdes": Kdes}


def _h_neighbours(rng: np.random.Generator, cfg: Dict[str, Any]) -> List[Dict[str, Any]]:
    """the configuration with ONE parameter changed, slightly or clearly (a memo whose key drops, rounds or truncates a parameter
    returns the neighbour's plan)"""
    small = bool(rng.random() < 0.5)
    out = [dict(cfg, N=cfg["N"] + (1 if small else int(rng.integers(2, 40)))),
           dict(cfg, fs=cfg["fs"] * (1 + 1e-6 if small else 2.0)),
           dict(cfg, olap=min(0.97, cfg["olap"] + (1e-3 if small else 0.04))),
           dict(cfg, bmin=cfg["bmin"] + (0.01 if small else 0.5)),
           dict(cfg, Lmin=cfg["Lmin"] + (1 if small else 5)),
           dict(cfg, Jdes=cfg["Jdes"] + (1 if small else 7)),
           dict(cfg, Kdes=cfg["Kdes"] + (1 if small else 4))]
    return [c for c in out if c["bmin"] < c["N"] / 2 and c["Lmin"] <= c["N"]]


def _h_step(sched: str, cfg: Dict[str, Any], entry: str = "direct", order=None, opts=None, compute: bool = False, abuse=None) -> Dict[str, Any]:
    return {"sched": sched, "cfg": cfg, "entry": entry, "order": list(order or H_KEYS), "opts": dict(opts or {}), "compute": bool(compute), "abuse": abuse}


def _h_refkey(step: Dict[str, Any]) -> str:
    """what a step REQUESTS (scheduler, arguments, analyzer options) -- not how (keyword order, name/callable, compute, what the caller does next)"""
    var = "direct" if step["entry"] == "direct" else "an" + _json.dumps(step["opts"], sort_keys=True)
    return _json.dumps([step["sched"], [step["cfg"][k] for k in H_KEYS], var])


def _h_canon(p) -> Dict[str, Any]:
    """every key of a returned dictionary, exactly: floats as their bytes, integers as integers"""
    if not isinstance(p, dict):
        return {"!type": type(p).__name__}
    out: Dict[str, Any] = {}
    for k in sorted(p.keys(), key=str):
        v = p[k]
        try:
            if k == "D":
                out[k] = [[int(d) for d in dd] for dd in v]
            elif k == "nf":
                out[k] = int(v)
            elif k in _INT_KEYS:
                a = np.asarray(v)
                out[k] = [int(x) for x in a] if (a.ndim == 1 and a.dtype.kind in "iu") else ["!" + str(a.dtype) + str(a.shape), a.tolist()]
            else:
                a = np.asarray(v, dtype=np.float64)
                out[str(k)] = [list(a.shape), a.tobytes().hex()]
        except Exception as ex:  # noqa
            out[str(k)] = "!unreadable " + type(ex).__name__
    return out


def _h_diff(got: Dict[str, Any], ref: Dict[str, Any], pristine: str = "pristine") -> str:
    """one line saying where two outcomes differ ('' if equal)"""
    if got == ref:
        return ""
    return _h_diff_text(got, ref).replace("pristine", pristine)


def _h_diff_text(got: Dict[str, Any], ref: Dict[str, Any]) -> str:
    if ("raises" in got) != ("raises" in ref) or got.get("raises") != ref.get("raises"):
        return f"outcome {('raises ' + got['raises']) if 'raises' in got else 'a plan'}, pristine {('raises ' + ref['raises']) if 'raises' in ref else 'a plan'}"
    if got.get("Jdes") != ref.get("Jdes"):
        return f"solved Jdes {got.get('Jdes')}, pristine {ref.get('Jdes')}"
    a, b = got.get("plan", {}), ref.get("plan", {})
    if sorted(a) != sorted(b):
        return f"keys {sorted(a)}, pristine {sorted(b)}"
    for k in ("nf", "f", "r", "b", "m", "L", "K", "navg", "O", "D") + tuple(sorted(a)):
        if k in a and a[k] != b[k]:
            if k in _FLOAT_KEYS and isinstance(a[k], list) and isinstance(b[k], list):
                x = np.frombuffer(bytes.fromhex(a[k][1]), dtype=np.float64)
                y = np.frombuffer(bytes.fromhex(b[k][1]), dtype=np.float64)
                if len(x) != len(y) or a[k][0] != b[k][0]:
                    return f"key {k!r}: shape {a[k][0]}, pristine {b[k][0]}" + (f" ({k}[0]={float(x[0])!r}, pristine {float(y[0])!r})" if len(x) and len(y) else "")
                j = int(np.argmax(x.view(np.int64) != y.view(np.int64)))
                return f"key {k!r}: element {j} is {float(x[j])!r}, pristine {float(y[j])!r}"
            if isinstance(a[k], list) and isinstance(b[k], list) and len(a[k]) != len(b[k]):
                return f"key {k!r}: length {len(a[k])}, pristine {len(b[k])}"
            if isinstance(a[k], list) and isinstance(b[k], list):
                j = next(i for i in range(len(a[k])) if a[k][i] != b[k][i])
                return f"key {k!r}: entry {j} is {str(a[k][j])[:60]}, pristine {str(b[k][j])[:60]}"
            return f"key {k!r}: {str(a[k])[:60]}, pristine {str(b[k])[:60]}"
    return "outcomes differ"


def _h_run(step: Dict[str, Any]):
    """make the request of one step on the real code -> (returned dictionary | None, exception | None, the Jdes the plan was made with)"""
    sched, cfg = step["sched"], step["cfg"]
    try:
        if step["entry"] == "direct":
            full = dict(cfg, **H_EXTRA)
            return S.sched_fn(sched)(**{k: full[k] for k in step["order"]}), None, cfg["Jdes"]
        from speckit.analysis import SpectrumAnalyzer
        o = dict(step["opts"])
        if "band" in o:
            o["band"] = tuple(o["band"])
        an = SpectrumAnalyzer(np.zeros(cfg["N"]), cfg["fs"], olap=cfg["olap"], bmin=cfg["bmin"], Lmin=cfg["Lmin"], Jdes=cfg["Jdes"], Kdes=cfg["Kdes"],
                              scheduler=(sched if step["entry"] == "analyzer:name" else S.sched_fn(sched)), win="hann", **o)
        if step["compute"]:
            an.compute()
        return an.plan(), None, int(an.config["Jdes"])
    except BaseException as ex:  # noqa  (ltf_plan leaves through sys.exit)
        if isinstance(ex, KeyboardInterrupt):
            raise
        return None, ex, cfg["Jdes"]


def _h_outcome(plan, exc, jdes) -> Dict[str, Any]:
    return {"raises": type(exc).__name__} if exc is not None else {"plan": _h_canon(plan), "Jdes": int(jdes)}


def _h_abuse(p, kind: str) -> None:
    """what a caller may do with the dictionary it was handed (a read-only / immutable plan simply refuses: nothing to check then)"""
    try:
        if kind == "zero-f":
            p["f"][:] = 0
        elif kind == "scale-r":
            p["r"] *= 2.0
        elif kind == "ones-K":
            p["K"][:] = 1
        elif kind == "trunc-L":
            p["L"] = p["L"][:3]
        elif kind == "del-m":
            del p["m"]
        elif kind == "set-nf":
            p["nf"] = 0
        elif kind == "D-inplace":
            p["D"][0][...] = 7
        elif kind == "D-pop":
            p["D"].pop()
        elif kind == "clear":
            p.clear()
        elif kind == "band-like":       # what SpectrumAnalyzer.plan() does for a band: rebind the per-bin entries to a sub-range
            for k in ("f", "r", "b", "L", "K", "navg", "O", "D"):
                p[k] = p[k][1:-1]
            p["nf"] = len(p["f"])
    except (ValueError, TypeError, KeyError, IndexError, AttributeError):
        pass


def _h_pristine(steps: List[Dict[str, Any]]) -> List[Dict[str, Any]]:
    """the outcomes of a batch of requests in a copy (fork) of this interpreter: whatever the evaluations leave behind dies with the copy"""
    r, w = _os.pipe()
    pid = _os.fork()
    if pid == 0:
        code = 1
        try:
            _os.close(r)
            with _os.fdopen(w, "wb") as fh:
                fh.write(_json.dumps([_h_outcome(*_h_run(st)) for st in steps]).encode())
            code = 0
        finally:
            _os._exit(code)
    _os.close(w)
    with _os.fdopen(r, "rb") as fh:
        data = fh.read()
    _os.waitpid(pid, 0)
    return _json.loads(data)


def _child_main() -> None:
    """fresh interpreter that has imported the library and done nothing else: every batch of requests read from stdin is evaluated in
    its own copy of that state"""
    req = _json.load(_sys.stdin)
    import speckit
    from speckit import schedulers, analysis  # noqa: F401  (loaded before the copies are made)
    outs = [_h_pristine(b) for b in req["batches"]]
    _sys.stdout.write("\n" + H_MARK + _json.dumps({"speckit": _os.path.dirname(speckit.__file__), "outcomes": outs}) + "\n")


def _h_references(steps: List[Dict[str, Any]], notes: List[str]) -> Dict[str, Dict[str, Any]]:
    """the outcome of every distinct request among `steps` in a PRISTINE state, never mutating anything: a fresh interpreter (`_child_main`)
    evaluates them in batches, each batch in its own copy of the just-imported library.  No two requests of a batch are for the same
    scheduler function and effective configuration (the direct request, the analyzer's, each band go to different batches; a forced
    count, which evaluates many Jdes, is a batch of its own), and a batch runs in REVERSE order of first use here -- so a reference is
    the first evaluation of its arguments in its process, reached by another route than in this one."""
    seen: Dict[str, Dict[str, Any]] = {}
    for st in steps:
        seen.setdefault(_h_refkey(st), dict(st, order=list(H_KEYS), compute=False, abuse=None,
                                            entry=("direct" if st["entry"] == "direct" else "analyzer:name")))
    batches: List[List[Any]] = []
    count: Dict[Any, int] = {}
    shared_n = 0
    for k, st in seen.items():
        if "force_target_nf" in st["opts"]:
            batches.append([(k, st)])
            continue
        fam = ("ltf" if st["sched"] == "lpsd" else st["sched"],) + S.cfg_key(S.eff(st["cfg"], st["sched"]))
        i = count.get(fam, 0)
        count[fam] = i + 1
        while shared_n <= i:
            batches.insert(shared_n, [])
            shared_n += 1
        batches[i].append((k, st))
    batches = [list(reversed(b)) for b in batches]
    try:
        import speckit
        env = dict(_os.environ, PYTHONPATH=C.VERIF + _os.pathsep + _os.environ.get("PYTHONPATH", ""))
        r = _subprocess.run([_sys.executable, "-W", "ignore", "-c", "from vk.props.C03 import _child_main; _child_main()"],
                            input=_json.dumps({"batches": [[s for _, s in b] for b in batches]}), capture_output=True, text=True, cwd=C.VERIF, env=env, timeout=240)
        ans = _json.loads(r.stdout.split(H_MARK, 1)[1])
        if ans["speckit"] != _os.path.dirname(speckit.__file__) or [len(o) for o in ans["outcomes"]] != [len(b) for b in batches]:
            raise RuntimeError(f"fresh interpreter imported {ans['speckit']}")
        return {k: o for b, ob in zip(batches, ans["outcomes"]) for (k, _), o in zip(b, ob)}
    except Exception as ex:  # noqa  (infrastructure, not the library: fall back to the first evaluation in this process)
        notes.append(f"history references: fresh interpreter unavailable ({type(ex).__name__}: {str(ex)[:120]}); the first evaluation of a request in this process is its reference")
        return {}


class _Held:
    """memory of every array of every plan returned so far (kept alive, so an address is never reused): sorted disjoint byte ranges"""

    def __init__(self):
        self.lo: List[int] = []
        self.items: List[Any] = []          # (lo, hi, array, label)
        self.dicts: Dict[int, Any] = {}     # id -> (dict, label, round): the dictionaries of the current and the previous round (kept alive)
        self.round = 0

    def new_round(self, ri: int) -> None:
        self.round = ri
        for k in [k for k, v in self.dicts.items() if v[2] < ri - 1]:
            del self.dicts[k]

    @staticmethod
    def arrays(p):
        if not isinstance(p, dict):
            return
        for k, v in p.items():
            if isinstance(v, np.ndarray):
                yield str(k), v
            elif isinstance(v, (list, tuple)) and len(v) and isinstance(v[0], np.ndarray):
                yield f"{k}[0]", v[0]
                if len(v) > 1 and isinstance(v[-1], np.ndarray):
                    yield f"{k}[-1]", v[-1]

    @staticmethod
    def span(a: np.ndarray):
        if a.size == 0:
            return None
        lo = hi = a.__array_interface__["data"][0]
        for n, s in zip(a.shape, a.strides):
            if s > 0:
                hi += (n - 1) * s
            else:
                lo += (n - 1) * s
        return lo, hi + a.itemsize

    def shared(self, p):
        """(key, label of the earlier call) of the first entry of p that is -- or shares writable memory with -- one returned earlier"""
        if id(p) in self.dicts:
            return "the dictionary itself", self.dicts[id(p)][1]
        for k, a in self.arrays(p):
            sp = self.span(a)
            if sp is None:
                continue
            i = _bisect.bisect_right(self.lo, sp[0])
            for j in (i - 1, i):
                if 0 <= j < len(self.items):
                    lo, hi, b, lab = self.items[j]
                    if lo < sp[1] and sp[0] < hi and np.shares_memory(a, b) and (a.flags.writeable or b.flags.writeable):
                        return k, lab
        return None

    def add(self, p, label: str) -> None:
        if not isinstance(p, dict):
            return
        self.dicts[id(p)] = (p, label, self.round)
        for _, a in self.arrays(p):
            sp = self.span(a)
            if sp is None:
                continue
            i = _bisect.bisect_right(self.lo, sp[0])
            if any(0 <= j < len(self.items) and self.items[j][0] < sp[1] and sp[0] < self.items[j][1] for j in (i - 1, i)):
                continue                    # b/m and K/navg of ONE plan are the same array; ranges stay disjoint
            self.lo.insert(i, sp[0])
            self.items.insert(i, (sp[0], sp[1], a, label))


def _h_label(step: Dict[str, Any]) -> str:
    s = step["entry"] if step["entry"] != "direct" else "direct call " + ("(keywords in the analyzer's order)" if step["order"] == _h_order_analyzer(step["sched"])
                                                                          else "(keywords N..Kdes)" if step["order"] == H_KEYS else f"(keywords {','.join(step['order'])})")
    if step["opts"]:
        s += " " + ", ".join(f"{k}={v}" for k, v in step["opts"].items())
    if step["compute"]:
        s += " + compute()"
    if step["abuse"]:
        s += f" then caller does '{step['abuse']}'"
    return s


def _h_violation(step, sub: str, what: str, rnd, extra) -> C.Violation:
    return C.Violation(what=f"{step['sched']}: {what}  cfg={step['cfg']}",
                       signature={"scheduler": step["sched"], "subclaim": "history-" + sub, "disturbance": rnd.get("kind", "")},
                       replay={"scheduler": step["sched"], "cfg": step["cfg"], "subclaim": "history-" + sub, "history": dict(extra, round=rnd)})


def run_round(P: C.Part, rnd: Dict[str, Any], refs: Dict[str, Dict[str, Any]], held: _Held, extra: Dict[str, Any]) -> int:
    """one history: the steps of `rnd` in order, every returned plan checked; returns the number of violations it added"""
    before = len(P.violations)
    mine: List[Any] = []                    # (step, dictionary, outcome when returned) of the untouched plans of this round
    said = set()

    def report(step, sub, what):
        if (sub, step["sched"]) not in said and len(P.violations) - before < 6:
            said.add((sub, step["sched"]))
            P.violations.append(_h_violation(step, sub, what, rnd, extra))

    for pos, step in enumerate(rnd["steps"]):
        P.cases += 1
        P.hit("history:" + step["entry"] + ("+band" if "band" in step["opts"] else "+force" if step["opts"] else "") + ("+compute" if step["compute"] else ""))
        if step["abuse"]:
            P.hit("history-abuse:" + step["abuse"])
        where = f"step {pos} of a history [{rnd['kind']}, then {rnd['gap']} other requests] ({_h_label(step)})"
        plan, exc, jdes = _h_run(step)
        out = _h_outcome(plan, exc, jdes)
        ref = refs.setdefault(_h_refkey(step), out)
        d = _h_diff(out, ref)
        if d:
            report(step, "differs", f"{where}: not the plan of these arguments in a fresh interpreter -- {d}")
        if exc is not None:
            if step["entry"] == "direct" and not d:     # raised in the fresh interpreter too: not a history effect, still no plan (as `check_cfg`)
                report(step, "raises", f"{where}: scheduler raised {exc!r}")
            continue
        sh = held.shared(plan)
        if sh is not None:
            report(step, "alias", f"{where}: returned {sh[0] if sh[0].startswith('the') else 'entry ' + repr(sh[0])} is (shares writable memory with) "
                                  f"what an earlier call returned [{sh[1]}] -- two plans, one object: changing either changes the other")
        held.add(plan, f"{step['sched']} {_h_label(step)}")
        try:
            npl = S.norm_plan(plan)
            vs = S.pred_C03(step["sched"], dict(step["cfg"], Jdes=int(jdes)), npl)
            if "band" in step["opts"]:      # a band-limited plan is a sub-range of the grid: it does not start at bmin*fs/N, and its "m" is not part of the band filter
                vs = [v for v in vs if v.signature["subclaim"] not in ("f0", "m-is-b")]
            for v in vs:
                report(step, v.signature["subclaim"], f"{where}: " + v.what.split("  cfg=")[0])
        except Exception as ex:  # noqa
            report(step, "malformed", f"{where}: returned dictionary is not a plan ({type(ex).__name__}: {ex}; keys {sorted(map(str, plan)) if isinstance(plan, dict) else type(plan).__name__})")
        if step["abuse"]:
            _h_abuse(plan, step["abuse"])
        else:
            mine.append((step, plan, out, pos))
    for step, plan, out, pos in mine:       # nobody touched these: they must still be what they were when they were returned
        P.cases += 1
        d = _h_diff(_h_outcome(plan, None, out["Jdes"]), out, "when it was returned")
        if d:
            report(step, "earlier-plan-changed", f"the plan returned at step {pos} of a history [{rnd['kind']}] ({_h_label(step)}) was changed afterwards by later calls -- {d}")
    if rnd["sched"] == "lpsd":
        P.cases += 1
        try:
            for v in S.pred_C03_lpsd_is_ltf(rnd["steps"][0]["cfg"]):
                report(rnd["steps"][0], "lpsd-is-ltf", f"after a history [{rnd['kind']}]: lpsd_plan differs from ltf_plan with bmin=1, Lmin=1")
        except BaseException:  # noqa
            pass
    return len(P.violations) - before


def _h_orders(rng: np.random.Generator, sched: str):
    """keyword orders of a direct call: the documented one, the analyzer's, and a shuffled one with or without unused keywords"""
    ks = list(H_KEYS) + [k for k in H_EXTRA if rng.random() < 0.4]
    return [list(H_KEYS), _h_order_analyzer(sched), [ks[int(i)] for i in rng.permutation(len(ks))]]


def build_histories(hseed: int, n_targets: int, thorough: bool) -> List[Dict[str, Any]]:
    """the rounds of one run, a function of (hseed, n_targets, thorough) only.  Round = the request made directly (all keyword orders) ->
    a DISTURBANCE of the same request -> `gap` requests with other arguments (distinct; mostly the same scheduler; neighbours first) ->
    the request again through every entry (direct in all keyword orders, analyzer by name, analyzer by callable, another band)."""
    rng = np.random.default_rng(hseed)
    targets: List[Dict[str, Any]] = []
    bands: Dict[Any, Any] = {}
    forced: Dict[Any, int] = {}
    tries = 0
    while len(targets) < n_targets and tries < 200:
        tries += 1
        cfg = _h_cfg(rng)
        ok = True
        for sched in S.SCHEDS:
            try:
                f = np.asarray(S.sched_fn(sched)(**cfg)["f"], dtype=float)
                n150 = int(S.sched_fn(sched)(**dict(cfg, Jdes=150))["nf"]) if sched != "vectorized_ltf" or thorough else 0
            except BaseException:  # noqa
                ok = False
                break
            n = len(f)
            if n < 8:
                ok = False
                break
            a, b = n // 4, n // 2
            bands[(len(targets), sched)] = ([float((f[a - 1] + f[a]) / 2), float((f[b] + f[b + 1]) / 2)],
                                            [float((f[b + 1] + f[b + 2]) / 2), float(f[-1] * 1.01)])
            forced[(len(targets), sched)] = n150
        if ok:
            targets.append(cfg)
    pool: List[Dict[str, Any]] = []
    neigh: List[List[Dict[str, Any]]] = []
    for t in targets:
        neigh.append(_h_neighbours(rng, t))
        pool += neigh[-1]
    while len(pool) < 52:
        pool.append(_h_cfg(rng))
    kinds = ["band:name", "band:callable", "band+compute", "force", "compute", "analyzer-abuse", "plain"] + ["abuse:" + a for a in H_ABUSES]
    deck: List[str] = []
    rounds: List[Dict[str, Any]] = []
    for ti, cfg in enumerate(targets):
        for sched in S.SCHEDS:
            b1, b2 = bands[(ti, sched)]
            for gi, gap in enumerate(H_GAPS):
                if gap == 40 and not (thorough or ti == 0):
                    continue
                if gap == 1:
                    kind = ("band:name", "band:callable")[(ti + S.SCHEDS.index(sched)) % 2]
                else:
                    while True:
                        if not deck:
                            deck = [kinds[int(i)] for i in rng.permutation(len(kinds))]
                        kind = deck.pop()
                        if not (kind == "force" and forced[(ti, sched)] < 1):
                            break
                orders = _h_orders(rng, sched)
                steps = [_h_step(sched, cfg, order=o) for o in orders]
                if kind.startswith("band"):
                    steps.append(_h_step(sched, cfg, entry=("analyzer:callable" if kind == "band:callable" or rng.random() < 0.3 else "analyzer:name"),
                                         opts={"band": b1}, compute=(kind == "band+compute")))
                elif kind == "force":
                    steps.append(_h_step(sched, dict(cfg, Jdes=forced[(ti, sched)]), entry="analyzer:name", opts={"force_target_nf": True}))
                elif kind == "compute":
                    steps.append(_h_step(sched, cfg, entry=("analyzer:name", "analyzer:callable")[int(rng.integers(0, 2))], compute=True))
                elif kind == "analyzer-abuse":
                    steps.append(_h_step(sched, cfg, entry=("analyzer:name", "analyzer:callable")[int(rng.integers(0, 2))], abuse=H_ABUSES[int(rng.integers(0, len(H_ABUSES)))]))
                elif kind.startswith("abuse:"):
                    steps.append(_h_step(sched, cfg, order=orders[int(rng.integers(0, 3))], abuse=kind[6:]))
                # the other requests: distinct in what the scheduler sees, none equal to the target's
                tk = S.cfg_key(S.eff(cfg, sched))
                seen_k = {tk}
                between: List[Dict[str, Any]] = []
                cand = [pool[int(i)] for i in rng.permutation(len(pool))]
                mine_n = [c for c in cand if c in neigh[ti]]
                for c in mine_n[:2] + [c for c in cand if c not in mine_n[:2]]:
                    if len(between) >= gap:
                        break
                    s2 = sched if rng.random() < 0.8 else S.SCHEDS[int(rng.integers(0, 4))]
                    k2 = S.cfg_key(S.eff(c, sched)) if s2 == sched else None
                    if k2 is not None and k2 in seen_k:
                        continue
                    if k2 is not None:
                        seen_k.add(k2)
                    u = rng.random()
                    if u < 0.1:
                        between.append(_h_step(s2, c, entry=("analyzer:name", "analyzer:callable")[int(rng.integers(0, 2))]))
                    else:
                        between.append(_h_step(s2, c, order=_h_orders(rng, s2)[int(rng.integers(0, 3))],
                                               abuse=(H_ABUSES[int(rng.integers(0, len(H_ABUSES)))] if u < 0.25 else None)))
                if gap == 40:
                    rng.shuffle(between)    # neighbours anywhere in a long gap
                probes = [_h_step(sched, cfg, order=o) for o in orders] + [_h_step(sched, cfg, entry="analyzer:name"), _h_step(sched, cfg, entry="analyzer:callable")]
                probes = [probes[int(i)] for i in rng.permutation(len(probes))]
                if rng.random() < 0.5:
                    probes.append(_h_step(sched, cfg, entry="analyzer:name", opts={"band": b2}))
                    probes.append(_h_step(sched, cfg, order=orders[1]))
                rounds.append({"kind": kind, "gap": len(between), "sched": sched, "steps": steps + between + probes})
    return rounds


def check_histories(P: C.Part, hseed: int, n_targets: int, thorough: bool, time_left=None) -> None:
    import time as _time
    t0 = _time.time()
    rounds = build_histories(hseed, n_targets, thorough)
    refs = _h_references([s for r in rounds for s in r["steps"]], P.notes)
    t1 = _time.time()
    held = _Held()
    extra = {"hseed": hseed, "n_targets": n_targets, "thorough": bool(thorough)}
    done = 0
    for ri, rnd in enumerate(rounds):
        if time_left is not None and time_left() < 15:
            P.notes.append(f"call histories stopped after {ri} of {len(rounds)} rounds (time budget)")
            break
        done += 1
        held.new_round(ri)
        P.hit("history-disturbance:" + rnd["kind"])
        P.hit(f"history-gap:{rnd['gap']}")
        P.nontrivial.add(("history", rnd["sched"], rnd["kind"], rnd["gap"]) + S.cfg_key(rnd["steps"][0]["cfg"]))
        if run_round(P, rnd, refs, held, dict(extra, round_index=ri)):
            break                           # later rounds run in a state already shown to be corrupted
    P.notes.append(f"call histories: {done} rounds ({sum(len(r['steps']) for r in rounds[:done])} plans), pristine references from a fresh interpreter "
                   f"{t1 - t0:.1f} s, histories {_time.time() - t1:.1f} s")


def oracle(ctx, intensive: bool = False, hints=()) -> C.Part:
    P = C.Part()
    for w in WITNESSES:
        check_cfg(P, w)
    for h in hints:
        if isinstance(h, dict) and "cfg" in h:
            check_cfg(P, h["cfg"])
    n = ctx.scale(150, 2500) * (4 if intensive else 1)
    for i in range(n):
        if ctx.time_left() < 15 or len(P.violations) >= 8:
            break
        cfg = S.gen_cfg(ctx.rng, ctx.thorough, small=(i % 4 == 0))
        check_cfg(P, cfg)
        if i < 4:
            P.sample({"op": "oracle", "cfg": cfg})
    # call histories (drawn last, so that the streams above are what they were)
    hseed = int(ctx.rng.integers(0, 2 ** 62))
    if len(P.violations) < 8 and ctx.time_left() > 40:
        check_histories(P, hseed, ctx.scale(3, 8) * (2 if intensive else 1), ctx.thorough, ctx.time_left)
    return P


def replay(ctx, data) -> C.Part:
    P = C.Part()
    for v in data.get("violations", []):
        h = v["replay"].get("history")
        if h:
            # the stored round by itself (fresh references, fresh process state) ...
            n0 = len(P.violations)
            run_round(P, h["round"], _h_references(h["round"]["steps"], P.notes), _Held(), {k: h[k] for k in ("hseed", "n_targets", "thorough")})
            # ... and, if what it showed needs the rounds before it, the whole sequence it was part of
            if len(P.violations) == n0:
                check_histories(P, h["hseed"], h["n_targets"], h["thorough"])
            continue
        check_cfg(P, v["replay"]["cfg"], scheds=[v["replay"]["scheduler"]] if v["replay"]["subclaim"] != "lpsd-is-ltf" else ["lpsd"])
    return P
