"""C03 — the frequency grid obeys the DFT and stepping constraints."""
from __future__ import annotations

from typing import List

from .. import common as C
from . import _sched as S
from .C02 import WITNESSES

PROP = "C03"
GEN_REGIONS: List[str] = ["Sched", "Utils", "SchedGlue", "ConfigGlue", "GlobalState"]
THEOREMS = {
    "SpecKitV.Lemmas.SchedLtf": ["ltfStep_rL", "ltfStep_bin", "ltfStep_bmin_slack", "walk_first", "walk_below", "walk_stepping",
                                 "ltf_walk_ge_fmin", "ltf_walk_nonempty"],
    "SpecKitV.Lemmas.SchedNewVec": ["SchedNV.newStep_rL", "SchedNV.newStep_bin", "SchedNV.newStep_next", "SchedNV.newStep_bmin",
                                    "SchedNV.newWalk_below", "SchedNV.newWalk_stepping", "SchedNV.vecWalk_below", "SchedNV.vecWalk_stepping",
                                    "SchedNV.vecGridPoint_props", "SchedNV.searchLeft_spec"],
    "SpecKitV.Props.C03": ["ltfPlan_grid", "lpsdPlan_grid", "lpsd_is_ltf", "newPlan_grid", "vecPlan_grid", "vecPlan_increasing"],
    "SpecKitV.Props.SchedGen": ["gen_ltf_round_eq", "gen_ltf_walk_eq_model", "gen_new_walk_eq_model"],
    "SpecKitV.Props.VecGen": ["Arr.memo_eq", "Np.logspace_get", "Np.searchsortedLeft_eq", "gen_vec_walk_eq_model", "gen_vec_walk_eq_plan"],
    "SpecKitV.Props.Utils": ["gen_round_half_up_eq_model", "gen_round_half_up_eq_floor"],
    "SpecKitV.Props.SchedGlueGen": ["SchedGlue.gen_require_args_eq", "SchedGlue.gen_ltf_post_eq", "SchedGlue.gen_vec_post_glue_eq", "SchedGlue.gen_new_post_glue_eq", "SchedGlue.gen_ltf_plan_eq_model", "SchedGlue.gen_vec_plan_eq_model", "SchedGlue.gen_new_plan_eq_model", "SchedGlue.gen_lpsd_forward", "SchedGlue.gen_lpsd_plan_eq_ltf", "SchedGlue.gen_lpsd_plan_eq_model", "SchedGlue.gen_plan_missing_key", "SchedGlue.gen_lpsd_missing_key", "SchedGlue.planDict_keys", "SchedGlue.gen_plan_wiring", "SchedGlue.planDict_overlap", "SchedGlue.gen_ltf_plan_props", "SchedGlue.gen_lpsd_plan_props", "SchedGlue.gen_new_plan_props", "SchedGlue.gen_vec_plan_props", "SchedGlue.gen_plan_overlap_key"],
    "SpecKitV.Props.ConfigGlueGen": ["ConfigGlue.gen_window_eq_spec", "ConfigGlue.gen_window_explicit_olap", "ConfigGlue.gen_window_explicit_olap_ok",
                                     "ConfigGlue.gen_sched_eq_spec", "ConfigGlue.gen_sched_new_ltf", "ConfigGlue.gen_sched_callable", "ConfigGlue.gen_cg_plan_eq_model"],
    # no state outlives a call in the files this property is anchored in (no module/class-level containers, memoisers, mutable defaults) and the
    # decorators are exactly the audited ones (region GlobalState, re-scanned from the current source each run)
    "SpecKitV.Props.GlobalStateGen": ["GlobalStateGen.gen_globalState_schedulers", "GlobalStateGen.gen_globalState_utils"],
}
CONTRACTS = ["np.logspace/np.searchsorted as modelled (10**linspace; count of grid points below the query)",
             'Python dict with string keys = association list, most recent binding first (Py.Dict in Np/SchedGlue.lean): d[k]=v (last write wins), d[k], k in d, dict(d) copies, d.update(e), dict(k=v,...)',
             'np.array(list) = NpSG.ofList: element i is list[i], length len(list); NpSG.toList / NpSG.toList2: the elements of a (nested) array in order (the view under which the output dictionary is stated)',
             "NumPy basic slicing a[lo:hi] (step 1) = NpSG.slice with Python's normalisation of negative / out-of-range bounds; np.mean = left-to-right sum / length (Arr.mean)",
]
ASSUMPTIONS = ["float evaluation: r*L=fs and f[j+1]=f[j]+r[j] are checked to a few ulp on the real code; exact in the real-number theorems"]
RULE = S.__doc__ and ("admissible configurations × 4 schedulers; every bin checked for r*L=fs, stepping, f0, monotone, below Nyquist, bin number, bmin slack; "
                      "distinct by (scheduler, configuration)")


def correspondence(ctx) -> C.Part:
    P = C.Part()
    cfgs = S.correspondence_plans(ctx, P, ctx.scale(80, 600))
    # region SchedGlue: the generated schedulers (unpacking, lpsd forwarding, statements after the walk, output dictionary) vs the real ones
    S.correspondence_glue(ctx, P, cfgs)
    return P


def check_cfg(P: C.Part, cfg, scheds=S.SCHEDS) -> None:
    for sched in scheds:
        P.cases += 1
        P.hit(sched)
        P.nontrivial.add((sched,) + S.cfg_key(cfg))
        try:
            plan = S.real_plan(sched, cfg)
        except BaseException as ex:  # noqa
            P.violations.append(S.viol(PROP, sched, cfg, "scheduler-raises", f"scheduler raised {ex!r}"))
            continue
        P.violations.extend(S.pred_C03(sched, cfg, plan))
    if "lpsd" in scheds:
        P.cases += 1
        try:
            P.violations.extend(S.pred_C03_lpsd_is_ltf(cfg))
        except BaseException:  # noqa  (a scheduler that raises is reported by the loop above)
            pass


def oracle(ctx, intensive: bool = False, hints=()) -> C.Part:
    P = C.Part()
    for w in WITNESSES:
        check_cfg(P, w)
    for h in hints:
        if isinstance(h, dict) and "cfg" in h:
            check_cfg(P, h["cfg"])
    n = ctx.scale(150, 2500) * (4 if intensive else 1)
    for i in range(n):
        if ctx.time_left() < 15 or len(P.violations) >= 8:
            break
        cfg = S.gen_cfg(ctx.rng, ctx.thorough, small=(i % 4 == 0))
        check_cfg(P, cfg)
        if i < 4:
            P.sample({"op": "oracle", "cfg": cfg})
    return P


def replay(ctx, data) -> C.Part:
    P = C.Part()
    for v in data.get("violations", []):
        check_cfg(P, v["replay"]["cfg"], scheds=[v["replay"]["scheduler"]] if v["replay"]["subclaim"] != "lpsd-is-ltf" else ["lpsd"])
    return P
