"""C11 — empirical error estimates are the segment scatter in spectral units.

Sub-claims evaluated on the REAL analyzer (auto and cross, all orders, schedulers, numba and numpy backends, K from 1 to many):
  a  XY_emp_var = population variance (about the MEAN) of the per-segment cross-products Z_k = X_k conj(Y_k) (auto: |X_k|^2) divided by the
     number of segments K; the Z_k are recomputed here from the result's own plan by a direct windowed DFT in extended precision
  b  XY_emp_var = 0 when there is a single segment; never negative (zero / constant records included)
  c  XY_emp_dev = sqrt(XY_emp_var)
  d  Gxx_emp_dev (auto) / Gxy_emp_dev (cross) = 2/(fs * sum w^2) * XY_emp_dev, and None for the other mode
  e  XX_mean, YY_mean, XY_M2 expose the raw statistics (segment means of |X_k|^2, |Y_k|^2 and the population variance of Z_k)
  t  (tight form of a and e) the scatter is the TWO-PASS population variance: against a reference kept in extended precision from the DFT to the
     squared deviations, |XY_M2 - M2| <= 2 E s + E^2 + (rounding of the reduction, relative to the scatter), E = per-segment rounding budget of the
     kernels (the |XY| budget of _an.bin_tol), s = sqrt(M2). This budget is proportional to the scatter, not to |mean|^2, so a formula that is
     algebraically the variance but cancels (E|z|^2 - |E z|^2, error ~ u |mean|^2) is exposed on records whose segments are nearly or exactly
     identical (phase-locked lines with a noise floor 1e-5 .. 1e-9 or none, periodic waveforms, DC with order -1): generated on every run.
  n  the number of segments the scatter is divided by is ONE number: K = navg = len(D) on every bin of every result (integers, exact), also when
     the overlap is so high that segment starts repeat (compute_single_bin, user schedulers)
  O  option combinations / entry points / call history (`option_stream`): every block of 16 cases visits every (auto|cross, order -1..2, compute |
     single-bin family) cell and analyses it with BOTH backends (numpy and numba|auto) under otherwise identical options; entry points
     (SpectrumAnalyzer.compute, .compute_single_bin(L=), .compute_single_bin(fres=), speckit.compute_spectrum, speckit.lpsd,
     speckit.compute_single_bin(L= | fres=)), schedulers (4 library + a fixed-length 'Welch' callable + a callable that lists a length again after a
     different one: a, 4a, a, N, a+1, 4a, a), overlap request forms ('default', a float, exactly 0.0, so high that the shift is below one sample),
     windows (Kaiser at several psll, hann, two user callables, one not symmetric), layouts (1-D, list, 2xN, Nx2), segment-length forms (L = N,
     near N, odd, even, small) cycle inside a block from offsets drawn per block; records carry offset + slope + curvature + a line with a phase.
     All sub-claims above are evaluated on every bin of every result; additionally (iii) every analysis is repeated (same analyzer -- on a third
     of the cases with the analyzer's other entry point called in between -- or same input object): the second result must be bit-identical (same
     code path) and the caller's array untouched; (iv) the two backends must report the same plan and agree on XX_mean, YY_mean, XY_M2,
     XY_emp_var of every bin within twice the kernels' budget.
  S  size thresholds (`size_stream`): bins with K = c-1, c, c+1, c+17, 2c+3 segments for every chunk constant c mined from the CURRENT source of
     EVERY NumPy kernel (vk.common.mined_sizes), K = 70 001 and K = 1 100 003 for kernels of both backends (records of 10^5 .. 10^6 samples), through
     compute_single_bin and through compute() with a user scheduler, on level-step records whose first and last segments carry extra weight;
     a plan with more bins (2 * largest constant of the analyzer + 3) than any constant in speckit/analysis.py, sampled bins incl. the last
     against the reference and every bin backend against backend.
  s  (thorough tier, support only, never decided by theorem) for white Gaussian records with independent segments the empirical deviations
     agree with the analytic ones: ratios recorded in the notes, a violation only for a gross (> factor 3) mismatch.
"""
from __future__ import annotations

import math
import warnings
from typing import Any, Dict, List, Optional

import numpy as np

from .. import common as C
from . import _an
from . import C09 as S

PROP = "C11"
# obligations of the properties this one is downstream of are obligations of this check too (vk.runner.collect_obligations)
UPSTREAM = ["C05"]
GEN_REGIONS = ["Attrs", "CoreKernels", "NumpyKernels", "ResultPurity"]
THEOREMS = {
    # the NumPy fallbacks reduce the per-segment products to the same mean and population scatter, for every chunk size
    "SpecKitV.Props.NumpyKernelsGen": ["gen_np_win_only_auto_eq_ref", "gen_np_win_only_csd_eq_ref", "gen_np_detrend0_auto_eq_ref", "gen_np_detrend0_csd_eq_ref", "gen_np_poly_auto_eq_ref", "gen_np_poly_csd_eq_ref", "np_poly_csd_chunk_invariant", "np_poly_csd_M2_nonneg"],
    "SpecKitV.Props.AttrsB": ["emp_var_formula", "emp_var_nonneg", "emp_var_zero_of_M2_zero", "emp_dev_is_sqrt", "Gxx_emp_dev_formula",
                              "Gxy_emp_dev_formula", "emp_dev_is_scaled_emp", "raw_stats"],
    "SpecKitV.Props.C01": ["reduce_spec", "reduce_M2_all_K", "reduce_M2_nonneg", "reduce_M2_one"],
    # statistical meaning of the generated XY_emp_var = M2/navg under the standard model (K pairwise uncorrelated / independent products)
    "SpecKitV.Props.StatModel": ["emp_var_expectation", "mean_z_variance", "emp_var_vs_true", "emp_var_K1_zero", "emp_var_vs_true_of_indep",
                                 "StatModel.vector_hypotheses_satisfiable"],
    # no method of a result writes in place an array its cache holds (region ResultPurity: buffer effects of every SpectrumResult method, regenerated
    # each run) — the quantities of this property are read off that cache, in any order, possibly after plot() / get_measurement() / to_dataframe()
    "SpecKitV.Props.ResultPurityGen": ["gen_result_methods_write_no_cached_array", "gen_result_methods_pure", "gen_session_pure", "cRun_clean_of_clean"],
}
CONTRACTS = ["the M2 handed to SpectrumResult is the reducer's output for the per-segment products of the kernels (C01: every kernel = Ref, reducer = "
             "mean / population variance about the mean); NumPy fallbacks are tied to the same reference by C01's correspondence"]
ASSUMPTIONS = ["theorems are over the reals for the Lean translation of SpectrumResult.__getattr__ and of _reduce_stats_nb; rounding is covered by the "
               "forward budget _an.bin_tol (Goertzel growth L*min(L, 1/|sin w|), scaled by (sup_k sum|x w|)^2 ... never by a quantity that can vanish)",
               "CUDA backend: covered by the kernel theorems of C01 (CUDA = Ref) and the attribute theorems; the oracle runs numba and numpy only",
               "NOT decided by theorem (DESIGN §5, C11 'N'): 'for Gaussian noise with independent segments the empirical deviations agree with the analytic "
               "deviations' is distributional; it is only supported by a thorough-tier probe whose numbers are recorded in the evidence notes and which "
               "alarms only on a gross (> factor 3) mismatch (measured on the unchanged tree: median ratios 0.87 .. 1.00 over 4 runs)"]
RULE = ("cases = (auto record kind noise/offset/drift/red/tone/zero/const | pair kind, N, fs, order -1..2, scheduler (4), window, backend numba/numpy, "
        "entry compute_spectrum | compute_single_bin with L incl. L = N); every bin is re-evaluated from its own (f, L, D); distinct by (mode, kind, order, "
        "scheduler, backend, entry); non-trivial = a bin with K >= 2 and a scatter above its rounding budget; PLUS near-identical-segment records "
        "(line / periodic waveform whose period divides the segment hop of the analysed bin, relative noise floor 0 or 1e-5..1e-9, DC with order -1, "
        "line at the bin frequency under a high-PSLL Kaiser window) x auto/cross x order -1..2 x numba/numpy x single_bin/compute_spectrum; there "
        "non-trivial = a bin with K >= 2 whose tight scatter budget is below u*|mean|^2/4 (a cancelling variance formula would be seen); PLUS the "
        "option stream (every (mode, order, backend, entry family) cell per 16 cases; entry point x scheduler incl. two user callables x overlap form "
        "incl. repeated starts x window incl. user callables x layout x L form cycled; each analysis twice + both backends) and the size stream "
        "(K around every mined NumPy chunk constant for all six NumPy kernels, K = 70001 / 1100003 both backends, a 1003-bin plan)")

NAMES = ["XX_mean", "YY_mean", "XY_M2", "XY_emp_var", "XY_emp_dev", "Gxx_emp_dev", "Gxy_emp_dev"]
AUTO_KINDS = ["noise", "offset", "drift", "red", "tone", "zero", "const"]
CROSS_KINDS = ["indep", "mixed", "delayed", "strong", "scaled", "zero-y", "const-x"]
U = _an.U
LD = np.longdouble
LOCK_KINDS = ["locked-tone", "locked-wave", "line", "dc"]
VEC_K, VEC_ROWS = 2048, 32768      # reference evaluation: bins with more segments than VEC_K are evaluated block-wise (VEC_ROWS rows at a time)


def ref_stats(x: np.ndarray, y: Optional[np.ndarray], D, L: int, w: np.ndarray, om: float, order: int):
    """One bin from its own plan by the definition: direct windowed (detrended) DFT of every segment in extended precision.
    Returns (XX, YY, XY, M2, a, b) exactly as _an.ref_bin (same operations, segment values rounded to double: used by the budgets of a, e) and the
    scatter kept in EXTENDED precision throughout (two-pass: mean of the products first, then the mean squared deviation):
    ext = (mean as complex, M2, sqrt(M2), max |Z_k|)."""
    n = np.arange(L, dtype=LD)
    co, si = np.cos(LD(om) * n), np.sin(LD(om) * n)
    wl = w.astype(LD)
    Q = _an.poly_basis(L, order) if order >= 1 else None

    def dfts(z: np.ndarray):
        re, im, raw = np.zeros(len(D), dtype=LD), np.zeros(len(D), dtype=LD), 0.0
        if len(D) > VEC_K:          # many segments: the same operations on blocks of rows (gathered (rows, L) matrices), still extended precision
            Dv, off = np.asarray(D, dtype=np.int64), np.arange(L, dtype=np.int64)
            for k0 in range(0, len(D), VEC_ROWS):
                seg = z[Dv[k0:k0 + VEC_ROWS, None] + off[None, :]]
                raw = max(raw, float(np.abs(seg * w).sum(axis=1).max()))
                v = seg.astype(LD)
                if order == 0:
                    v = v - v.mean(axis=1, keepdims=True)
                elif order >= 1:
                    v = v - (v @ Q) @ Q.T
                v = v * wl
                re[k0:k0 + VEC_ROWS], im[k0:k0 + VEC_ROWS] = (v * co).sum(axis=1), -(v * si).sum(axis=1)
            return re, im, raw
        for k, s in enumerate(D):
            v = z[s:s + L].astype(LD)
            if order == 0:
                v = v - v.mean()
            elif order >= 1:
                v = v - Q @ (Q.T @ v)
            raw = max(raw, float(np.abs(z[s:s + L] * w).sum()))
            v = v * wl
            re[k], im[k] = (v * co).sum(), -(v * si).sum()
        return re, im, raw
    xr, xi, a = dfts(x)
    Xs = xr.astype(float) + 1j * xi.astype(float)
    if y is None:
        yr, yi, b = xr, xi, a
        Z = np.abs(Xs) ** 2 + 0j
        YY = float(np.mean(np.abs(Xs) ** 2))
        zr, zi = xr * xr + xi * xi, np.zeros(len(D), dtype=LD)
    else:
        yr, yi, b = dfts(y)
        Ys = yr.astype(float) + 1j * yi.astype(float)
        Z = Xs * np.conj(Ys)
        YY = float(np.mean(np.abs(Ys) ** 2))
        zr, zi = xr * yr + xi * yi, xi * yr - xr * yi
    mu = Z.mean()
    M2 = float(np.mean(np.abs(Z - mu) ** 2)) if len(Z) >= 2 else 0.0
    mr, mi = zr.mean(), zi.mean()                                    # pass 1
    dr, di = zr - mr, zi - mi
    m2x = (dr * dr + di * di).mean() if len(D) >= 2 else LD(0)        # pass 2
    ext = (complex(float(mr), float(mi)), float(m2x), float(np.sqrt(m2x)), float(np.sqrt((zr * zr + zi * zi).max())))
    return float(np.mean(np.abs(Xs) ** 2)), YY, complex(mu), M2, a + 1e-300, b + 1e-300, ext


def tight_tol(K: int, tXY: float, ext) -> float:
    """Sound forward budget of the library's two-pass scatter against the extended-precision reference.
    Per segment the kernels deliver Z^_k = Z_k + e_k with |e_k| <= E_lib = tXY (the per-segment product budget of _an.bin_tol: a, b are suprema over
    the segments); the reference delivers Z~_k with |Z~_k - Z_k| <= E_ref <= tXY / 1024 (same operation count, unit roundoff 2^-64 instead of 2^-53,
    no recurrence growth). sqrt(M2) is the l2 norm of the centred vector / sqrt(K), a seminorm, so |s(Z^) - s(Z~)| <= E := E_lib + E_ref and
    |M2(Z^) - M2(Z~)| <= 2 E s~ + E^2. The two-pass reduction in floating point gives (M2(Z^) + |d|^2)(1 + th): d = rounding error of the mean,
    |d|^2 <= 2 (K u max|Z^|)^2 (the deviations from the exact mean sum to zero, so an error of the mean enters only squared), |th| <= 8 (K + 8) u
    (subtraction, two squares, one addition per term and a K-term mean; fused or reassociated evaluation included). Nothing here is proportional to
    |mean|^2 at first order in u — that is the point of the two-pass formula, and what a cancelling one-pass formula cannot meet."""
    mu, m2x, sx, zmax = ext
    E = tXY * (1.0 + 2.0 ** -10)
    d2 = 4.0 * (K * U * (zmax + E)) ** 2
    th = 8.0 * (K + 8) * U
    return 2.0 * E * sx + E * E + d2 + th * ((sx + E) ** 2 + d2)


def check_result(P: C.Part, res, x: np.ndarray, y: Optional[np.ndarray], fs: float, opts: Dict[str, Any], kind: str, src: str, rp: Dict[str, Any],
                 max_bins: int = 40, wc: Optional[S.WinCache] = None, refcache: Optional[Dict[Any, Any]] = None, big: bool = False) -> None:
    """every sub-claim on (up to max_bins, spread over the whole axis incl. the last) bins of one result.  wc: the window table (default: from opts;
    handed in when opts carries the LABEL of a callable window); refcache: shared between analyses of the same record with the same plan (the
    reference depends on (f, L, D, window, order) only, not on the backend / entry point); big: the many-segment stream (see RED below)."""
    cross = y is not None
    order = int(opts["order"])
    wc = wc or S.WinCache(opts)
    with warnings.catch_warnings(), np.errstate(all="ignore"):
        warnings.simplefilter("ignore")
        A = {n: getattr(res, n) for n in NAMES}
    nf = len(res.f)
    sig = {"src": src, "mode": "cross" if cross else "auto", "kind": kind, "order": order}
    label = f"{src} {'cross' if cross else 'auto'} {kind} order={order} sched={opts.get('scheduler')} win={opts.get('win')} backend={opts.get('backend')}"

    def bad(check: str, j: int, msg: str) -> None:
        S.add_violation(P, f"{label} bin {j} (f={float(res.f[j]):.6g}, L={int(res.L[j])}, K={len(res.D[j])}): {msg}", dict(sig, check=check),
                        dict(rp, check=check, bin=int(j)))
    # None table
    own, other = ("Gxy_emp_dev", "Gxx_emp_dev") if cross else ("Gxx_emp_dev", "Gxy_emp_dev")
    P.cases += 1
    if A[other] is not None:
        bad("none", 0, f"{other} must be None for {'a cross' if cross else 'an auto'}-spectrum")
    for n in NAMES:
        if n != other and A[n] is None:
            bad("none", 0, f"{n} is None")
            return
    # the number of segments: sub-claim a divides by it; the result reports it three times (K, navg, len(D)) and the three must agree
    # (integers, compared exactly; every bin: this costs nothing)
    try:
        Kf, Nf = np.asarray(res.K), np.asarray(res.navg)
        for j in range(nf):
            P.cases += 1
            if not (int(Kf[j]) == int(Nf[j]) == len(res.D[j])):
                bad("segment-count", j, f"the result reports K = {int(Kf[j])}, navg = {int(Nf[j])} and {len(res.D[j])} segment starts: 'the number of "
                                        f"segments' the scatter is divided by is not one number")
                return
    except Exception as ex:
        bad("segment-count", 0, f"K / navg / D of the result cannot be read: {ex!r}")
        return
    idx = list(range(nf)) if nf <= max_bins else sorted(set(int(v) for v in np.linspace(0, nf - 1, max_bins)))
    nontriv = False
    for j in idx:
        L, D = int(res.L[j]), np.asarray(res.D[j], dtype=np.int64)
        K = len(D)
        w, _, s2 = wc.get(L)
        om = 2 * np.pi * float(res.f[j]) / fs
        key = (L, float(res.f[j]), K, D.tobytes()) if refcache is not None else None
        if key is not None and key in refcache:
            XX, YY, XY, M2, a, b, ext = refcache[key]
            P.hit("reference shared between backends")
        else:
            XX, YY, XY, M2, a, b, ext = ref_stats(x, y, D, L, w, om, order)
            if key is not None:
                refcache[key] = (XX, YY, XY, M2, a, b, ext)
        tXX, tYY, tXY, tM2 = _an.bin_tol(L, om, a, b, order)
        if big:
            # RED: _an.bin_tol budgets the per-segment products; it has no term for the K-term reductions (means of K non-negative numbers, the
            # mean entering the deviations), which is negligible for the K <= a few thousand of the other streams but not a priori for K ~ 1e5..1e6
            # summed sequentially (Numba): worst case (K - 1) u per mean, relative to the mean of the (non-negative) terms.  Added for this stream only.
            tXX, tYY, tM2 = tXX + 4 * K * U * XX, tYY + 4 * K * U * YY, tM2 + 4 * K * U * (M2 + tM2) + 8 * (K * U) ** 2 * (abs(XY) + tXY) ** 2
        tT = tight_tol(K, tXY, ext)
        ev, ed, gd = float(A["XY_emp_var"][j]), float(A["XY_emp_dev"][j]), float(A[own][j])
        P.cases += 1
        P.hit("K=1" if K == 1 else ("K=2..4" if K <= 4 else "K>=5"))
        if not (math.isfinite(ev) and ev >= 0.0 and math.isfinite(ed) and ed >= 0.0 and math.isfinite(gd) and gd >= 0.0):      # b
            bad("nonneg", j, f"XY_emp_var = {ev!r}, XY_emp_dev = {ed!r}, {own} = {gd!r} must be finite and >= 0")
            continue
        if K == 1 and not (ev == 0.0 and ed == 0.0 and gd == 0.0):                                                              # b
            bad("single-segment", j, f"one segment but XY_emp_var = {ev!r}, XY_emp_dev = {ed!r}, {own} = {gd!r}")
        if not S.within("a:emp_var", abs(ev - M2 / K), tM2 / K):                                                                # a
            bad("emp-var", j, f"XY_emp_var = {ev!r} but population variance of the {K} segment products / K = {M2 / K!r} (tol {tM2 / K:.3g}; "
                              f"variance about zero would give {(M2 + abs(XY) ** 2) / K!r}, /(K-1) would give {M2 / max(K - 1, 1)!r})")
        if not S.within("c:sqrt", abs(ed - math.sqrt(ev)), 4 * U * math.sqrt(ev)):                                              # c
            bad("emp-dev-sqrt", j, f"XY_emp_dev = {ed!r} but sqrt(XY_emp_var) = {math.sqrt(ev)!r}")
        scale = 2.0 / (fs * s2) if s2 > 0 else 0.0
        if not S.within("d:scale", abs(gd - scale * ed), 1e-9 * scale * ed):                                                    # d
            bad("spectral-units", j, f"{own} = {gd!r} but 2/(fs*sum w^2) * XY_emp_dev = {scale * ed!r} (fs={fs!r}, sum w^2={s2!r})")
        if not S.within("e:XX_mean", abs(float(A["XX_mean"][j]) - XX), tXX):                                                    # e
            bad("raw-XX", j, f"XX_mean = {float(A['XX_mean'][j])!r} but mean |X_k|^2 = {XX!r} (tol {tXX:.3g})")
        if not S.within("e:YY_mean", abs(float(A["YY_mean"][j]) - YY), tYY):
            bad("raw-YY", j, f"YY_mean = {float(A['YY_mean'][j])!r} but mean |Y_k|^2 = {YY!r} (tol {tYY:.3g})")
        if not S.within("e:XY_M2", abs(float(A["XY_M2"][j]) - M2), tM2):
            bad("raw-M2", j, f"XY_M2 = {float(A['XY_M2'][j])!r} but population variance of the segment products = {M2!r} (tol {tM2:.3g})")
        # t: the scatter against the extended-precision two-pass reference, budget proportional to the scatter (see tight_tol)
        m2l = float(A["XY_M2"][j])
        if not S.within("t:XY_M2", abs(m2l - ext[1]), tT):
            bad("tight-M2", j, f"XY_M2 = {m2l!r} but the two-pass population variance of the {K} segment products (extended precision) = {ext[1]!r} "
                               f"(tol {tT:.3g} = 2 E s + E^2 + reduction, E = {tXY:.3g}, s = {ext[2]:.3g}; |mean|^2 = {abs(ext[0]) ** 2:.6g}, "
                               f"u |mean|^2 = {U * abs(ext[0]) ** 2:.3g})")
        elif not S.within("t:emp_var", abs(ev - ext[1] / K), tT / K + 4 * U * ev):
            bad("tight-emp-var", j, f"XY_emp_var = {ev!r} but two-pass population variance / K (extended precision) = {ext[1] / K!r} "
                                    f"(tol {tT / K + 4 * U * ev:.3g}; |mean|^2 / K = {abs(ext[0]) ** 2 / K:.6g})")
        if K >= 2 and tT < 0.25 * U * abs(ext[0]) ** 2:                # an error of u |mean|^2 / 4 in the scatter would be seen here
            P.hit("tight:detectable")
            P.hit("tight:" + ("identical-segments" if ext[1] == 0.0 else "near-identical"))
            P.nontrivial.add(("tight", src, "cross" if cross else "auto", order, str(opts.get("backend")), ext[1] == 0.0))
        if K >= 2 and M2 > 100 * tM2:
            nontriv = True
    if nontriv:
        P.nontrivial.add((src, "cross" if cross else "auto", kind, order, str(opts.get("scheduler")), str(opts.get("backend"))))
    P.hit(f"{src}:{'cross' if cross else 'auto'}:{kind}")
    P.hit(f"backend={opts.get('backend')}")


def run_case(P: C.Part, x, y, fs, opts, kind: str, single, max_bins: int = 40) -> None:
    rp = S.case_replay(x, y, fs, opts, "2xN", "compute_spectrum", single, kind)
    data = np.asarray(x) if y is None else S.stack(x, y, "2xN")
    try:
        res = S.single_bin(data, fs, single["freq"], single["L"], opts) if single else S.spectrum(data, fs, opts)
    except Exception as ex:
        P.hit("rejected:" + type(ex).__name__)
        return
    check_result(P, res, np.asarray(x, dtype=float), None if y is None else np.asarray(y, dtype=float), fs, opts, kind,
                 "single_bin" if single else "compute_spectrum", rp, max_bins)


# ---------------------------------------------------------------- near-identical-segment records
def _periodic(rng: np.random.Generator, N: int, P: int, m: int, kind: str, amp: float, eps: float) -> np.ndarray:
    """amp * (waveform of period P samples: a line with m cycles per period [+ harmonics and an offset for 'locked-wave']) + amp * eps * white noise.
    The waveform is tabulated over ONE period and indexed by n mod P, so that segments whose starts differ by multiples of P are bit-identical
    when eps = 0."""
    k = np.arange(P)
    tab = np.sin(2 * np.pi * m * k / P + float(rng.uniform(0, 2 * np.pi)))
    if kind == "locked-wave":
        tab = tab + float(rng.uniform(-1, 1)) + 0.3 * float(rng.uniform(0, 1)) * rng.standard_normal(P)
    x = amp * tab[np.arange(N) % P]
    if eps > 0:
        x = x + amp * eps * rng.standard_normal(N)
    return x


def locked_case(rng: np.random.Generator, i: int, thorough: bool):
    """Case i of the near-identical-segment stream -> (x, y, fs, opts, kind, single).
    cross = i % 2, backend numba / numpy = (i // 2) % 2, order cycles -1, 0, 1 (every 5th round of 12 cases: 2), entry alternates single_bin / compute_spectrum,
    relative noise floor eps: 0 (every 5th case) or log-uniform in 1e-9 .. 1e-5 (the second channel of a pair gets its own, independent floor)."""
    cross = i % 2 == 1
    backend = ["numba", "numpy"][(i // 2) % 2]
    order = [-1, 0, 1][(i // 4) % 3] if (i // 12) % 5 != 4 else 2
    single_entry = (i // 12) % 2 == 0
    kind = LOCK_KINDS[(i + i // 4 + i // 12) % 4]
    if kind == "dc" and order != -1:
        kind = "locked-tone"
    eps = 0.0 if i % 5 == 0 else float(10 ** rng.uniform(-9, -5))
    if kind == "dc":                                        # DC is seen through a side lobe only: a lower floor keeps the scatter/mean small
        eps *= 1e-2
    eps2 = eps * float(10 ** rng.uniform(-1, 1))
    amp, amp2 = float(10 ** rng.uniform(-3, 3)), float(10 ** rng.uniform(-3, 3))
    fs = float(rng.choice([1.0, 2.0, 1000.0, float(rng.uniform(0.1, 1e4))]))
    win, psll = [("hann", None), ("kaiser", 60.0), ("kaiser", 200.0), ("kaiser", 150.0)][(i // 3) % 4]
    if kind == "line":
        win, psll = "kaiser", float(rng.choice([150.0, 200.0, 250.0]))
    opts: Dict[str, Any] = {"order": order, "win": win, "backend": backend}
    if psll is not None:
        opts["psll"] = psll
    if single_entry:
        P = int(rng.choice([3, 4, 5, 6, 8, 10, 12, 16, 20]))
        q = int(rng.integers(1, max(2, (400 if thorough else 260) // (4 * P)) + 1)) if kind != "dc" else 1
        L = 4 * P * q
        olap = float(rng.choice([0.0, 0.5, 0.75]))
        h = int(round(L * (1 - olap)))                       # a multiple of P
        K = int(rng.choice([2, 3, 4, int(rng.integers(5, 40))]))
        N = L + (K - 1) * h
        if kind == "line":                                  # not commensurate: one more sample, fractional shifts
            N += int(rng.integers(1, h))
        opts["olap"] = olap
        m = int(rng.integers(1, (P - 1) // 2 + 1))
        nu = m / P
        if kind == "dc":
            nu = float(rng.uniform(0.6, 2.5)) / L           # DC seen through the main lobe / first side lobes
        elif rng.random() < 0.4:
            nu += float(rng.uniform(-0.6, 0.6)) / L         # analysed slightly off the line
        single = {"freq": nu * fs, "L": L}
    else:
        N = int(rng.choice([300, 600, 1000] if not thorough else [300, 600, 1000, 1500, 2500]))
        opts.update({"olap": float(rng.choice([0.0, 0.5, 0.75])), "Jdes": int(rng.integers(4, 13)), "Kdes": int(rng.choice([2, 5, 20])),
                     "bmin": float(rng.choice([1.0, 2.0, 3.5])), "Lmin": int(rng.choice([1, 8, 16])), "scheduler": _an.SCHEDS[(i // 24 + i) % 4]})
        single = None
        P, m = 4, 1
        try:                                                # the plan depends on (N, fs, options) only: read it off a dry run
            plan = S.spectrum(np.zeros(N) if not cross else np.zeros((2, N)), fs, opts)
            cand = []
            for j in range(len(plan.f)):
                D = np.asarray(plan.D[j], dtype=np.int64)
                if len(D) >= 2:
                    hg = int(np.gcd.reduce(np.diff(D)))
                    Lj, fj = int(plan.L[j]), float(plan.f[j]) / fs
                    sn = max(abs(math.sin(2 * np.pi * fj)), 1e-300)
                    cand.append(((Lj + 4) * min(Lj + 1.0, 1.0 / sn) * (1 if hg >= 3 else 1e6), hg, fj, Lj))
            if cand:
                cand.sort()
                _, hg, fj, Lj = cand[int(rng.integers(0, min(3, len(cand))))]
                if hg >= 3:                                 # the line's period divides the hop of this bin
                    P, m = hg, int(min(max(1, round(fj * hg)), (hg - 1) // 2))
                    kind = "locked-tone" if kind == "line" else kind
                else:                                       # no bin with a usable common hop: a line at the bin frequency itself
                    P, m = 0, 0
                    nu_line = fj
                    kind = "line" if kind != "dc" else kind
        except Exception:
            pass
    if kind == "dc":
        c = float(rng.choice([-1.0, 1.0]))
        x = amp * c * (1.0 + eps * rng.standard_normal(N)) if eps > 0 else np.full(N, amp * c)
        y = (amp2 * (1.0 + eps2 * rng.standard_normal(N)) if eps2 > 0 else np.full(N, amp2)) if cross else None
    elif single_entry and kind == "line":
        t = np.arange(N)
        x = amp * (np.sin(2 * np.pi * nu * t + float(rng.uniform(0, 6))) + eps * rng.standard_normal(N))
        y = amp2 * (np.sin(2 * np.pi * nu * t + float(rng.uniform(0, 6))) + eps2 * rng.standard_normal(N)) if cross else None
    elif not single_entry and P == 0:
        t = np.arange(N)
        x = amp * (np.sin(2 * np.pi * nu_line * t + float(rng.uniform(0, 6))) + eps * rng.standard_normal(N))
        y = amp2 * (np.sin(2 * np.pi * nu_line * t + float(rng.uniform(0, 6))) + eps2 * rng.standard_normal(N)) if cross else None
    else:
        x = _periodic(rng, N, P, m, kind, amp, eps)
        y = _periodic(rng, N, P, m, kind, amp2, eps2) if cross else None
    return x, y, fs, opts, kind, single


def probe(ctx, P: C.Part) -> None:
    """support run (sub-claim s): white Gaussian records, non-overlapping Hann segments: empirical / analytic deviation"""
    rng = ctx.rng
    L, fs, R = 64, 1.0, 120
    freq = fs * 8 / L
    rows = []
    for nd in (16, 64, 256):
        if ctx.time_left() < 60:
            return
        ra, rc = [], []
        for _ in range(R):
            x, y = rng.standard_normal(nd * L), rng.standard_normal(nd * L)
            y = 0.8 * x + y
            o = {"order": 0, "win": "hann", "olap": 0.0}
            r1 = S.single_bin(x, fs, freq, L, o)
            r2 = S.single_bin(np.vstack([x, y]), fs, freq, L, o)
            if int(r1.navg[0]) != nd:
                P.notes.append(f"probe: expected {nd} non-overlapping segments, analyzer used {int(r1.navg[0])}; probe skipped")
                return
            ra.append(float(r1.Gxx_emp_dev[0]) / float(r1.Gxx_dev[0]))
            rc.append(float(r2.Gxy_emp_dev[0]) / float(r2.Gxy_dev[0]))
        P.cases += 2 * R
        ma, mc = float(np.median(ra)), float(np.median(rc))
        rows.append((nd, ma, mc, float(np.min(ra)), float(np.max(ra)), float(np.min(rc)), float(np.max(rc))))
        for nm, q in (("Gxx_emp_dev/Gxx_dev", ma), ("Gxy_emp_dev/Gxy_dev", mc)):
            if not (1 / 3 <= q <= 3):
                S.add_violation(P, f"white Gaussian records, {nd} independent segments, {R} realisations: median {nm} = {q:.3g}, outside [1/3, 3]",
                                {"src": "probe", "check": "emp-vs-analytic", "name": nm}, {"probe": True, "nd": nd})
    P.notes.append("support probe (not decided by theorem) empirical/analytic deviation, median [min..max] over realisations: " +
                   "; ".join(f"n={nd}: auto {ma:.2f} [{a0:.2f}..{a1:.2f}] cross {mc:.2f} [{c0:.2f}..{c1:.2f}]" for nd, ma, mc, a0, a1, c0, c1 in rows) +
                   "  (band for remark 0.5..2 on the median, alarm only outside 1/3..3)")


# ---------------------------------------------------------------- Family O: option combinations, entry points, call history
ORDERS = [-1, 0, 1, 2]
O_ENTRIES = {"compute": ["an.compute", "compute_spectrum", "lpsd"],
             "single": ["an.single:L", "mod.single:L", "an.single:fres", "mod.single:fres"]}
O_SCHEDS = ["lpsd", "custom:welch", "ltf", "custom:relist", "vectorized_ltf", "new_ltf"]
O_OLAPS = ["default", "float", "zero", "high"]
O_WINS = [("kaiser", 60.0), ("hann", None), ("call:skew", None), ("kaiser", 200.0), ("call:tri", None), ("kaiser", None)]
O_LAYOUTS = {False: ["1-D", "list"], True: ["2xN", "Nx2", "list"]}
O_LFORMS = ["full", "odd", "near-full", "even", "small"]
O_PLAN = ("f", "L", "K", "navg")
O_RAW = ("XX", "YY", "XY", "M2", "S2", "S12")


def _win_skew(L: int) -> np.ndarray:
    """a user window: positive, NOT symmetric (a reversed or re-centred window would show)"""
    n = np.arange(L, dtype=float)
    return 0.25 + np.sin(np.pi * (n + 0.5) / max(L, 1)) ** 2 + 0.2 * n / max(L, 1)


def _win_tri(L: int) -> np.ndarray:
    """a user window: strictly positive triangle"""
    return np.asarray(np.bartlett(L + 2)[1:-1], dtype=float)


CALL_WINS = {"call:skew": _win_skew, "call:tri": _win_tri}


def custom_scheduler(spec: Dict[str, Any]):
    """A user scheduler (callable handed to the analyzer) described by a JSON-serialisable spec = {"kind", "L": [...], "b": [...], optional "hop": [...]}:
    bin j has segment length L[j] (clipped to N), frequency b[j] * fs / L[j] and
      - with "hop": K[j] segments at 0, hop, 2 hop, ... (K[j] from spec["K"])                        -- the many-segment stream,
      - otherwise segments spread evenly over the record for the requested overlap, exactly as compute_single_bin places them: starts REPEAT
        once (1 - olap) * L < 1 (a user scheduler may list a segment twice; K = navg = len(D) counts every listed segment).
    'welch' = one fixed length for all bins; 'relist' = a length listed again after a different one (L = a, 4a, a, N, a+1, 4a, a)."""
    def sched(**kw):
        N, fs, olap = int(kw["N"]), float(kw["fs"]), float(kw["olap"])
        Ls, f, D = [], [], []
        for j, (L0, b) in enumerate(zip(spec["L"], spec["b"])):
            L = max(1, min(int(L0), N))
            if "hop" in spec:
                d = np.arange(int(spec["K"][j]), dtype=np.int64) * int(spec["hop"][j])
            elif L >= N:
                d = np.zeros(1, dtype=np.int64)
            else:
                K = max(1, int(math.floor((N - L) / max((1.0 - olap) * L, 1e-9) + 1.5)))
                d = np.floor(np.arange(K) * ((N - L) / (K - 1)) + 0.5).astype(np.int64) if K > 1 else np.zeros(1, dtype=np.int64)
            Ls.append(L)
            f.append(float(b) * fs / L)
            D.append(d)
        Ls = np.asarray(Ls, dtype=np.int64)
        f = np.asarray(f, dtype=float)
        K = np.array([len(d) for d in D], dtype=np.int64)
        O = np.array([0.0 if len(d) < 2 else max(0.0, 1.0 - float(d[1] - d[0]) / float(l)) for d, l in zip(D, Ls)])
        return {"f": f, "r": fs / Ls, "b": f * Ls / fs, "L": Ls, "K": K, "navg": K.copy(), "D": D, "O": O}
    sched.__name__ = "custom_" + str(spec.get("kind", "plan"))
    return sched


def resolve_kw(kw: Dict[str, Any], order: int, backend: str) -> Dict[str, Any]:
    """JSON-able option description -> keyword arguments of the analyzer (labels of callables replaced by the callables)"""
    o = {k: v for k, v in kw.items() if k != "sched_spec"}
    if isinstance(o.get("win"), str) and o["win"] in CALL_WINS:
        o["win"] = CALL_WINS[o["win"]]
    if isinstance(o.get("scheduler"), str) and o["scheduler"].startswith("custom:"):
        o["scheduler"] = custom_scheduler(kw["sched_spec"])
    if o.get("band") is not None:
        o["band"] = tuple(o["band"])
    o["order"], o["backend"] = int(order), backend
    return o


def wincache_for(kw: Dict[str, Any]) -> S.WinCache:
    win = kw.get("win", "kaiser")
    return S.WinCache({"win": CALL_WINS.get(win, win), "psll": kw.get("psll", 200.0)})


def lay_out(x: np.ndarray, y: Optional[np.ndarray], layout: str):
    if y is None:
        return [float(v) for v in x] if layout == "list" else np.array(x, dtype=np.float64)
    if layout == "list":
        return [[float(v) for v in x], [float(v) for v in y]]
    return S.stack(np.asarray(x, dtype=np.float64), np.asarray(y, dtype=np.float64), layout)


def call_entry(case: Dict[str, Any], data, backend: str):
    """(first result, result of the SECOND identical call): on the same analyzer for the 'an.' entries -- optionally with the other entry point of
    that analyzer called in between -- and on the same input object for the module-level functions"""
    import speckit
    from speckit.analysis import SpectrumAnalyzer
    kw = resolve_kw(case["kw"], case["order"], backend)
    entry, fs, sg = case["entry"], float(case["fs"]), case.get("single")
    sarg = {}
    if sg is not None:
        sarg = {"L": int(sg["L"])} if entry.endswith(":L") else {"fres": fs / int(sg["L"])}
    with warnings.catch_warnings(), np.errstate(all="ignore"):
        warnings.simplefilter("ignore")
        if entry.startswith("an."):
            an = SpectrumAnalyzer(data, fs, **kw)
            go = an.compute if entry == "an.compute" else (lambda: an.compute_single_bin(float(sg["freq"]), **sarg))
            r1 = go()
            if case.get("interleave"):
                try:
                    if entry == "an.compute":
                        m = len(r1.f) // 2
                        an.compute_single_bin(float(r1.f[m]), L=int(r1.L[m]))
                    else:
                        an.compute()
                except Exception:
                    pass
            return r1, go()
        if entry in ("compute_spectrum", "lpsd"):
            fn = getattr(speckit, entry)
            return fn(data, fs, **kw), fn(data, fs, **kw)
        fn = speckit.compute_single_bin
        return fn(data, fs, float(sg["freq"]), **sarg, **kw), fn(data, fs, float(sg["freq"]), **sarg, **kw)


def _bits(a) -> bytes:
    return b"None" if a is None else np.ascontiguousarray(a).tobytes()


def result_diff(r1, r2) -> Optional[str]:
    """None if the two results are bit-identical (plan, raw statistics, every C11 attribute), else the first field that differs"""
    with warnings.catch_warnings(), np.errstate(all="ignore"):
        warnings.simplefilter("ignore")
        if len(r1.f) != len(r2.f):
            return f"number of bins {len(r1.f)} / {len(r2.f)}"
        for n in O_PLAN + O_RAW + tuple(NAMES):
            a, b = getattr(r1, n), getattr(r2, n)
            if _bits(a) != _bits(b):
                j = 0
                if a is not None and b is not None and np.shape(a) == np.shape(b):
                    df = np.flatnonzero(np.asarray(a) != np.asarray(b))
                    j = int(df[0]) if len(df) else 0
                    return f"{n}[{j}] = {np.asarray(a)[j]!r} / {np.asarray(b)[j]!r}"
                return f"{n}: {a!r} / {b!r}"
        for j in range(len(r1.f)):
            if _bits(np.asarray(r1.D[j], dtype=np.int64)) != _bits(np.asarray(r2.D[j], dtype=np.int64)):
                return f"segment starts of bin {j}"
    return None


def trend_record(rng: np.random.Generator, N: int, cross: bool, kind: str):
    """noise + offset + slope + curvature + a line with a phase (all of the order of the noise, so that none of them hides in the rounding budget of
    another), second channel: delayed copy + own noise, own trend, own phase, own scale"""
    n = np.arange(N)
    t = n / max(N - 1, 1) - 0.37

    def one(sc: float) -> np.ndarray:
        c = rng.uniform(-3, 3, 3)
        return sc * (rng.standard_normal(N) + c[0] + 2 * c[1] * t + 3 * c[2] * t * t +
                     float(rng.uniform(0.5, 2.0)) * np.sin(2 * np.pi * float(rng.uniform(0.02, 0.4)) * n + float(rng.uniform(0, 2 * np.pi))))
    x0 = one(1.0)
    x, y = float(10 ** rng.uniform(-2, 2)) * x0, None
    if cross:
        y = float(10 ** rng.uniform(-2, 2)) * (0.6 * np.roll(x0, int(rng.choice([1, 2, 5]))) + one(0.7))
    if kind == "const":
        x = np.full(N, float(rng.uniform(-5, 5)))
    elif kind == "zero-y" and cross:
        y = np.zeros(N)
    elif kind == "zero":
        x = np.zeros(N)
    return x, y


def opt_case(rng: np.random.Generator, i: int, rot: Dict[str, int], thorough: bool):
    """Case i of the option stream -> (case description (JSON-able), x, y).
    i % 2 -> auto / cross, (i // 2) % 4 -> order, (i // 8) % 2 -> entry family compute / single bin: every block of 16 cases visits every (mode, order,
    family) cell, and every case is analysed by BOTH backends with otherwise identical options.  Entry point, scheduler, overlap request form,
    window kind, layout and segment-length form step through their lists inside a block (different strides) from offsets `rot` drawn per block."""
    k, cross, order = i % 8, i % 2 == 1, ORDERS[(i // 2) % 4]
    fam = "single" if (i // 8) % 2 else "compute"
    entry = O_ENTRIES[fam][(k + rot["entry"]) % len(O_ENTRIES[fam])]
    olap_form = O_OLAPS[(3 * k + rot["olap"]) % 4]
    win, psll = O_WINS[(5 * k + rot["win"]) % 6]
    layout = O_LAYOUTS[cross][(k // 2 + rot["layout"]) % len(O_LAYOUTS[cross])]
    fs = float(rng.choice([1.0, 2.0, 1000.0, float(rng.uniform(0.1, 1e4))]))
    kind = ["const", "zero-y" if cross else "zero"][i % 2] if (i // 16 + k) % 23 == 22 else "trend"
    kw: Dict[str, Any] = {"win": win}
    if win == "kaiser":
        kw["psll"] = float(psll if psll is not None else rng.uniform(40, 220))
    case: Dict[str, Any] = {"cross": cross, "order": order, "entry": entry, "fs": fs, "layout": layout, "kind": kind, "olap_form": olap_form,
                            "interleave": bool((k + rot["inter"]) % 3 == 0), "backends": ["numpy", "numba" if (i // 16) % 3 else "auto"]}
    kw.update({"Jdes": int(rng.integers(5, 11)), "Kdes": int(rng.choice([1, 2, 5, 20])), "bmin": float(rng.choice([1.0, 2.0, 3.5])),
               "Lmin": int(rng.choice([1, 8]))})
    if fam == "single":
        N = int(rng.choice([64, 101, 150] if olap_form == "high" else [64, 101, 257, 400, 600]))
        lf = O_LFORMS[(k + rot["L"]) % 5]
        if olap_form == "high" and lf != "full":        # (segments x length kept below ~4000 samples per bin: cheap on every backend)
            lf = "small"
        L = {"full": N, "near-full": int(N * float(rng.uniform(0.55, 0.9))), "odd": 2 * int(rng.integers(2, max(3, N // 6))) + 1,
             "even": 2 * int(rng.integers(2, max(3, N // 6))), "small": int(rng.integers(3, 17))}[lf]
        L = max(2, min(L, N))
        freq = float(rng.uniform(0.01, 0.49)) * fs if rng.random() < 0.8 else fs * int(rng.integers(1, max(2, L // 2))) / L
        case["single"] = {"freq": freq, "L": L}
        case["lform"] = lf
        kw["olap"] = {"default": "default", "float": round(float(rng.uniform(0.1, 0.85)), 3), "zero": 0.0,
                      "high": 1.0 - float(rng.uniform(0.5, 0.95)) / L}[olap_form]           # high: the shift between segments is below one sample
        kw["scheduler"] = "vectorized_ltf"
    else:
        N = int(rng.choice([60, 101, 140] if olap_form == "high" else [120, 240, 401, 600]))
        sched = O_SCHEDS[(k + rot["sched"]) % 6]
        kw["scheduler"] = sched
        Lref = N
        if sched == "custom:welch":
            L = int(rng.choice([N // 5, N // 5 + 1, N // 3, 33, 64] if olap_form != "high" else [N // 5, N // 5 + 1, 9, 16]))
            nb = int(rng.integers(3, 7))
            kw["sched_spec"] = {"kind": "welch", "L": [L] * nb, "b": [round(float(v), 3) for v in np.sort(rng.uniform(1.0, L / 2, nb))]}
            Lref = L
        elif sched == "custom:relist":
            a = max(4, N // int(rng.choice([5, 6, 9])))
            Ls = [a, 4 * a, a, N, a + 1, 4 * a, a]
            kw["sched_spec"] = {"kind": "relist", "L": Ls, "b": [round(float(rng.uniform(1.0, min(8.0, l / 2))), 3) for l in Ls]}
            Lref = a
        elif (k + rot["band"]) % 4 == 0:
            kw["band"] = [0.04 * fs, 0.42 * fs]
        if sched.startswith("custom:"):
            kw["Lmin"] = 1                     # the analyzer rejects a plan with L < Lmin; the user plans go down to L = 4
        kw["olap"] = {"default": "default", "float": round(float(rng.uniform(0.1, 0.85)), 3), "zero": 0.0,
                      "high": (1.0 - 0.7 / Lref) if sched.startswith("custom:") else 0.95}[olap_form]
        case["single"] = None
    case["kw"], case["N"] = kw, N
    x, y = trend_record(rng, N, cross, kind)
    return case, x, y


def compare_backends(P: C.Part, case: Dict[str, Any], ra, rb, x: np.ndarray, y: Optional[np.ndarray], wc: S.WinCache, rp: Dict[str, Any]) -> None:
    """(iv) two backends, otherwise identical options: the same plan (exactly) and, on EVERY bin, raw statistics and empirical variance within twice
    the kernels' rounding budget (_an.bin_tol with a, b bounded by max|x| * sum|w| >= the supremum over the segments; each backend is within one
    budget of the exact value)."""
    cross, order, fs = y is not None, int(case["order"]), float(case["fs"])
    ba, bb = case["backends"]
    sig = {"src": "opt:" + case["entry"], "mode": "cross" if cross else "auto", "kind": case["kind"], "order": order}

    def bad(check: str, j: int, msg: str) -> None:
        S.add_violation(P, f"opt:{case['entry']} {'cross' if cross else 'auto'} order={order} sched={case['kw'].get('scheduler')} win={case['kw'].get('win')} "
                           f"olap={case['kw'].get('olap')!r} layout={case['layout']} bin {j}: backends {ba} / {bb}: {msg}", dict(sig, check=check),
                        dict(rp, check=check, bin=int(j)))
    P.cases += 1
    if len(ra.f) != len(rb.f) or any(_bits(getattr(ra, n)) != _bits(getattr(rb, n)) for n in O_PLAN) or \
            any(_bits(np.asarray(ra.D[j], dtype=np.int64)) != _bits(np.asarray(rb.D[j], dtype=np.int64)) for j in range(len(ra.f))):
        bad("backend-plan", 0, "different plans (f / L / K / navg / D) for the same record and options")
        return
    with warnings.catch_warnings(), np.errstate(all="ignore"):
        warnings.simplefilter("ignore")
        A = {n: getattr(ra, n) for n in NAMES}
        B = {n: getattr(rb, n) for n in NAMES}
    if any((A[n] is None) != (B[n] is None) for n in NAMES):
        bad("backend-none", 0, "an attribute is None for one backend only")
        return
    ax, ay = float(np.abs(x).max(initial=0.0)), float(np.abs(y).max(initial=0.0)) if cross else 0.0
    for j in range(len(ra.f)):
        L, K = int(ra.L[j]), len(ra.D[j])
        _, s1, _ = wc.get(L)
        om = 2 * np.pi * float(ra.f[j]) / fs
        a = ax * s1 + 1e-300
        tXX, tYY, _, tM2 = _an.bin_tol(L, om, a, (ay * s1 + 1e-300) if cross else a, order)
        P.cases += 1
        for n, t in (("XX_mean", 2 * tXX), ("YY_mean", 2 * tYY), ("XY_M2", 2 * tM2), ("XY_emp_var", 2 * tM2 / max(K, 1))):
            va, vb = float(A[n][j]), float(B[n][j])
            if not S.within("backends:" + n, abs(va - vb), t + 4 * U * max(abs(va), abs(vb))):
                bad("backend-agreement", j, f"{n} = {va!r} / {vb!r} (L={L}, K={K}, allowance {t:.3g})")
                break


def run_opt_case(P: C.Part, case: Dict[str, Any], x: np.ndarray, y: Optional[np.ndarray], max_bins: int = 40) -> None:
    cross, order, entry = y is not None, int(case["order"]), case["entry"]
    rp = {"opt": case, "x": np.asarray(x).tolist(), "y": None if y is None else np.asarray(y).tolist()}
    sig = {"src": "opt:" + entry, "mode": "cross" if cross else "auto", "kind": case["kind"], "order": order}
    wc = wincache_for(case["kw"])
    refcache: Dict[Any, Any] = {}
    xf, yf = np.asarray(x, dtype=float), None if y is None else np.asarray(y, dtype=float)
    results = {}
    for be in case["backends"]:
        data = lay_out(xf, yf, case["layout"])
        keep = [list(r) for r in data] if (cross and isinstance(data, list)) else (list(data) if isinstance(data, list) else data.copy())
        label = (f"opt:{entry} {'cross' if cross else 'auto'} order={order} backend={be} sched={case['kw'].get('scheduler')} win={case['kw'].get('win')} "
                 f"olap={case['kw'].get('olap')!r} layout={case['layout']}")
        try:
            r1, r2 = call_entry(case, data, be)
        except Exception as ex:
            P.hit(f"opt rejected:{type(ex).__name__}:{be}")
            results[be] = None
            continue
        P.cases += 2
        same_in = (data == keep) if isinstance(data, list) else (data.tobytes() == keep.tobytes())
        if not same_in:                                                                                                       # (iii) untouched input
            S.add_violation(P, f"{label}: the caller's input array was modified by the analysis", dict(sig, check="input-modified"), dict(rp, check="input-modified"))
        try:
            df = result_diff(r1, r2)
        except Exception as ex:
            df = f"the results cannot be compared: {ex!r}"
        if df is not None:                                                                                                    # (iii) second call
            S.add_violation(P, f"{label}: the second identical call ({'same analyzer' if entry.startswith('an.') else 'same input array'}"
                               f"{', other entry point called in between' if case.get('interleave') and entry.startswith('an.') else ''}) "
                               f"gives a different result: {df} (first / second)", dict(sig, check="second-call"), dict(rp, check="second-call"))
        o = {"order": order, "win": case["kw"].get("win"), "psll": case["kw"].get("psll"), "scheduler": case["kw"].get("scheduler"), "backend": be}
        check_result(P, r1, xf, yf, float(case["fs"]), o, case["kind"], "opt:" + entry, rp, max_bins, wc=wc, refcache=refcache)
        results[be] = r1
        fam = "single" if case["single"] else "compute"
        P.hit(f"opt cell {'cross' if cross else 'auto'} order={order} {be if be != 'auto' else 'numba'} {fam}")
        for kk in ("entry", "layout", "olap_form"):
            P.hit(f"opt {kk}={case[kk]}")
        P.hit(f"opt sched={case['kw'].get('scheduler')}" if fam == "compute" else f"opt L-form={case.get('lform')}")
        P.hit(f"opt win={case['kw'].get('win')}")
        if any(len(d) > len(np.unique(d)) for d in r1.D):
            P.hit("opt repeated segment starts")
    ra, rb = (results.get(b) for b in case["backends"])
    if ra is not None and rb is not None:
        try:
            compare_backends(P, case, ra, rb, xf, yf, wc, rp)
        except Exception as ex:            # a field that cannot be read has been reported by check_result already
            P.hit("opt backends not comparable:" + type(ex).__name__)
    elif (ra is None) != (rb is None):
        P.hit("opt rejected by one backend only")


def option_stream(ctx, P: C.Part, rng: np.random.Generator, n: int) -> None:
    rot: Dict[str, int] = {}
    t0 = ctx.time_left()
    for i in range(n):
        if ctx.time_left() < (600 if ctx.thorough else 40) or len(P.violations) >= S.MAX_VIOL:
            break
        if i % 8 == 0:
            rot = {k: int(rng.integers(0, 60)) for k in ("entry", "olap", "win", "layout", "L", "sched", "inter", "band")}
        case, x, y = opt_case(rng, i, rot, ctx.thorough)
        run_opt_case(P, case, x, y, max_bins=40)
        if i in (0, 8):
            P.sample({"op": "oracle-options", **{k: v for k, v in case.items()}})
    cells = sorted(k for k in P.histogram if k.startswith("opt cell "))
    P.notes.append(f"option stream: {len(cells)}/32 (mode, order, backend, entry family) cells visited, each analysed twice (second call bit-identical, "
                   f"input untouched) and by both backends; {P.histogram.get('opt repeated segment starts', 0)} analyses with repeated segment starts; "
                   f"{t0 - ctx.time_left():.1f}s")


# ---------------------------------------------------------------- Family S: size thresholds (segments per bin, record length, bins per plan)
NP_KERNELS = {(-1, False): "_stats_win_only_auto_np", (-1, True): "_stats_win_only_csd_np", (0, False): "_stats_detrend0_auto_np",
              (0, True): "_stats_detrend0_csd_np", (1, False): "_stats_poly_auto_np", (1, True): "_stats_poly_csd_np"}


def chunk_constants() -> Dict[Any, List[int]]:
    """segment-count thresholds of the NumPy kernels, read from the CURRENT source (chunk sizes 32768 / 16384 / 8192 on the unchanged tree); a kernel
    without a constant of its own (renamed, constant moved to module level) gets every constant of the file"""
    every = [c for c in C.mined_sizes(["speckit/core.py"]) if 1024 <= c <= 300000]
    out = {}
    for key, name in NP_KERNELS.items():
        cs = [c for c in C.mined_sizes(["speckit/core.py"], names=[name]) if 256 <= c <= 300000]
        out[key] = cs or every
    return out


def size_record(seed: int, N: int, L: int, cross: bool):
    """level step at 55..85 % of the record (a scatter about a per-chunk / running mean differs from the scatter about the bin's mean), plus a burst
    on the first and on the last 2L samples (the first and the last segments carry weight: a dropped or doubled end block shows), offset 0.5"""
    r = np.random.default_rng(seed)
    g = np.ones(N)
    g[int(N * float(r.uniform(0.55, 0.85))):] = float(r.uniform(2.0, 4.0))
    g[:2 * L] *= 3.0
    g[max(0, N - 2 * L):] *= 2.0
    x = g * r.standard_normal(N) + 0.5
    y = (0.6 * np.roll(x, 1) + g * r.standard_normal(N)) if cross else None
    return x, y


def run_size_case(P: C.Part, rc: Dict[str, Any]) -> Optional[Any]:
    """one many-segment bin: K segments of length L every `hop` samples, through compute_single_bin (olap = 1 - hop/L) or through compute() with a
    user scheduler listing exactly these segments (plus an ordinary second bin).  The record is regenerated from rc["seed"] (replays stay small)."""
    K, L, hop, order, cross, be = int(rc["K"]), int(rc["L"]), int(rc["hop"]), int(rc["order"]), bool(rc["cross"]), rc["backend"]
    N = (K - 1) * hop + L
    x, y = size_record(int(rc["seed"]), N, L, cross)
    data = x if not cross else np.vstack([x, y])
    keep = data.copy()
    opts = {"order": order, "win": "hann", "backend": be, "olap": 1.0 - hop / L, "scheduler": rc["entry"]}
    import speckit
    try:
        with warnings.catch_warnings(), np.errstate(all="ignore"):
            warnings.simplefilter("ignore")
            if rc["entry"] == "single":
                res = speckit.compute_single_bin(data, 1.0, float(rc["freq"]), L=L, order=order, win="hann", backend=be, olap=opts["olap"])
            else:
                spec = {"kind": "many", "L": [L, 48], "b": [float(rc["freq"]) * L, 5.3], "hop": [hop, 24], "K": [K, min(5, max(1, (N - 48) // 24 + 1))]}
                res = speckit.compute_spectrum(data, 1.0, scheduler=custom_scheduler(spec), order=order, win="hann", backend=be, olap=0.5)
    except Exception as ex:
        P.hit(f"size rejected:{type(ex).__name__}")
        return None
    rp = {"size": dict(rc)}
    mode = "cross" if cross else "auto"
    if data.tobytes() != keep.tobytes():
        S.add_violation(P, f"size stream {rc}: the caller's input array was modified by the analysis",
                        {"src": "size:" + rc["entry"], "mode": mode, "kind": "level-step/many-segments", "order": order, "check": "input-modified"},
                        dict(rp, check="input-modified"))
    check_result(P, res, x, y, 1.0, opts, "level-step/many-segments", "size:" + rc["entry"], rp, max_bins=4, big=True)
    Kres = len(res.D[0])
    P.hit(f"size {be} order={order} {mode}: K={Kres}" + ("" if Kres == K else f" (wanted {K})"))
    P.hit(f"chunked:order{order}:{mode}")
    return res


def size_stream(ctx, P: C.Part, rng: np.random.Generator, level: int) -> None:
    """K just below / at / above every mined chunk constant for EVERY NumPy kernel (short L keeps the reference cheap), K = 70 001 for every kernel
    of both backends, K = 1 100 003 for a rotating (quick) / every (full) kernel, and one plan with more bins than any constant of the analyzer.
    level 0 = quick tier (three sizes per constant, a third of the 70 001 cases, three large ones), 1 = an obligation broke (all five sizes per constant,
    70 001 for all twelve kernels, four large ones), 2 = thorough tier (everything, 1 100 003 for all twelve kernels)."""
    full = level >= 1
    t0 = ctx.time_left()
    cc = chunk_constants()
    floor = 600 if ctx.thorough else 45
    todo: List[Dict[str, Any]] = []
    r0 = int(rng.integers(0, 1000))
    for n, ((order, cross), cs) in enumerate(sorted(cc.items())):
        for c in cs[:3]:
            sizes = [c - 1, c, c + 1, c + 17, 2 * c + 3]
            if not full:
                sizes = [c + 1, 2 * c + 3, [c - 1, c, c + 17][(n + r0) % 3]]
            for m, K in enumerate(sizes):
                if K * 4 > 1_400_000 and not full:
                    continue
                todo.append({"order": (1 + (m + n + r0) % 2) if order == 1 else order, "cross": cross, "backend": "numpy", "K": int(K),
                             "entry": "single" if (m + n) % 3 else "plan"})
    beyond = [(70001, be, order, cross) for be in ("numpy", "numba") for (order, cross) in sorted(NP_KERNELS)]
    big = [(1100003, be, order, cross) for be in ("numpy", "numba") for (order, cross) in sorted(NP_KERNELS)]
    if level == 0:
        beyond = [b for n, b in enumerate(beyond) if (n + r0) % 3 == 0]
    if level <= 1:              # K = 1 100 003 where a case costs about a second (two rotating Numba kernels; NumPy: one of the two kernels with the
        # largest chunks), K = 150 001 for a rotating one of the other NumPy kernels; every kernel in the thorough tier
        ks = sorted(NP_KERNELS)
        big = [(1100003, "numba", *ks[r0 % 6]), (1100003, "numpy", [-1, 0][r0 % 2], False), (150001, "numpy", *[k for k in ks if k[1] or k[0] == 1][r0 % 4])]
        if level == 1:
            big.append((1100003, "numba", *ks[(r0 + 3) % 6]))
    for n, (K, be, order, cross) in enumerate(beyond + big):
        todo.append({"order": (1 + (n + r0) % 2) if order == 1 else order, "cross": cross, "backend": be, "K": K, "entry": "single" if n % 2 else "plan"})
    for n, rc in enumerate(todo):
        if ctx.time_left() < floor or len(P.violations) >= S.MAX_VIOL:
            P.notes.append(f"size stream stopped after {n} of {len(todo)} cases (time)")
            break
        L = int(rng.integers(3, 7)) if rc["K"] < 200000 else 3
        rc.update({"L": L, "hop": [L - L // 2, 1, L][(n + r0) % 3] if rc["K"] < 200000 else 1, "seed": int(rng.integers(0, 2 ** 62)),
                   "freq": float(rng.uniform(0.05, 0.45))})
        run_size_case(P, rc)
    # more bins than any constant of the analyzer (Jdes default 500, ...): both backends, sampled bins incl. the last against the reference,
    # every bin backend against backend
    consts = [c for c in C.mined_sizes(["speckit/analysis.py"], names=["SpectrumAnalyzer", "compute_spectrum", "lpsd"]) if 64 <= c <= 4000] or [500]
    if ctx.time_left() > floor and len(P.violations) < S.MAX_VIOL:
        N, L = 600, int(rng.choice([48, 63]))         # a user scheduler with that many bins (a library plan of a short record has fewer)
        Jd = int(min(max(consts) * 2 + 3, 2500))
        cross = bool(r0 % 2)
        case = {"cross": cross, "order": ORDERS[r0 % 4], "entry": ["compute_spectrum", "an.compute"][(r0 // 4) % 2], "fs": 1.0,
                "layout": "2xN" if cross else "1-D", "kind": "trend", "olap_form": "float", "interleave": False, "backends": ["numpy", "numba"],
                "single": None, "N": N,
                "kw": {"win": "hann", "olap": 0.5, "Jdes": Jd, "Kdes": 20, "bmin": 1.0, "Lmin": 1, "scheduler": "custom:welch",
                       "sched_spec": {"kind": "welch", "L": [L] * Jd, "b": [round(float(v), 4) for v in np.sort(rng.uniform(1.0, L / 2, Jd))]}}}
        x, y = trend_record(rng, N, cross, "trend")
        run_opt_case(P, case, x, y, max_bins=8 if level == 0 else 24)
        P.hit(f"size: plan with {Jd} bins")
    P.notes.append(f"size stream: chunk constants mined from speckit/core.py {sorted(set(c for v in cc.values() for c in v))}; {len(todo)} many-segment "
                   f"bins planned, largest K = {max(t['K'] for t in todo)}; {t0 - ctx.time_left():.1f}s")


# ---------------------------------------------------------------- entry points
def correspondence(ctx) -> C.Part:
    """(a) generated Lean attribute table vs the real __getattr__ for the C11 names; (b) generated reducer (Float) vs _reduce_stats_nb / _reduce_stats"""
    P = C.Part()
    _an.attr_correspondence(ctx, P, NAMES, ctx.scale(40, 400))
    from speckit import core
    rng = ctx.rng
    for i in range(ctx.scale(60, 600)):
        K = int([1, 2, 3, int(rng.integers(4, 40)), int(rng.integers(2, 9))][i % 5])
        sc = float(10 ** rng.uniform(-6, 6))
        off = float(rng.choice([0.0, 1.0, 100.0]))
        xx, yy = sc * rng.uniform(0, 1, K), sc * rng.uniform(0, 1, K)
        xyr, xyi = sc * (off + rng.standard_normal(K)), sc * (rng.standard_normal(K) - off)
        mdl = ctx.driver.floats(" ".join(["reduce", C.arr(xx), C.arr(yy), C.arr(xyr), C.arr(xyi)]))
        m = float(max(np.abs(xx).max(), np.abs(yy).max(), np.abs(xyr).max(), np.abs(xyi).max()))
        tol = [16 * (K + 4) * U * m] * 4 + [64 * (K + 4) * U * 4 * m * m]
        for fn in ("_reduce_stats_nb", "_reduce_stats"):
            imp = [float(v) for v in getattr(core, fn)(xx, yy, xyr, xyi)]
            P.cases += 1
            P.hit(fn)
            if K >= 2:
                P.nontrivial.add(("reduce", fn, K, off))
            badc = [k for k in range(5) if not abs(imp[k] - mdl[k]) <= tol[k]]
            if len(mdl) != 5 or badc:
                P.disagreements.append({"op": "reduce", "fn": fn, "components": badc, "impl": imp, "model": mdl, "tol": tol,
                                        "xx": xx.tolist(), "yy": yy.tolist(), "xyr": xyr.tolist(), "xyi": xyi.tolist()})
    return P


def oracle(ctx, intensive: bool = False, hints: List[Dict[str, Any]] = ()) -> C.Part:
    P = C.Part()
    S.quiet()
    S.MARGIN.clear()
    rng = ctx.rng
    # corpus: fixed records, every order, both modes, both backends (scatter about the mean vs about zero; K = 1 bins; offsets)
    r0 = np.random.default_rng(11)
    x0 = r0.standard_normal(600) + 3.0
    y0 = 0.7 * np.roll(x0, 3) + 0.3 * r0.standard_normal(600)
    for k, order in enumerate(S.ORDERS):
        o = {"order": order, "olap": 0.5, "Jdes": 12, "Kdes": 5, "scheduler": _an.SCHEDS[k], "win": "hann" if k % 2 else "kaiser", "backend": "numpy" if k % 2 else "auto"}
        if o["win"] == "kaiser":
            o["psll"] = 80.0
        run_case(P, x0, None, 2.0, o, "offset", None)
        run_case(P, x0, y0, 2.0, o, "delayed", None)
    # corpus (seeded defect C11c: one-pass variance in the Numba reducer): a calibration line whose period divides the segment hop, noise floor
    # 140 dB below it, and the same line without any noise (identical segments) -- every order, auto and cross, both backends
    r1 = np.random.default_rng(1111)
    tt = np.arange(2100)
    lx, ly = np.sin(2 * np.pi * 50.0 * tt / 1000.0), 0.5 * np.sin(2 * np.pi * 50.0 * tt / 1000.0 + 0.3)
    nx, ny = r1.standard_normal(2100), r1.standard_normal(2100)
    for k, order in enumerate((-1, 0, 1)):
        for be in ("numba", "numpy"):
            o = {"order": order, "olap": 0.5, "win": "hann", "backend": be}
            for e in (1e-7, 0.0):
                run_case(P, lx + e * nx, None, 1000.0, o, "locked-tone", {"freq": 50.0, "L": 200})
                run_case(P, lx + e * nx, ly + e * ny, 1000.0, o, "locked-tone", {"freq": 50.0, "L": 200})
    # option combinations x entry points x call history (Family O): every (mode, order, backend, entry family) cell on every run
    kids = rng.spawn(2)
    option_stream(ctx, P, kids[0], ctx.scale(128, 960) * (4 if intensive else 1))
    # near-identical-segment stream (sub-claim t is evaluated on every case of the oracle; this stream makes it sharp)
    n_lock = ctx.scale(60, 480) * (4 if intensive else 1)
    for i in range(n_lock):
        if ctx.time_left() < (600 if ctx.thorough else 25) or len(P.violations) >= S.MAX_VIOL:
            break
        x, y, fs, opts, kind, single = locked_case(rng, i, ctx.thorough)
        run_case(P, x, y, fs, opts, kind, single, max_bins=40)
        if i < 2:
            P.sample({"op": "oracle-locked", "mode": "cross" if y is not None else "auto", "kind": kind, "N": len(x), "fs": fs, "opts": opts, "single": single})
    # size thresholds (Family S): K around every chunk constant mined from the current source for EVERY NumPy kernel, K = 70 001 / 1 100 003 for
    # both backends, a plan with more bins than any constant of the analyzer; level-step records with weighted ends (seeded defect C11d lives here)
    size_stream(ctx, P, kids[1], 2 if ctx.thorough else (1 if intensive else 0))
    det = sorted(k[1:] for k in P.nontrivial if k[0] == "tight")
    P.notes.append(f"near-identical-segment region: {P.histogram.get('tight:detectable', 0)} bins so far where an error of "
                   f"u*|mean|^2/4 in the scatter would be seen; distinct (entry, mode, order, backend, exactly-identical): {len(det)}")
    n = ctx.scale(210, 2800) * (4 if intensive else 1)
    sizes = [8, 64, 200, 257, 600, 1000] if not ctx.thorough else [8, 16, 64, 100, 257, 600, 1000, 2048, 4000]
    for i in range(n):
        if ctx.time_left() < (600 if ctx.thorough else 25) or len(P.violations) >= S.MAX_VIOL:
            P.notes.append("time budget reached" if len(P.violations) < S.MAX_VIOL else "violation cap reached")
            break
        cross = i % 2 == 1
        N = int(rng.choice(sizes))
        fs = float(rng.choice([1.0, 2.0, 1000.0, float(rng.uniform(0.1, 1e4))]))
        rot = 9 * (i // 14) + (i // 2) % 7          # every (kind, order, scheduler) combination comes round
        opts = S.cyc_options(rng, N, rot)
        opts["backend"] = "numpy" if (i // 2) % 3 == 1 else "numba"
        opts["Jdes"] = min(int(opts["Jdes"]), 16)
        if cross:
            kind = CROSS_KINDS[(i // 2) % len(CROSS_KINDS)]
            x, y = S.pair(rng, N, kind)
        else:
            kind = AUTO_KINDS[(i // 2) % len(AUTO_KINDS)]
            x, y = _an.record(rng, N, kind), None
        run_case(P, x, y, fs, opts, kind, None, max_bins=16 if not ctx.thorough else 40)
        if rng.random() < 0.5:
            L = int(rng.choice([N, max(2, N // 2), int(rng.integers(2, N + 1)), int(rng.integers(2, max(3, N // 8)))]))
            run_case(P, x, y, fs, opts, kind, {"freq": float(rng.uniform(0.0, 0.5) * fs), "L": L})
        if i < 2:
            P.sample({"op": "oracle", "mode": "cross" if cross else "auto", "kind": kind, "N": N, "fs": fs, "opts": opts})
    if ctx.thorough and len(P.violations) == 0:
        probe(ctx, P)
    P.notes.append(S.margins_note("C11"))
    return P


def replay(ctx, data) -> C.Part:
    P = C.Part()
    S.quiet()
    for v in data.get("violations", []):
        rp = v["replay"]
        if rp.get("probe"):
            probe(ctx, P)
        elif "opt" in rp:
            run_opt_case(P, rp["opt"], np.array(rp["x"], dtype=float), None if rp.get("y") is None else np.array(rp["y"], dtype=float))
        elif "size" in rp:
            run_size_case(P, rp["size"])
        else:
            y = None if rp.get("y") is None else np.array(rp["y"], dtype=float)
            run_case(P, np.array(rp["x"], dtype=float), y, float(rp["fs"]), rp["opts"], rp["kind"], rp["single"])
    return P
