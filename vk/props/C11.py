"""C11 — empirical error estimates are the segment scatter in spectral units.

Sub-claims evaluated on the REAL analyzer (auto and cross, all orders, schedulers, numba and numpy backends, K from 1 to many):
  a  XY_emp_var = population variance (about the MEAN) of the per-segment cross-products Z_k = X_k conj(Y_k) (auto: |X_k|^2) divided by the
     number of segments K; the Z_k are recomputed here from the result's own plan by a direct windowed DFT in extended precision
  b  XY_emp_var = 0 when there is a single segment; never negative (zero / constant records included)
  c  XY_emp_dev = sqrt(XY_emp_var)
  d  Gxx_emp_dev (auto) / Gxy_emp_dev (cross) = 2/(fs * sum w^2) * XY_emp_dev, and None for the other mode
  e  XX_mean, YY_mean, XY_M2 expose the raw statistics (segment means of |X_k|^2, |Y_k|^2 and the population variance of Z_k)
  t  (tight form of a and e) the scatter is the TWO-PASS population variance: against a reference kept in extended precision from the DFT to the
     squared deviations, |XY_M2 - M2| <= 2 E s + E^2 + (rounding of the reduction, relative to the scatter), E = per-segment rounding budget of the
     kernels (the |XY| budget of _an.bin_tol), s = sqrt(M2). This budget is proportional to the scatter, not to |mean|^2, so a formula that is
     algebraically the variance but cancels (E|z|^2 - |E z|^2, error ~ u |mean|^2) is exposed on records whose segments are nearly or exactly
     identical (phase-locked lines with a noise floor 1e-5 .. 1e-9 or none, periodic waveforms, DC with order -1): generated on every run.
  s  (thorough tier, support only, never decided by theorem) for white Gaussian records with independent segments the empirical deviations
     agree with the analytic ones: ratios recorded in the notes, a violation only for a gross (> factor 3) mismatch.
"""
from __future__ import annotations

import math
import warnings
from typing import Any, Dict, List, Optional

import numpy as np

from .. import common as C
from . import _an
from . import C09 as S

PROP = "C11"
# obligations of the properties this one is downstream of are obligations of this check too (vk.runner.collect_obligations)
UPSTREAM = ["C05"]
GEN_REGIONS = ["Attrs", "CoreKernels", "NumpyKernels"]
THEOREMS = {
    # the NumPy fallbacks reduce the per-segment products to the same mean and population scatter, for every chunk size
    "SpecKitV.Props.NumpyKernelsGen": ["gen_np_win_only_auto_eq_ref", "gen_np_win_only_csd_eq_ref", "gen_np_detrend0_auto_eq_ref", "gen_np_detrend0_csd_eq_ref", "gen_np_poly_auto_eq_ref", "gen_np_poly_csd_eq_ref", "np_poly_csd_chunk_invariant", "np_poly_csd_M2_nonneg"],
    "SpecKitV.Props.AttrsB": ["emp_var_formula", "emp_var_nonneg", "emp_var_zero_of_M2_zero", "emp_dev_is_sqrt", "Gxx_emp_dev_formula",
                              "Gxy_emp_dev_formula", "emp_dev_is_scaled_emp", "raw_stats"],
    "SpecKitV.Props.C01": ["reduce_spec", "reduce_M2_all_K", "reduce_M2_nonneg", "reduce_M2_one"],
}
CONTRACTS = ["the M2 handed to SpectrumResult is the reducer's output for the per-segment products of the kernels (C01: every kernel = Ref, reducer = "
             "mean / population variance about the mean); NumPy fallbacks are tied to the same reference by C01's correspondence"]
ASSUMPTIONS = ["theorems are over the reals for the Lean translation of SpectrumResult.__getattr__ and of _reduce_stats_nb; rounding is covered by the "
               "forward budget _an.bin_tol (Goertzel growth L*min(L, 1/|sin w|), scaled by (sup_k sum|x w|)^2 ... never by a quantity that can vanish)",
               "CUDA backend: covered by the kernel theorems of C01 (CUDA = Ref) and the attribute theorems; the oracle runs numba and numpy only",
               "NOT decided by theorem (DESIGN §5, C11 'N'): 'for Gaussian noise with independent segments the empirical deviations agree with the analytic "
               "deviations' is distributional; it is only supported by a thorough-tier probe whose numbers are recorded in the evidence notes and which "
               "alarms only on a gross (> factor 3) mismatch (measured on the unchanged tree: median ratios 0.87 .. 1.00 over 4 runs)"]
RULE = ("cases = (auto record kind noise/offset/drift/red/tone/zero/const | pair kind, N, fs, order -1..2, scheduler (4), window, backend numba/numpy, "
        "entry compute_spectrum | compute_single_bin with L incl. L = N); every bin is re-evaluated from its own (f, L, D); distinct by (mode, kind, order, "
        "scheduler, backend, entry); non-trivial = a bin with K >= 2 and a scatter above its rounding budget; PLUS near-identical-segment records "
        "(line / periodic waveform whose period divides the segment hop of the analysed bin, relative noise floor 0 or 1e-5..1e-9, DC with order -1, "
        "line at the bin frequency under a high-PSLL Kaiser window) x auto/cross x order -1..2 x numba/numpy x single_bin/compute_spectrum; there "
        "non-trivial = a bin with K >= 2 whose tight scatter budget is below u*|mean|^2/4 (a cancelling variance formula would be seen)")

NAMES = ["XX_mean", "YY_mean", "XY_M2", "XY_emp_var", "XY_emp_dev", "Gxx_emp_dev", "Gxy_emp_dev"]
AUTO_KINDS = ["noise", "offset", "drift", "red", "tone", "zero", "const"]
CROSS_KINDS = ["indep", "mixed", "delayed", "strong", "scaled", "zero-y", "const-x"]
U = _an.U
LD = np.longdouble
LOCK_KINDS = ["locked-tone", "locked-wave", "line", "dc"]


def ref_stats(x: np.ndarray, y: Optional[np.ndarray], D, L: int, w: np.ndarray, om: float, order: int):
    """One bin from its own plan by the definition: direct windowed (detrended) DFT of every segment in extended precision.
    Returns (XX, YY, XY, M2, a, b) exactly as _an.ref_bin (same operations, segment values rounded to double: used by the budgets of a, e) and the
    scatter kept in EXTENDED precision throughout (two-pass: mean of the products first, then the mean squared deviation):
    ext = (mean as complex, M2, sqrt(M2), max |Z_k|)."""
    n = np.arange(L, dtype=LD)
    co, si = np.cos(LD(om) * n), np.sin(LD(om) * n)
    wl = w.astype(LD)
    Q = _an.poly_basis(L, order) if order >= 1 else None

    def dfts(z: np.ndarray):
        re, im, raw = np.zeros(len(D), dtype=LD), np.zeros(len(D), dtype=LD), 0.0
        for k, s in enumerate(D):
            v = z[s:s + L].astype(LD)
            if order == 0:
                v = v - v.mean()
            elif order >= 1:
                v = v - Q @ (Q.T @ v)
            raw = max(raw, float(np.abs(z[s:s + L] * w).sum()))
            v = v * wl
            re[k], im[k] = (v * co).sum(), -(v * si).sum()
        return re, im, raw
    xr, xi, a = dfts(x)
    Xs = np.array([complex(float(p), float(q)) for p, q in zip(xr, xi)])
    if y is None:
        yr, yi, b = xr, xi, a
        Z = np.abs(Xs) ** 2 + 0j
        YY = float(np.mean(np.abs(Xs) ** 2))
        zr, zi = xr * xr + xi * xi, np.zeros(len(D), dtype=LD)
    else:
        yr, yi, b = dfts(y)
        Ys = np.array([complex(float(p), float(q)) for p, q in zip(yr, yi)])
        Z = Xs * np.conj(Ys)
        YY = float(np.mean(np.abs(Ys) ** 2))
        zr, zi = xr * yr + xi * yi, xi * yr - xr * yi
    mu = Z.mean()
    M2 = float(np.mean(np.abs(Z - mu) ** 2)) if len(Z) >= 2 else 0.0
    mr, mi = zr.mean(), zi.mean()                                    # pass 1
    dr, di = zr - mr, zi - mi
    m2x = (dr * dr + di * di).mean() if len(D) >= 2 else LD(0)        # pass 2
    ext = (complex(float(mr), float(mi)), float(m2x), float(np.sqrt(m2x)), float(np.sqrt((zr * zr + zi * zi).max())))
    return float(np.mean(np.abs(Xs) ** 2)), YY, complex(mu), M2, a + 1e-300, b + 1e-300, ext


def tight_tol(K: int, tXY: float, ext) -> float:
    """Sound forward budget of the library's two-pass scatter against the extended-precision reference.
    Per segment the kernels deliver Z^_k = Z_k + e_k with |e_k| <= E_lib = tXY (the per-segment product budget of _an.bin_tol: a, b are suprema over
    the segments); the reference delivers Z~_k with |Z~_k - Z_k| <= E_ref <= tXY / 1024 (same operation count, unit roundoff 2^-64 instead of 2^-53,
    no recurrence growth). sqrt(M2) is the l2 norm of the centred vector / sqrt(K), a seminorm, so |s(Z^) - s(Z~)| <= E := E_lib + E_ref and
    |M2(Z^) - M2(Z~)| <= 2 E s~ + E^2. The two-pass reduction in floating point gives (M2(Z^) + |d|^2)(1 + th): d = rounding error of the mean,
    |d|^2 <= 2 (K u max|Z^|)^2 (the deviations from the exact mean sum to zero, so an error of the mean enters only squared), |th| <= 8 (K + 8) u
    (subtraction, two squares, one addition per term and a K-term mean; fused or reassociated evaluation included). Nothing here is proportional to
    |mean|^2 at first order in u — that is the point of the two-pass formula, and what a cancelling one-pass formula cannot meet."""
    mu, m2x, sx, zmax = ext
    E = tXY * (1.0 + 2.0 ** -10)
    d2 = 4.0 * (K * U * (zmax + E)) ** 2
    th = 8.0 * (K + 8) * U
    return 2.0 * E * sx + E * E + d2 + th * ((sx + E) ** 2 + d2)


def check_result(P: C.Part, res, x: np.ndarray, y: Optional[np.ndarray], fs: float, opts: Dict[str, Any], kind: str, src: str, rp: Dict[str, Any],
                 max_bins: int = 40) -> None:
    cross = y is not None
    order = int(opts["order"])
    wc = S.WinCache(opts)
    with warnings.catch_warnings(), np.errstate(all="ignore"):
        warnings.simplefilter("ignore")
        A = {n: getattr(res, n) for n in NAMES}
    nf = len(res.f)
    sig = {"src": src, "mode": "cross" if cross else "auto", "kind": kind, "order": order}
    label = f"{src} {'cross' if cross else 'auto'} {kind} order={order} sched={opts.get('scheduler')} win={opts.get('win')} backend={opts.get('backend')}"

    def bad(check: str, j: int, msg: str) -> None:
        S.add_violation(P, f"{label} bin {j} (f={float(res.f[j]):.6g}, L={int(res.L[j])}, K={len(res.D[j])}): {msg}", dict(sig, check=check),
                        dict(rp, check=check, bin=int(j)))
    # None table
    own, other = ("Gxy_emp_dev", "Gxx_emp_dev") if cross else ("Gxx_emp_dev", "Gxy_emp_dev")
    P.cases += 1
    if A[other] is not None:
        bad("none", 0, f"{other} must be None for {'a cross' if cross else 'an auto'}-spectrum")
    for n in NAMES:
        if n != other and A[n] is None:
            bad("none", 0, f"{n} is None")
            return
    idx = list(range(nf)) if nf <= max_bins else sorted(set(int(v) for v in np.linspace(0, nf - 1, max_bins)))
    nontriv = False
    for j in idx:
        L, D = int(res.L[j]), [int(d) for d in res.D[j]]
        K = len(D)
        w, _, s2 = wc.get(L)
        om = 2 * np.pi * float(res.f[j]) / fs
        XX, YY, XY, M2, a, b, ext = ref_stats(x, y, D, L, w, om, order)
        tXX, tYY, tXY, tM2 = _an.bin_tol(L, om, a, b, order)
        tT = tight_tol(K, tXY, ext)
        ev, ed, gd = float(A["XY_emp_var"][j]), float(A["XY_emp_dev"][j]), float(A[own][j])
        P.cases += 1
        P.hit("K=1" if K == 1 else ("K=2..4" if K <= 4 else "K>=5"))
        if not (math.isfinite(ev) and ev >= 0.0 and math.isfinite(ed) and ed >= 0.0 and math.isfinite(gd) and gd >= 0.0):      # b
            bad("nonneg", j, f"XY_emp_var = {ev!r}, XY_emp_dev = {ed!r}, {own} = {gd!r} must be finite and >= 0")
            continue
        if K == 1 and not (ev == 0.0 and ed == 0.0 and gd == 0.0):                                                              # b
            bad("single-segment", j, f"one segment but XY_emp_var = {ev!r}, XY_emp_dev = {ed!r}, {own} = {gd!r}")
        if not S.within("a:emp_var", abs(ev - M2 / K), tM2 / K):                                                                # a
            bad("emp-var", j, f"XY_emp_var = {ev!r} but population variance of the {K} segment products / K = {M2 / K!r} (tol {tM2 / K:.3g}; "
                              f"variance about zero would give {(M2 + abs(XY) ** 2) / K!r}, /(K-1) would give {M2 / max(K - 1, 1)!r})")
        if not S.within("c:sqrt", abs(ed - math.sqrt(ev)), 4 * U * math.sqrt(ev)):                                              # c
            bad("emp-dev-sqrt", j, f"XY_emp_dev = {ed!r} but sqrt(XY_emp_var) = {math.sqrt(ev)!r}")
        scale = 2.0 / (fs * s2) if s2 > 0 else 0.0
        if not S.within("d:scale", abs(gd - scale * ed), 1e-9 * scale * ed):                                                    # d
            bad("spectral-units", j, f"{own} = {gd!r} but 2/(fs*sum w^2) * XY_emp_dev = {scale * ed!r} (fs={fs!r}, sum w^2={s2!r})")
        if not S.within("e:XX_mean", abs(float(A["XX_mean"][j]) - XX), tXX):                                                    # e
            bad("raw-XX", j, f"XX_mean = {float(A['XX_mean'][j])!r} but mean |X_k|^2 = {XX!r} (tol {tXX:.3g})")
        if not S.within("e:YY_mean", abs(float(A["YY_mean"][j]) - YY), tYY):
            bad("raw-YY", j, f"YY_mean = {float(A['YY_mean'][j])!r} but mean |Y_k|^2 = {YY!r} (tol {tYY:.3g})")
        if not S.within("e:XY_M2", abs(float(A["XY_M2"][j]) - M2), tM2):
            bad("raw-M2", j, f"XY_M2 = {float(A['XY_M2'][j])!r} but population variance of the segment products = {M2!r} (tol {tM2:.3g})")
        # t: the scatter against the extended-precision two-pass reference, budget proportional to the scatter (see tight_tol)
        m2l = float(A["XY_M2"][j])
        if not S.within("t:XY_M2", abs(m2l - ext[1]), tT):
            bad("tight-M2", j, f"XY_M2 = {m2l!r} but the two-pass population variance of the {K} segment products (extended precision) = {ext[1]!r} "
                               f"(tol {tT:.3g} = 2 E s + E^2 + reduction, E = {tXY:.3g}, s = {ext[2]:.3g}; |mean|^2 = {abs(ext[0]) ** 2:.6g}, "
                               f"u |mean|^2 = {U * abs(ext[0]) ** 2:.3g})")
        elif not S.within("t:emp_var", abs(ev - ext[1] / K), tT / K + 4 * U * ev):
            bad("tight-emp-var", j, f"XY_emp_var = {ev!r} but two-pass population variance / K (extended precision) = {ext[1] / K!r} "
                                    f"(tol {tT / K + 4 * U * ev:.3g}; |mean|^2 / K = {abs(ext[0]) ** 2 / K:.6g})")
        if K >= 2 and tT < 0.25 * U * abs(ext[0]) ** 2:                # an error of u |mean|^2 / 4 in the scatter would be seen here
            P.hit("tight:detectable")
            P.hit("tight:" + ("identical-segments" if ext[1] == 0.0 else "near-identical"))
            P.nontrivial.add(("tight", src, "cross" if cross else "auto", order, str(opts.get("backend")), ext[1] == 0.0))
        if K >= 2 and M2 > 100 * tM2:
            nontriv = True
    if nontriv:
        P.nontrivial.add((src, "cross" if cross else "auto", kind, order, str(opts.get("scheduler")), str(opts.get("backend"))))
    P.hit(f"{src}:{'cross' if cross else 'auto'}:{kind}")
    P.hit(f"backend={opts.get('backend')}")


def run_case(P: C.Part, x, y, fs, opts, kind: str, single, max_bins: int = 40) -> None:
    rp = S.case_replay(x, y, fs, opts, "2xN", "compute_spectrum", single, kind)
    data = np.asarray(x) if y is None else S.stack(x, y, "2xN")
    try:
        res = S.single_bin(data, fs, single["freq"], single["L"], opts) if single else S.spectrum(data, fs, opts)
    except Exception as ex:
        P.hit("rejected:" + type(ex).__name__)
        return
    check_result(P, res, np.asarray(x, dtype=float), None if y is None else np.asarray(y, dtype=float), fs, opts, kind,
                 "single_bin" if single else "compute_spectrum", rp, max_bins)


# ---------------------------------------------------------------- near-identical-segment records
def _periodic(rng: np.random.Generator, N: int, P: int, m: int, kind: str, amp: float, eps: float) -> np.ndarray:
    """amp * (waveform of period P samples: a line with m cycles per period [+ harmonics and an offset for 'locked-wave']) + amp * eps * white noise.
    The waveform is tabulated over ONE period and indexed by n mod P, so that segments whose starts differ by multiples of P are bit-identical
    when eps = 0."""
    k = np.arange(P)
    tab = np.sin(2 * np.pi * m * k / P + float(rng.uniform(0, 2 * np.pi)))
    if kind == "locked-wave":
        tab = tab + float(rng.uniform(-1, 1)) + 0.3 * float(rng.uniform(0, 1)) * rng.standard_normal(P)
    x = amp * tab[np.arange(N) % P]
    if eps > 0:
        x = x + amp * eps * rng.standard_normal(N)
    return x


def locked_case(rng: np.random.Generator, i: int, thorough: bool):
    """Case i of the near-identical-segment stream -> (x, y, fs, opts, kind, single).
    cross = i % 2, backend numba / numpy = (i // 2) % 2, order cycles -1, 0, 1 (every 5th round of 12 cases: 2), entry alternates single_bin / compute_spectrum,
    relative noise floor eps: 0 (every 5th case) or log-uniform in 1e-9 .. 1e-5 (the second channel of a pair gets its own, independent floor)."""
    cross = i % 2 == 1
    backend = ["numba", "numpy"][(i // 2) % 2]
    order = [-1, 0, 1][(i // 4) % 3] if (i // 12) % 5 != 4 else 2
    single_entry = (i // 12) % 2 == 0
    kind = LOCK_KINDS[(i + i // 4 + i // 12) % 4]
    if kind == "dc" and order != -1:
        kind = "locked-tone"
    eps = 0.0 if i % 5 == 0 else float(10 ** rng.uniform(-9, -5))
    if kind == "dc":                                        # DC is seen through a side lobe only: a lower floor keeps the scatter/mean small
        eps *= 1e-2
    eps2 = eps * float(10 ** rng.uniform(-1, 1))
    amp, amp2 = float(10 ** rng.uniform(-3, 3)), float(10 ** rng.uniform(-3, 3))
    fs = float(rng.choice([1.0, 2.0, 1000.0, float(rng.uniform(0.1, 1e4))]))
    win, psll = [("hann", None), ("kaiser", 60.0), ("kaiser", 200.0), ("kaiser", 150.0)][(i // 3) % 4]
    if kind == "line":
        win, psll = "kaiser", float(rng.choice([150.0, 200.0, 250.0]))
    opts: Dict[str, Any] = {"order": order, "win": win, "backend": backend}
    if psll is not None:
        opts["psll"] = psll
    if single_entry:
        P = int(rng.choice([3, 4, 5, 6, 8, 10, 12, 16, 20]))
        q = int(rng.integers(1, max(2, (400 if thorough else 260) // (4 * P)) + 1)) if kind != "dc" else 1
        L = 4 * P * q
        olap = float(rng.choice([0.0, 0.5, 0.75]))
        h = int(round(L * (1 - olap)))                       # a multiple of P
        K = int(rng.choice([2, 3, 4, int(rng.integers(5, 40))]))
        N = L + (K - 1) * h
        if kind == "line":                                  # not commensurate: one more sample, fractional shifts
            N += int(rng.integers(1, h))
        opts["olap"] = olap
        m = int(rng.integers(1, (P - 1) // 2 + 1))
        nu = m / P
        if kind == "dc":
            nu = float(rng.uniform(0.6, 2.5)) / L           # DC seen through the main lobe / first side lobes
        elif rng.random() < 0.4:
            nu += float(rng.uniform(-0.6, 0.6)) / L         # analysed slightly off the line
        single = {"freq": nu * fs, "L": L}
    else:
        N = int(rng.choice([300, 600, 1000] if not thorough else [300, 600, 1000, 1500, 2500]))
        opts.update({"olap": float(rng.choice([0.0, 0.5, 0.75])), "Jdes": int(rng.integers(4, 13)), "Kdes": int(rng.choice([2, 5, 20])),
                     "bmin": float(rng.choice([1.0, 2.0, 3.5])), "Lmin": int(rng.choice([1, 8, 16])), "scheduler": _an.SCHEDS[(i // 24 + i) % 4]})
        single = None
        P, m = 4, 1
        try:                                                # the plan depends on (N, fs, options) only: read it off a dry run
            plan = S.spectrum(np.zeros(N) if not cross else np.zeros((2, N)), fs, opts)
            cand = []
            for j in range(len(plan.f)):
                D = np.asarray(plan.D[j], dtype=np.int64)
                if len(D) >= 2:
                    hg = int(np.gcd.reduce(np.diff(D)))
                    Lj, fj = int(plan.L[j]), float(plan.f[j]) / fs
                    sn = max(abs(math.sin(2 * np.pi * fj)), 1e-300)
                    cand.append(((Lj + 4) * min(Lj + 1.0, 1.0 / sn) * (1 if hg >= 3 else 1e6), hg, fj, Lj))
            if cand:
                cand.sort()
                _, hg, fj, Lj = cand[int(rng.integers(0, min(3, len(cand))))]
                if hg >= 3:                                 # the line's period divides the hop of this bin
                    P, m = hg, int(min(max(1, round(fj * hg)), (hg - 1) // 2))
                    kind = "locked-tone" if kind == "line" else kind
                else:                                       # no bin with a usable common hop: a line at the bin frequency itself
                    P, m = 0, 0
                    nu_line = fj
                    kind = "line" if kind != "dc" else kind
        except Exception:
            pass
    if kind == "dc":
        c = float(rng.choice([-1.0, 1.0]))
        x = amp * c * (1.0 + eps * rng.standard_normal(N)) if eps > 0 else np.full(N, amp * c)
        y = (amp2 * (1.0 + eps2 * rng.standard_normal(N)) if eps2 > 0 else np.full(N, amp2)) if cross else None
    elif single_entry and kind == "line":
        t = np.arange(N)
        x = amp * (np.sin(2 * np.pi * nu * t + float(rng.uniform(0, 6))) + eps * rng.standard_normal(N))
        y = amp2 * (np.sin(2 * np.pi * nu * t + float(rng.uniform(0, 6))) + eps2 * rng.standard_normal(N)) if cross else None
    elif not single_entry and P == 0:
        t = np.arange(N)
        x = amp * (np.sin(2 * np.pi * nu_line * t + float(rng.uniform(0, 6))) + eps * rng.standard_normal(N))
        y = amp2 * (np.sin(2 * np.pi * nu_line * t + float(rng.uniform(0, 6))) + eps2 * rng.standard_normal(N)) if cross else None
    else:
        x = _periodic(rng, N, P, m, kind, amp, eps)
        y = _periodic(rng, N, P, m, kind, amp2, eps2) if cross else None
    return x, y, fs, opts, kind, single


def probe(ctx, P: C.Part) -> None:
    """support run (sub-claim s): white Gaussian records, non-overlapping Hann segments: empirical / analytic deviation"""
    rng = ctx.rng
    L, fs, R = 64, 1.0, 120
    freq = fs * 8 / L
    rows = []
    for nd in (16, 64, 256):
        if ctx.time_left() < 60:
            return
        ra, rc = [], []
        for _ in range(R):
            x, y = rng.standard_normal(nd * L), rng.standard_normal(nd * L)
            y = 0.8 * x + y
            o = {"order": 0, "win": "hann", "olap": 0.0}
            r1 = S.single_bin(x, fs, freq, L, o)
            r2 = S.single_bin(np.vstack([x, y]), fs, freq, L, o)
            if int(r1.navg[0]) != nd:
                P.notes.append(f"probe: expected {nd} non-overlapping segments, analyzer used {int(r1.navg[0])}; probe skipped")
                return
            ra.append(float(r1.Gxx_emp_dev[0]) / float(r1.Gxx_dev[0]))
            rc.append(float(r2.Gxy_emp_dev[0]) / float(r2.Gxy_dev[0]))
        P.cases += 2 * R
        ma, mc = float(np.median(ra)), float(np.median(rc))
        rows.append((nd, ma, mc, float(np.min(ra)), float(np.max(ra)), float(np.min(rc)), float(np.max(rc))))
        for nm, q in (("Gxx_emp_dev/Gxx_dev", ma), ("Gxy_emp_dev/Gxy_dev", mc)):
            if not (1 / 3 <= q <= 3):
                S.add_violation(P, f"white Gaussian records, {nd} independent segments, {R} realisations: median {nm} = {q:.3g}, outside [1/3, 3]",
                                {"src": "probe", "check": "emp-vs-analytic", "name": nm}, {"probe": True, "nd": nd})
    P.notes.append("support probe (not decided by theorem) empirical/analytic deviation, median [min..max] over realisations: " +
                   "; ".join(f"n={nd}: auto {ma:.2f} [{a0:.2f}..{a1:.2f}] cross {mc:.2f} [{c0:.2f}..{c1:.2f}]" for nd, ma, mc, a0, a1, c0, c1 in rows) +
                   "  (band for remark 0.5..2 on the median, alarm only outside 1/3..3)")


# ---------------------------------------------------------------- entry points
def correspondence(ctx) -> C.Part:
    """(a) generated Lean attribute table vs the real __getattr__ for the C11 names; (b) generated reducer (Float) vs _reduce_stats_nb / _reduce_stats"""
    P = C.Part()
    _an.attr_correspondence(ctx, P, NAMES, ctx.scale(40, 400))
    from speckit import core
    rng = ctx.rng
    for i in range(ctx.scale(60, 600)):
        K = int([1, 2, 3, int(rng.integers(4, 40)), int(rng.integers(2, 9))][i % 5])
        sc = float(10 ** rng.uniform(-6, 6))
        off = float(rng.choice([0.0, 1.0, 100.0]))
        xx, yy = sc * rng.uniform(0, 1, K), sc * rng.uniform(0, 1, K)
        xyr, xyi = sc * (off + rng.standard_normal(K)), sc * (rng.standard_normal(K) - off)
        mdl = ctx.driver.floats(" ".join(["reduce", C.arr(xx), C.arr(yy), C.arr(xyr), C.arr(xyi)]))
        m = float(max(np.abs(xx).max(), np.abs(yy).max(), np.abs(xyr).max(), np.abs(xyi).max()))
        tol = [16 * (K + 4) * U * m] * 4 + [64 * (K + 4) * U * 4 * m * m]
        for fn in ("_reduce_stats_nb", "_reduce_stats"):
            imp = [float(v) for v in getattr(core, fn)(xx, yy, xyr, xyi)]
            P.cases += 1
            P.hit(fn)
            if K >= 2:
                P.nontrivial.add(("reduce", fn, K, off))
            badc = [k for k in range(5) if not abs(imp[k] - mdl[k]) <= tol[k]]
            if len(mdl) != 5 or badc:
                P.disagreements.append({"op": "reduce", "fn": fn, "components": badc, "impl": imp, "model": mdl, "tol": tol,
                                        "xx": xx.tolist(), "yy": yy.tolist(), "xyr": xyr.tolist(), "xyi": xyi.tolist()})
    return P


def oracle(ctx, intensive: bool = False, hints: List[Dict[str, Any]] = ()) -> C.Part:
    P = C.Part()
    S.quiet()
    S.MARGIN.clear()
    rng = ctx.rng
    # corpus: fixed records, every order, both modes, both backends (scatter about the mean vs about zero; K = 1 bins; offsets)
    r0 = np.random.default_rng(11)
    x0 = r0.standard_normal(600) + 3.0
    y0 = 0.7 * np.roll(x0, 3) + 0.3 * r0.standard_normal(600)
    for k, order in enumerate(S.ORDERS):
        o = {"order": order, "olap": 0.5, "Jdes": 12, "Kdes": 5, "scheduler": _an.SCHEDS[k], "win": "hann" if k % 2 else "kaiser", "backend": "numpy" if k % 2 else "auto"}
        if o["win"] == "kaiser":
            o["psll"] = 80.0
        run_case(P, x0, None, 2.0, o, "offset", None)
        run_case(P, x0, y0, 2.0, o, "delayed", None)
    # corpus (seeded defect C11c: one-pass variance in the Numba reducer): a calibration line whose period divides the segment hop, noise floor
    # 140 dB below it, and the same line without any noise (identical segments) -- every order, auto and cross, both backends
    r1 = np.random.default_rng(1111)
    tt = np.arange(2100)
    lx, ly = np.sin(2 * np.pi * 50.0 * tt / 1000.0), 0.5 * np.sin(2 * np.pi * 50.0 * tt / 1000.0 + 0.3)
    nx, ny = r1.standard_normal(2100), r1.standard_normal(2100)
    for k, order in enumerate((-1, 0, 1)):
        for be in ("numba", "numpy"):
            o = {"order": order, "olap": 0.5, "win": "hann", "backend": be}
            for e in (1e-7, 0.0):
                run_case(P, lx + e * nx, None, 1000.0, o, "locked-tone", {"freq": 50.0, "L": 200})
                run_case(P, lx + e * nx, ly + e * ny, 1000.0, o, "locked-tone", {"freq": 50.0, "L": 200})
    # near-identical-segment stream (sub-claim t is evaluated on every case of the oracle; this stream makes it sharp)
    n_lock = ctx.scale(60, 480) * (4 if intensive else 1)
    for i in range(n_lock):
        if ctx.time_left() < (600 if ctx.thorough else 25) or len(P.violations) >= S.MAX_VIOL:
            break
        x, y, fs, opts, kind, single = locked_case(rng, i, ctx.thorough)
        run_case(P, x, y, fs, opts, kind, single, max_bins=40)
        if i < 2:
            P.sample({"op": "oracle-locked", "mode": "cross" if y is not None else "auto", "kind": kind, "N": len(x), "fs": fs, "opts": opts, "single": single})
    # chunked reduction of the NumPy kernels (they process the segments of a bin in chunks of 32768 / 16384 / 8192): bins with MORE segments than
    # one chunk, on records whose level changes along the record, so that a scatter taken about a per-chunk or running mean differs from the
    # scatter about the bin's mean (seeded defect C11d). Short segments keep the reference evaluation cheap.
    n_chunk = ctx.scale(4, 12) * (2 if intensive else 1)
    for i in range(n_chunk):
        if ctx.time_left() < (600 if ctx.thorough else 60) or len(P.violations) >= S.MAX_VIOL:
            break
        order = (0, -1, 1, 2)[i % 4]
        cross = bool((i // 4) % 2) if i >= 4 else False
        L = int(rng.integers(3, 7))
        K_min = {0: 32768, -1: 32768, 1: 16384 if not cross else 8192, 2: 16384 if not cross else 8192}[order]
        N = int((K_min + int(rng.integers(200, 3000))) * (L - L // 2) + L)          # hop L - L//2 at olap 0.5  =>  K > one chunk
        g = np.ones(N)
        g[int(N * float(rng.uniform(0.55, 0.85))):] = float(rng.uniform(2.0, 4.0))   # level step
        x = g * rng.standard_normal(N) + 0.5
        y = (0.6 * np.roll(x, 1) + g * rng.standard_normal(N)) if cross else None
        opts = {"order": order, "olap": 0.5, "win": "hann", "backend": "numpy"}
        run_case(P, x, y, 1.0, opts, "level-step/many-segments", {"freq": float(rng.uniform(0.05, 0.45)), "L": L}, max_bins=1)
        P.hit(f"chunked:order{order}:{'cross' if cross else 'auto'}")
    det = sorted(k[1:] for k in P.nontrivial if k[0] == "tight")
    P.notes.append(f"near-identical-segment region: {P.histogram.get('tight:detectable', 0)} bins so far where an error of "
                   f"u*|mean|^2/4 in the scatter would be seen; distinct (entry, mode, order, backend, exactly-identical): {len(det)}")
    n = ctx.scale(210, 2800) * (4 if intensive else 1)
    sizes = [8, 64, 200, 257, 600, 1000] if not ctx.thorough else [8, 16, 64, 100, 257, 600, 1000, 2048, 4000]
    for i in range(n):
        if ctx.time_left() < (600 if ctx.thorough else 25) or len(P.violations) >= S.MAX_VIOL:
            P.notes.append("time budget reached" if len(P.violations) < S.MAX_VIOL else "violation cap reached")
            break
        cross = i % 2 == 1
        N = int(rng.choice(sizes))
        fs = float(rng.choice([1.0, 2.0, 1000.0, float(rng.uniform(0.1, 1e4))]))
        rot = 9 * (i // 14) + (i // 2) % 7          # every (kind, order, scheduler) combination comes round
        opts = S.cyc_options(rng, N, rot)
        opts["backend"] = "numpy" if (i // 2) % 3 == 1 else "numba"
        opts["Jdes"] = min(int(opts["Jdes"]), 16)
        if cross:
            kind = CROSS_KINDS[(i // 2) % len(CROSS_KINDS)]
            x, y = S.pair(rng, N, kind)
        else:
            kind = AUTO_KINDS[(i // 2) % len(AUTO_KINDS)]
            x, y = _an.record(rng, N, kind), None
        run_case(P, x, y, fs, opts, kind, None, max_bins=16 if not ctx.thorough else 40)
        if rng.random() < 0.5:
            L = int(rng.choice([N, max(2, N // 2), int(rng.integers(2, N + 1)), int(rng.integers(2, max(3, N // 8)))]))
            run_case(P, x, y, fs, opts, kind, {"freq": float(rng.uniform(0.0, 0.5) * fs), "L": L})
        if i < 2:
            P.sample({"op": "oracle", "mode": "cross" if cross else "auto", "kind": kind, "N": N, "fs": fs, "opts": opts})
    if ctx.thorough and len(P.violations) == 0:
        probe(ctx, P)
    P.notes.append(S.margins_note("C11"))
    return P


def replay(ctx, data) -> C.Part:
    P = C.Part()
    S.quiet()
    for v in data.get("violations", []):
        rp = v["replay"]
        if rp.get("probe"):
            probe(ctx, P)
        else:
            y = None if rp.get("y") is None else np.array(rp["y"], dtype=float)
            run_case(P, np.array(rp["x"], dtype=float), y, float(rp["fs"]), rp["opts"], rp["kind"], rp["single"])
    return P
