"""C11 — empirical error estimates are the segment scatter in spectral units.

Sub-claims evaluated on the REAL analyzer (auto and cross, all orders, schedulers, numba and numpy backends, K from 1 to many):
  a  XY_emp_var = population variance (about the MEAN) of the per-segment cross-products Z_k = X_k conj(Y_k) (auto: |X_k|^2) divided by the
     number of segments K; the Z_k are recomputed here from the result's own plan by a direct windowed DFT in extended precision
  b  XY_emp_var = 0 when there is a single segment; never negative (zero / constant records included)
  c  XY_emp_dev = sqrt(XY_emp_var)
  d  Gxx_emp_dev (auto) / Gxy_emp_dev (cross) = 2/(fs * sum w^2) * XY_emp_dev, and None for the other mode
  e  XX_mean, YY_mean, XY_M2 expose the raw statistics (segment means of |X_k|^2, |Y_k|^2 and the population variance of Z_k)
  s  (thorough tier, support only, never decided by theorem) for white Gaussian records with independent segments the empirical deviations
     agree with the analytic ones: ratios recorded in the notes, a violation only for a gross (> factor 3) mismatch.
"""
from __future__ import annotations

import math
import warnings
from typing import Any, Dict, List, Optional

import numpy as np

from .. import common as C
from . import _an
from . import C09 as S

PROP = "C11"
GEN_REGIONS = ["Attrs", "CoreKernels"]
THEOREMS = {
    "SpecKitV.Props.AttrsB": ["emp_var_formula", "emp_var_nonneg", "emp_var_zero_of_M2_zero", "emp_dev_is_sqrt", "Gxx_emp_dev_formula",
                              "Gxy_emp_dev_formula", "emp_dev_is_scaled_emp", "raw_stats"],
    "SpecKitV.Props.C01": ["reduce_spec", "reduce_M2_all_K", "reduce_M2_nonneg", "reduce_M2_one"],
}
CONTRACTS = ["the M2 handed to SpectrumResult is the reducer's output for the per-segment products of the kernels (C01: every kernel = Ref, reducer = "
             "mean / population variance about the mean); NumPy fallbacks are tied to the same reference by C01's correspondence"]
ASSUMPTIONS = ["theorems are over the reals for the Lean translation of SpectrumResult.__getattr__ and of _reduce_stats_nb; rounding is covered by the "
               "forward budget _an.bin_tol (Goertzel growth L*min(L, 1/|sin w|), scaled by (sup_k sum|x w|)^2 ... never by a quantity that can vanish)",
               "CUDA backend: covered by the kernel theorems of C01 (CUDA = Ref) and the attribute theorems; the oracle runs numba and numpy only",
               "NOT decided by theorem (DESIGN §5, C11 'N'): 'for Gaussian noise with independent segments the empirical deviations agree with the analytic "
               "deviations' is distributional; it is only supported by a thorough-tier probe whose numbers are recorded in the evidence notes and which "
               "alarms only on a gross (> factor 3) mismatch (measured on the unchanged tree: median ratios 0.87 .. 1.00 over 4 runs)"]
RULE = ("cases = (auto record kind noise/offset/drift/red/tone/zero/const | pair kind, N, fs, order -1..2, scheduler (4), window, backend numba/numpy, "
        "entry compute_spectrum | compute_single_bin with L incl. L = N); every bin is re-evaluated from its own (f, L, D); distinct by (mode, kind, order, "
        "scheduler, backend, entry); non-trivial = a bin with K >= 2 and a scatter above its rounding budget")

NAMES = ["XX_mean", "YY_mean", "XY_M2", "XY_emp_var", "XY_emp_dev", "Gxx_emp_dev", "Gxy_emp_dev"]
AUTO_KINDS = ["noise", "offset", "drift", "red", "tone", "zero", "const"]
CROSS_KINDS = ["indep", "mixed", "delayed", "strong", "scaled", "zero-y", "const-x"]
U = _an.U


def check_result(P: C.Part, res, x: np.ndarray, y: Optional[np.ndarray], fs: float, opts: Dict[str, Any], kind: str, src: str, rp: Dict[str, Any],
                 max_bins: int = 40) -> None:
    cross = y is not None
    order = int(opts["order"])
    wc = S.WinCache(opts)
    with warnings.catch_warnings(), np.errstate(all="ignore"):
        warnings.simplefilter("ignore")
        A = {n: getattr(res, n) for n in NAMES}
    nf = len(res.f)
    sig = {"src": src, "mode": "cross" if cross else "auto", "kind": kind, "order": order}
    label = f"{src} {'cross' if cross else 'auto'} {kind} order={order} sched={opts.get('scheduler')} win={opts.get('win')} backend={opts.get('backend')}"

    def bad(check: str, j: int, msg: str) -> None:
        S.add_violation(P, f"{label} bin {j} (f={float(res.f[j]):.6g}, L={int(res.L[j])}, K={len(res.D[j])}): {msg}", dict(sig, check=check),
                        dict(rp, check=check, bin=int(j)))
    # None table
    own, other = ("Gxy_emp_dev", "Gxx_emp_dev") if cross else ("Gxx_emp_dev", "Gxy_emp_dev")
    P.cases += 1
    if A[other] is not None:
        bad("none", 0, f"{other} must be None for {'a cross' if cross else 'an auto'}-spectrum")
    for n in NAMES:
        if n != other and A[n] is None:
            bad("none", 0, f"{n} is None")
            return
    idx = list(range(nf)) if nf <= max_bins else sorted(set(int(v) for v in np.linspace(0, nf - 1, max_bins)))
    nontriv = False
    for j in idx:
        L, D = int(res.L[j]), [int(d) for d in res.D[j]]
        K = len(D)
        w, _, s2 = wc.get(L)
        om = 2 * np.pi * float(res.f[j]) / fs
        XX, YY, XY, M2, a, b = _an.ref_bin(x, y, D, L, w, om, order)
        tXX, tYY, tXY, tM2 = _an.bin_tol(L, om, a, b, order)
        ev, ed, gd = float(A["XY_emp_var"][j]), float(A["XY_emp_dev"][j]), float(A[own][j])
        P.cases += 1
        P.hit("K=1" if K == 1 else ("K=2..4" if K <= 4 else "K>=5"))
        if not (math.isfinite(ev) and ev >= 0.0 and math.isfinite(ed) and ed >= 0.0 and math.isfinite(gd) and gd >= 0.0):      # b
            bad("nonneg", j, f"XY_emp_var = {ev!r}, XY_emp_dev = {ed!r}, {own} = {gd!r} must be finite and >= 0")
            continue
        if K == 1 and not (ev == 0.0 and ed == 0.0 and gd == 0.0):                                                              # b
            bad("single-segment", j, f"one segment but XY_emp_var = {ev!r}, XY_emp_dev = {ed!r}, {own} = {gd!r}")
        if not S.within("a:emp_var", abs(ev - M2 / K), tM2 / K):                                                                # a
            bad("emp-var", j, f"XY_emp_var = {ev!r} but population variance of the {K} segment products / K = {M2 / K!r} (tol {tM2 / K:.3g}; "
                              f"variance about zero would give {(M2 + abs(XY) ** 2) / K!r}, /(K-1) would give {M2 / max(K - 1, 1)!r})")
        if not S.within("c:sqrt", abs(ed - math.sqrt(ev)), 4 * U * math.sqrt(ev)):                                              # c
            bad("emp-dev-sqrt", j, f"XY_emp_dev = {ed!r} but sqrt(XY_emp_var) = {math.sqrt(ev)!r}")
        scale = 2.0 / (fs * s2) if s2 > 0 else 0.0
        if not S.within("d:scale", abs(gd - scale * ed), 1e-9 * scale * ed):                                                    # d
            bad("spectral-units", j, f"{own} = {gd!r} but 2/(fs*sum w^2) * XY_emp_dev = {scale * ed!r} (fs={fs!r}, sum w^2={s2!r})")
        if not S.within("e:XX_mean", abs(float(A["XX_mean"][j]) - XX), tXX):                                                    # e
            bad("raw-XX", j, f"XX_mean = {float(A['XX_mean'][j])!r} but mean |X_k|^2 = {XX!r} (tol {tXX:.3g})")
        if not S.within("e:YY_mean", abs(float(A["YY_mean"][j]) - YY), tYY):
            bad("raw-YY", j, f"YY_mean = {float(A['YY_mean'][j])!r} but mean |Y_k|^2 = {YY!r} (tol {tYY:.3g})")
        if not S.within("e:XY_M2", abs(float(A["XY_M2"][j]) - M2), tM2):
            bad("raw-M2", j, f"XY_M2 = {float(A['XY_M2'][j])!r} but population variance of the segment products = {M2!r} (tol {tM2:.3g})")
        if K >= 2 and M2 > 100 * tM2:
            nontriv = True
    if nontriv:
        P.nontrivial.add((src, "cross" if cross else "auto", kind, order, str(opts.get("scheduler")), str(opts.get("backend"))))
    P.hit(f"{src}:{'cross' if cross else 'auto'}:{kind}")
    P.hit(f"backend={opts.get('backend')}")


def run_case(P: C.Part, x, y, fs, opts, kind: str, single, max_bins: int = 40) -> None:
    rp = S.case_replay(x, y, fs, opts, "2xN", "compute_spectrum", single, kind)
    data = np.asarray(x) if y is None else S.stack(x, y, "2xN")
    try:
        res = S.single_bin(data, fs, single["freq"], single["L"], opts) if single else S.spectrum(data, fs, opts)
    except Exception as ex:
        P.hit("rejected:" + type(ex).__name__)
        return
    check_result(P, res, np.asarray(x, dtype=float), None if y is None else np.asarray(y, dtype=float), fs, opts, kind,
                 "single_bin" if single else "compute_spectrum", rp, max_bins)


def probe(ctx, P: C.Part) -> None:
    """support run (sub-claim s): white Gaussian records, non-overlapping Hann segments: empirical / analytic deviation"""
    rng = ctx.rng
    L, fs, R = 64, 1.0, 120
    freq = fs * 8 / L
    rows = []
    for nd in (16, 64, 256):
        if ctx.time_left() < 60:
            return
        ra, rc = [], []
        for _ in range(R):
            x, y = rng.standard_normal(nd * L), rng.standard_normal(nd * L)
            y = 0.8 * x + y
            o = {"order": 0, "win": "hann", "olap": 0.0}
            r1 = S.single_bin(x, fs, freq, L, o)
            r2 = S.single_bin(np.vstack([x, y]), fs, freq, L, o)
            if int(r1.navg[0]) != nd:
                P.notes.append(f"probe: expected {nd} non-overlapping segments, analyzer used {int(r1.navg[0])}; probe skipped")
                return
            ra.append(float(r1.Gxx_emp_dev[0]) / float(r1.Gxx_dev[0]))
            rc.append(float(r2.Gxy_emp_dev[0]) / float(r2.Gxy_dev[0]))
        P.cases += 2 * R
        ma, mc = float(np.median(ra)), float(np.median(rc))
        rows.append((nd, ma, mc, float(np.min(ra)), float(np.max(ra)), float(np.min(rc)), float(np.max(rc))))
        for nm, q in (("Gxx_emp_dev/Gxx_dev", ma), ("Gxy_emp_dev/Gxy_dev", mc)):
            if not (1 / 3 <= q <= 3):
                S.add_violation(P, f"white Gaussian records, {nd} independent segments, {R} realisations: median {nm} = {q:.3g}, outside [1/3, 3]",
                                {"src": "probe", "check": "emp-vs-analytic", "name": nm}, {"probe": True, "nd": nd})
    P.notes.append("support probe (not decided by theorem) empirical/analytic deviation, median [min..max] over realisations: " +
                   "; ".join(f"n={nd}: auto {ma:.2f} [{a0:.2f}..{a1:.2f}] cross {mc:.2f} [{c0:.2f}..{c1:.2f}]" for nd, ma, mc, a0, a1, c0, c1 in rows) +
                   "  (band for remark 0.5..2 on the median, alarm only outside 1/3..3)")


# ---------------------------------------------------------------- entry points
def correspondence(ctx) -> C.Part:
    """(a) generated Lean attribute table vs the real __getattr__ for the C11 names; (b) generated reducer (Float) vs _reduce_stats_nb / _reduce_stats"""
    P = C.Part()
    _an.attr_correspondence(ctx, P, NAMES, ctx.scale(40, 400))
    from speckit import core
    rng = ctx.rng
    for i in range(ctx.scale(60, 600)):
        K = int([1, 2, 3, int(rng.integers(4, 40)), int(rng.integers(2, 9))][i % 5])
        sc = float(10 ** rng.uniform(-6, 6))
        off = float(rng.choice([0.0, 1.0, 100.0]))
        xx, yy = sc * rng.uniform(0, 1, K), sc * rng.uniform(0, 1, K)
        xyr, xyi = sc * (off + rng.standard_normal(K)), sc * (rng.standard_normal(K) - off)
        mdl = ctx.driver.floats(" ".join(["reduce", C.arr(xx), C.arr(yy), C.arr(xyr), C.arr(xyi)]))
        m = float(max(np.abs(xx).max(), np.abs(yy).max(), np.abs(xyr).max(), np.abs(xyi).max()))
        tol = [16 * (K + 4) * U * m] * 4 + [64 * (K + 4) * U * 4 * m * m]
        for fn in ("_reduce_stats_nb", "_reduce_stats"):
            imp = [float(v) for v in getattr(core, fn)(xx, yy, xyr, xyi)]
            P.cases += 1
            P.hit(fn)
            if K >= 2:
                P.nontrivial.add(("reduce", fn, K, off))
            badc = [k for k in range(5) if not abs(imp[k] - mdl[k]) <= tol[k]]
            if len(mdl) != 5 or badc:
                P.disagreements.append({"op": "reduce", "fn": fn, "components": badc, "impl": imp, "model": mdl, "tol": tol,
                                        "xx": xx.tolist(), "yy": yy.tolist(), "xyr": xyr.tolist(), "xyi": xyi.tolist()})
    return P


def oracle(ctx, intensive: bool = False, hints: List[Dict[str, Any]] = ()) -> C.Part:
    P = C.Part()
    S.quiet()
    S.MARGIN.clear()
    rng = ctx.rng
    # corpus: fixed records, every order, both modes, both backends (scatter about the mean vs about zero; K = 1 bins; offsets)
    r0 = np.random.default_rng(11)
    x0 = r0.standard_normal(600) + 3.0
    y0 = 0.7 * np.roll(x0, 3) + 0.3 * r0.standard_normal(600)
    for k, order in enumerate(S.ORDERS):
        o = {"order": order, "olap": 0.5, "Jdes": 12, "Kdes": 5, "scheduler": _an.SCHEDS[k], "win": "hann" if k % 2 else "kaiser", "backend": "numpy" if k % 2 else "auto"}
        if o["win"] == "kaiser":
            o["psll"] = 80.0
        run_case(P, x0, None, 2.0, o, "offset", None)
        run_case(P, x0, y0, 2.0, o, "delayed", None)
    n = ctx.scale(210, 2800) * (4 if intensive else 1)
    sizes = [8, 64, 200, 257, 600, 1000] if not ctx.thorough else [8, 16, 64, 100, 257, 600, 1000, 2048, 4000]
    for i in range(n):
        if ctx.time_left() < (600 if ctx.thorough else 25) or len(P.violations) >= S.MAX_VIOL:
            P.notes.append("time budget reached" if len(P.violations) < S.MAX_VIOL else "violation cap reached")
            break
        cross = i % 2 == 1
        N = int(rng.choice(sizes))
        fs = float(rng.choice([1.0, 2.0, 1000.0, float(rng.uniform(0.1, 1e4))]))
        rot = 9 * (i // 14) + (i // 2) % 7          # every (kind, order, scheduler) combination comes round
        opts = S.cyc_options(rng, N, rot)
        opts["backend"] = "numpy" if (i // 2) % 3 == 1 else "numba"
        opts["Jdes"] = min(int(opts["Jdes"]), 16)
        if cross:
            kind = CROSS_KINDS[(i // 2) % len(CROSS_KINDS)]
            x, y = S.pair(rng, N, kind)
        else:
            kind = AUTO_KINDS[(i // 2) % len(AUTO_KINDS)]
            x, y = _an.record(rng, N, kind), None
        run_case(P, x, y, fs, opts, kind, None, max_bins=16 if not ctx.thorough else 40)
        if rng.random() < 0.5:
            L = int(rng.choice([N, max(2, N // 2), int(rng.integers(2, N + 1)), int(rng.integers(2, max(3, N // 8)))]))
            run_case(P, x, y, fs, opts, kind, {"freq": float(rng.uniform(0.0, 0.5) * fs), "L": L})
        if i < 2:
            P.sample({"op": "oracle", "mode": "cross" if cross else "auto", "kind": kind, "N": N, "fs": fs, "opts": opts})
    if ctx.thorough and len(P.violations) == 0:
        probe(ctx, P)
    P.notes.append(S.margins_note("C11"))
    return P


def replay(ctx, data) -> C.Part:
    P = C.Part()
    S.quiet()
    for v in data.get("violations", []):
        rp = v["replay"]
        if rp.get("probe"):
            probe(ctx, P)
        else:
            y = None if rp.get("y") is None else np.array(rp["y"], dtype=float)
            run_case(P, np.array(rp["x"], dtype=float), y, float(rp["fs"]), rp["opts"], rp["kind"], rp["single"])
    return P
