"""C06 — spectral densities are calibrated: power, bandwidth and scaling laws.

Also hosts the sinusoid machinery shared with C12 (tone generation in extended precision, window transform,
single-bin entry points, the table of test windows)."""
from __future__ import annotations

import math
import os
from typing import Any, Dict, List, Optional, Tuple

import numpy as np

from .. import common as C
from . import _an

PROP = "C06"
# obligations of the properties this one is downstream of are obligations of this check too (vk.runner.collect_obligations)
UPSTREAM = ["C05"]
GEN_REGIONS = ["Attrs"]
THEOREMS = {
    # calibration for polynomial detrending (orders 1, 2; any basis Q, any window with positive sum, any segment length and bin position):
    # on-peak power within (2r + r^2) of (A/2)^2 S1^2 with r = rho + 2 sum_k C_k(w0) |B_k(w0)| / S1 — the order-0 bound is its p1 = 1 instance
    "SpecKitV.Lemmas.CalibPoly": ["segDFT_poly_eq", "proj_coeff_bound", "basis_coeff_le_sqrt", "basisT_le_sqrt", "calibration_core",
                                  "calibration_bound_poly", "calibration_bound_poly_sqrt", "power_spectrum_calibrated_poly",
                                  "calibration_bound_order0_of_poly", "orthoCols_Q4"],
    "SpecKitV.Lemmas.Sinusoid": ["segDFT_raw_toC", "sinusoid_identity", "calibration_bound", "power_spectrum_calibrated",
                                 "winT_le_sum", "winT_zero"],
    # the library default, order 0 (mean removal): the bound the oracle uses, r = rho + 2*rho0
    "SpecKitV.Lemmas.Calib0": ["segDFT_order0_eq", "sinusoid_mean_bound", "calibration_bound_order0", "power_spectrum_calibrated_order0",
                               "ps_of_segment_bound"],
    "SpecKitV.Props.AttrsA": ["Gxx_def", "Gxy_def", "enbw_def", "ps_eq", "ps_def", "scale_x", "scale_y", "scale_fs"],
}
CONTRACTS = ["np.kaiser / np.hanning / a user callable return the window samples; the theorems hold for ANY window w "
             "(calibration_bound needs only sum(w) > 0) and the oracle rebuilds the window independently (_an.window)"]
ASSUMPTIONS = [
    "rounding / fastmath re-association are covered by the stated forward tolerance (_an.bin_tol), not by theorem",
    "calibration_bound / power_spectrum_calibrated are proved for order = -1 (no detrending) and, as calibration_bound_order0 / "
    "power_spectrum_calibrated_order0 (Lemmas/Calib0), for order 0 with r = rho + 2*rho0, rho0 = |W(w0)|*|D_L(w0)|/(L*S1) -- the bound "
    "the oracle evaluates. Orders 1, 2 have no closed-form bound: the oracle only compares them with the reference estimator "
    "evaluated in extended precision",
    "the SIZE of rho (how low the Kaiser side lobes are) is not proved (C12's numeric residual); the oracle measures rho "
    "from the independently built window and uses the proved bound with that measured rho",
    "run time only: the oracle sets the OpenBLAS thread count of its own process to 1 while it runs (restored afterwards); no predicate depends on it",
    "scale_x / scale_y / scale_fs are theorems about the attribute table given the raw statistics; that XX, XY scale with "
    "c^2, c (linearity of detrending and DFT) and that the plan does not depend on the data is checked by the oracle on the real code",
]
RULE = ("cases: (a) sinusoids A cos(2 pi f0 n/fs + phi), A in [1e-3,1e3], L in [16,4096] odd and even, fractional bin position at least "
        "(main-lobe half-width + 1) bins from 0 and L/2, Kaiser psll in [60,200], orders -1,0,1,2, default and random overlap, "
        "function / method / fres entry points, auto and two-channel, every (order, backend) pair, every fifth case with a callable window that takes "
        "NEGATIVE values (scipy flattop, HFT95, a hand-made one) and rho measured from that window; (b) ENBW of every bin of random full plans for kaiser / hann / "
        "callable windows, each configuration run twice in a row with different windows (call history); (c) channel scaling by "
        "c in {2,0.5,-4} (bit-exact) and generic c on random two-channel and one-channel analyses; (c') the same laws over the whole range "
        "of factors: (cx, cy) with one or both of them in [1e-12,1e-4] / [1e4,1e12] (round decades and generic) and powers of two "
        "2^+-14..39 (bit-exact), through compute / compute_spectrum / lpsd and the single-bin entry points, incl. cs, ccoh, tf, Hyx, cf; "
        "(d) fs -> a*fs relabelling; "
        "(e) option combinations on every run: one generator (gen_opt) walks through all 16 branches backend {numpy, numba/auto/omitted} x order "
        "{-1,0,1,2} x {auto, cross} each round (6 rounds quick) and cycles entry points (analyzer.compute, analyzer.compute_single_bin with L= / fres=, "
        "compute_spectrum, lpsd, compute_single_bin with L= / fres= / a resolution that is not fs/L), schedulers (lpsd, ltf, vectorized_ltf, new_ltf, a "
        "fixed-length Welch callable, a callable listing L1, L2, L1), overlap requests (omitted, 'default', a float, exactly 0.0 also with N a multiple "
        "of L, (1-olap)*L < 1), windows (kaiser(psll), hann, callables, numpy / scipy kaiser, the constructor default), layouts (1-D, strided view, "
        "list, 2xN, Nx2, Fortran-ordered, list of lists), records with drift / offset / tone / red noise, both parities of L, K = 1 and K = 2; every "
        "case gets: window sums and ENBW of every bin, raw statistics at bins spread over the plan against the definition (extended precision) with "
        "the ps / density identities, the input array untouched, a second call (same analyzer / same array; single-bin after compute; L, L', L on one "
        "analyzer) bit-identical, the other backend under identical options, one pair of scale factors, one fs relabelling, and a sinusoid at the frequency of one bin of the "
        "case's own plan through the same entry point (ps = 2*XX/S1^2 of the reference for every order, = A^2/2 within the proved bound for orders "
        "-1, 0, windows incl. the negative-lobe ones); streams (a)-(d) also "
        "rotate the backend; "
        "(f) size thresholds: calibration with L = 70 001 and 1 100 003 (more and up to 2.1e6 when thorough / an obligation broke), one bin with "
        "70 001 segments in each NumPy kernel (record whose level changes along the record), a plan with ~1000 bins / hundreds of distinct L, records "
        "of 70 001 samples (1 100 003 when thorough), and c-1, c, c+1, c+17, 2c+3 around every integer constant c >= 512 mined from the CURRENT "
        "core.py / analysis.py, taken as segment length, segment count and record length (rotated by the seed within the time share). "
        "distinct by (sub-claim, order, L or plan shape, window, scheduler, factor class); non-trivial = tone with K>=1 and rho>0, "
        "plans with >= 2 bins, non-zero records")

NAMES = ["Gxx", "Gyy", "Gxy", "ENBW", "psd", "ps", "cs", "csd", "coh", "Hxy"]
U = _an.U
LD = np.longdouble


# ================================================================ shared sinusoid machinery (also used by C12)
def tone(N: int, A: float, omega0, phi: float, n0: int = 0) -> np.ndarray:
    """x[n] = A cos(omega0*n + phi), evaluated in extended precision and rounded once to float64"""
    n = np.arange(n0, n0 + N, dtype=LD)
    return np.asarray(LD(A) * np.cos(LD(omega0) * n + LD(phi)), dtype=np.float64)


def omega_of(f: float, fs: float):
    """exact (extended precision) digital frequency of the float pair (f, fs)"""
    return LD(2) * np.arccos(LD(-1)) * LD(f) / LD(fs)


def hw_bins(psll: float) -> float:
    """main-lobe half width of the Kaiser window in bins (fs/L): sqrt(1 + alpha^2)"""
    a = _an.kaiser_alpha(psll)
    return math.sqrt(1.0 + a * a)


def win_transform(w: np.ndarray, theta) -> complex:
    """W(theta) = sum_n w[n] e^{-i theta n} in extended precision"""
    n = np.arange(len(w), dtype=LD)
    wl = w.astype(LD)
    return complex(float((wl * np.cos(LD(theta) * n)).sum()), float(-(wl * np.sin(LD(theta) * n)).sum()))


def dirichlet_abs(L: int, theta) -> float:
    n = np.arange(L, dtype=LD)
    return float(np.hypot(np.cos(LD(theta) * n).sum(), np.sin(LD(theta) * n).sum()))


def ref_bin_fast(x1: np.ndarray, x2: Optional[np.ndarray], D, L: int, w: np.ndarray, omega, order: int, block: int = 1 << 18):
    """(XX, YY, XY, a, b): the estimator by its definition (_an.seg_dft / _an.ref_bin: detrend by the mean / by the projection on _an.poly_basis,
    window, DFT at omega, mean over the segments of |X|^2, |Y|^2, X conj Y) in extended precision, all segments of a block at once, so that bins
    with 10^4..10^5 segments and segments of 10^6 samples stay affordable.  a, b = max over the segments of sum |x w| (the scale of _an.bin_tol).
    The blocks are of the oracle's own choosing (2^18 extended-precision numbers) and every segment is evaluated independently of its block."""
    Dv = np.asarray([int(d) for d in D], dtype=np.int64)
    K = len(Dv)
    n = np.arange(L, dtype=LD)
    cs, sn = np.cos(LD(omega) * n), np.sin(LD(omega) * n)
    wl = np.asarray(w, dtype=np.float64).astype(LD)
    Q = _an.poly_basis(L, order) if order >= 1 else None
    ar = np.arange(L, dtype=np.int64)
    step = max(1, block // max(L, 1))

    def chan(x):
        X = np.empty(K, dtype=complex)
        raw = 0.0
        for a0 in range(0, K, step):
            seg = x[Dv[a0:a0 + step, None] + ar[None, :]]
            raw = max(raw, float(np.abs(seg * w).sum(axis=1).max()))
            v = seg.astype(LD)
            if order == 0:
                v = v - v.mean(axis=1, keepdims=True)
            elif order >= 1:
                v = v - (v @ Q) @ Q.T
            v = v * wl
            X[a0:a0 + step] = (v @ cs).astype(float) - 1j * (v @ sn).astype(float)
        return X, raw
    Xs, a = chan(x1)
    XX = float(np.mean(np.abs(Xs) ** 2))
    if x2 is None:
        return XX, XX, complex(XX, 0.0), a + 1e-300, a + 1e-300
    Ys, b = chan(x2)
    return XX, float(np.mean(np.abs(Ys) ** 2)), complex((Xs * np.conj(Ys)).mean()), a + 1e-300, b + 1e-300


def _bartlett_p(L):
    return np.bartlett(L) + 0.25


def _ramp(L):
    return 0.5 + np.arange(L) / max(L, 1)       # deliberately non-symmetric


def _sp_kaiser():
    from scipy.signal.windows import kaiser
    return kaiser


def _sp_flattop():
    from scipy.signal.windows import flattop
    return flattop


def _hft95(L):
    """HFT95 flat-top window (cosine sum, DFT-even): takes NEGATIVE values; sum w = L exactly in exact arithmetic"""
    z = 2.0 * np.pi * np.arange(L) / max(L, 1)
    return 1.0 - 1.9383379 * np.cos(z) + 1.3045202 * np.cos(2 * z) - 0.4028270 * np.cos(3 * z) + 0.0350665 * np.cos(4 * z)


def _neglobe(L):
    """hand-made window with negative lobes at both ends, deliberately non-symmetric (sum w ~ 0.355 L > 0, sum |w| differs from it by ~ 5 %)"""
    return np.hanning(L) - 0.12 - 0.05 * np.arange(L) / max(L, 1)


# windows that take negative values (sum |w| != sum w): the amplitude-calibration (flat-top) family and a hand-made one; main-lobe half width in bins
NEG_WINDOWS = {"flattop": 5.0, "hft95": 5.0, "neglobe": 2.0}


# name -> (what is passed to speckit as `win`, what is passed to _an.window, needs psll)
def win_table() -> Dict[str, Tuple[Any, Any, bool]]:
    return {"kaiser": ("kaiser", "kaiser", True), "Kaiser": ("Kaiser", "kaiser", True), "np_kaiser": (np.kaiser, "kaiser", True),
            "sp_kaiser": (_sp_kaiser(), "kaiser", True), "hann": ("hann", "hann", False), "hanning": ("hanning", "hann", False),
            "blackman": (np.blackman, np.blackman, False), "hamming": (np.hamming, np.hamming, False),
            "bartlett_p": (_bartlett_p, _bartlett_p, False), "rect": (np.ones, np.ones, False), "ramp": (_ramp, _ramp, False),
            "flattop": (_sp_flattop(), _sp_flattop(), False), "hft95": (_hft95, _hft95, False), "neglobe": (_neglobe, _neglobe, False)}


def win_opts(name: str, psll: Optional[float]) -> Dict[str, Any]:
    sk, _, needs = win_table()[name]
    o = {"win": sk}
    if needs:
        o["psll"] = psll
    return o


def ref_window(name: str, L: int, psll: Optional[float]) -> np.ndarray:
    _, an, _ = win_table()[name]
    return _an.window(an, L, psll)


def single_bin(data, fs: float, f: float, L: int, via: str, **o):
    """the public single-bin entry points"""
    import speckit
    if via == "func":
        return speckit.compute_single_bin(data, fs, f, L=L, **o)
    if via == "fres":
        return speckit.compute_single_bin(data, fs, f, fres=fs / L, **o)
    if via == "fres-frac":
        # a requested resolution that is NOT fs/L exactly: the analysis uses L = round(fs/fres) samples and reports r = fres;
        # every calibrated quantity (ENBW, ps) must still be the one of the length-L window at sampling rate fs
        return speckit.compute_single_bin(data, fs, f, fres=fs / (L + 0.3), **o)
    return speckit.SpectrumAnalyzer(data, fs, **o).compute_single_bin(f, L=L)


def fres_gives(fs: float, L: int) -> bool:
    return int(round(float(fs) / (float(fs) / L))) == L


STATS: Dict[str, Any] = {}             # worst observed deviation / tolerance per sub-claim (reported in the evidence notes)


def tight(key: str, ratio: float) -> None:
    if ratio == ratio:
        STATS[key] = max(STATS.get(key, 0.0), float(ratio))


_HIST: List[Dict[str, Any]] = []          # the analyses run just before (a failure may depend on the call history)


def remember(case: Dict[str, Any]) -> None:
    _HIST.append(case)
    del _HIST[:-4]


def viol(P: C.Part, what: str, sig: Dict[str, Any], case: Dict[str, Any], **extra):
    hist = [h for h in _HIST if h is not case][-3:]
    P.violations.append(C.Violation(what=what, signature=sig, replay={"case": case, "history": hist, **extra}))


def full(P: C.Part) -> bool:
    return len(P.violations) >= 8


# ================================================================ (1) sinusoid calibration
def gen_calib(rng: np.random.Generator, thorough: bool, order: Optional[int] = None, neg: bool = False) -> Dict[str, Any]:
    """neg: a callable window that takes negative values (flat-top family / hand-made) instead of a Kaiser window; the frequency keeps the
    main-lobe distance of THAT window from 0 and Nyquist, and the bound is evaluated with rho measured from the window actually used"""
    psll = float(rng.choice([60.0, 100.0, 200.0, float(rng.uniform(60, 200)), float(rng.uniform(60, 200))]))
    hw = hw_bins(psll)
    negwin = str(rng.choice(sorted(NEG_WINDOWS)))
    if neg:
        hw = NEG_WINDOWS[negwin]
    Lmin = max(16, int(math.ceil(4 * (hw + 1.5))) + 1)
    Lmax = 4096 if thorough else 1500
    L = int(round(math.exp(rng.uniform(math.log(Lmin), math.log(Lmax)))))
    if rng.random() < 0.2:
        L = int(rng.choice([Lmin, Lmin + 1, 64, 100, 255, 256, 1000, 1024]))
        L = max(L, Lmin)
    k = int(rng.choice([0, 1, 2, 4]))
    N = L if k == 0 else int(L * k + rng.integers(1, L + 1))
    m0 = float(rng.uniform(hw + 1.0, L / 2 - hw - 1.0))
    if rng.random() < 0.15:
        m0 = float(rng.choice([hw + 1.0, L / 2 - hw - 1.0, round(m0), round(m0) + 0.5]))
        m0 = min(max(m0, hw + 1.0), L / 2 - hw - 1.0)
    fs = float(rng.choice([1.0, 2.0, 1000.0, float(10 ** rng.uniform(-2, 4))]))
    order = int(rng.choice([-1, -1, 0, 0, 1, 2])) if order is None else order
    via = str(rng.choice(["func", "method", "fres", "fres-frac"]))
    if via == "fres" and not fres_gives(fs, L):
        via = "func"
    if via == "fres-frac" and int(round(float(fs) / (float(fs) / (L + 0.3)))) != L:
        via = "func"
    return {"kind": "calib", "A": float(10 ** rng.uniform(-3, 3)), "phi": float(rng.uniform(0, 2 * np.pi)), "L": L, "N": N,
            "fs": fs, "f0": m0 * fs / L, "psll": psll, "order": order,
            "olap": None if rng.random() < 0.5 else float(rng.choice([0.0, 0.5, float(rng.uniform(0, 0.9))])),
            "via": via, "cross": bool(rng.random() < 0.3), "B": float(10 ** rng.uniform(-3, 3)), "phi2": float(rng.uniform(0, 2 * np.pi)),
            "win": str(rng.choice(["kaiser", "kaiser", "np_kaiser", "sp_kaiser", "Kaiser"])) if not neg else negwin}


def check_calib(P: C.Part, c: Dict[str, Any]) -> None:
    remember(c)
    L, N, fs, f0, A, psll, order = c["L"], c["N"], c["fs"], c["f0"], c["A"], c["psll"], c["order"]
    w0 = omega_of(f0, fs)
    x = tone(N, A, w0, c["phi"])
    chans = [("x", x, A)]
    data = x
    if c["cross"]:
        y = tone(N, c["B"], w0, c["phi2"])
        chans.append(("y", y, c["B"]))
        data = np.vstack([x, y])
    o = dict(win_opts(c["win"], psll), order=order)
    if c["olap"] is not None:
        o["olap"] = c["olap"]
    if c.get("backend") is not None:
        o["backend"] = c["backend"]
    P.cases += 1
    sig0 = {"subclaim": "calibration", "order": order, "via": c["via"]}
    if c.get("backend") is not None:
        sig0["backend"] = c["backend"]
    try:
        res = single_bin(data, fs, f0, L, c["via"], **o)
    except Exception as ex:  # noqa
        viol(P, f"single-bin analysis of a sinusoid raised {ex!r} (L={L}, N={N}, psll={psll}, order={order})", dict(sig0, raises=True), c)
        return
    if int(res.L[0]) != L or len(res.f) != 1 or float(res.f[0]) != f0:
        viol(P, f"single-bin result reports L={int(res.L[0])}, f={float(res.f[0])!r} for requested L={L}, f={f0!r}", dict(sig0, field="L/f"), c)
        return
    D = [int(d) for d in res.D[0]]
    if not D or min(D) < 0 or max(D) + L > N:
        viol(P, f"single-bin starts out of range: {D[:5]}.. for L={L}, N={N}", dict(sig0, field="D"), c)
        return
    w = ref_window(c["win"], L, psll)
    S1 = float(w.astype(LD).sum())
    S2 = float((w.astype(LD) ** 2).sum())
    # the window handed to the kernel: its sums and the reported ENBW
    for nm, ob, ex in (("S12", float(res.S12[0]), S1 * S1), ("S2", float(res.S2[0]), S2), ("ENBW", float(res.ENBW[0]), fs * S2 / (S1 * S1))):
        if not abs(ob - ex) <= 1e-10 * abs(ex):
            viol(P, f"{nm} = {ob!r} but the " + ("Kaiser window (psll={}, L={}, DFT-even, beta=alpha*pi)".format(psll, L) if win_table()[c["win"]][2] else
                                                 "{} window (callable, rebuilt independently, L={})".format(c["win"], L)) + f" gives {ex!r}"
                 + (" = fs*sum(w^2)/(sum w)^2" if nm == "ENBW" else ""), dict(sig0, subclaim="enbw" if nm == "ENBW" else "window", field=nm), c,
                 observed=ob, expected=ex)
            return
    omega = 2.0 * np.pi * float(f0) / float(fs)
    rho = abs(win_transform(w, 2 * w0)) / S1
    rho0 = abs(win_transform(w, w0)) * dirichlet_abs(L, w0) / (L * S1) if order == 0 else 0.0      # enters the order-0 bound only
    K = len(D)
    if rho > 0 and A > 0:
        P.nontrivial.add(("calib", order, L, round(psll) if win_table()[c["win"]][2] else c["win"], min(K, 3), c["via"], c["cross"]))
    P.hit(f"calib.order{order}")
    if c["win"] in NEG_WINDOWS:
        P.hit(f"calib.negative-lobe window.{c['win']}.order{order}.backend={c.get('backend')}")
    P.hit(f"calib.backend={c.get('backend')}.order{order}.{'cross' if c['cross'] else 'auto'}")
    if L > 4096:
        P.hit("calib.L>4096")
        P.nontrivial.add(("calib-large-L", order, L, K, c.get("backend"), c["cross"]))
    P.hit("calib.K=1" if K == 1 else "calib.K>=2")
    P.hit("calib.L odd" if L % 2 else "calib.L even")
    iscsd = bool(c["cross"])
    for nm, z, amp in chans:
        XXr, _, _, a, _ = ref_bin_fast(z, None, D, L, w, omega, order)
        tXX = _an.bin_tol(L, omega, a, a, order)[0]
        XXo = float(res.XX[0]) if nm == "x" else float(res.YY[0])
        tight("estimator |XX-ref|/tol", abs(XXo - XXr) / tXX)
        if not abs(XXo - XXr) <= tXX:
            viol(P, f"mean |X|^2 of channel {nm} = {XXo!r} but the windowed-DFT definition gives {XXr!r} (tol {tXX:.3g}); L={L} K={K} order={order}",
                 dict(sig0, subclaim="estimator", field="XX" if nm == "x" else "YY"), c, observed=XXo, expected=XXr, tol=tXX)
            continue
        if iscsd:
            pso = float((res.Gxx if nm == "x" else res.Gyy)[0]) * float(res.ENBW[0])
        else:
            pso = float(res.ps[0])
            pp = float(res.psd[0]) * float(res.ENBW[0])
            if not abs(pso - pp) <= 4 * U * abs(pp):
                viol(P, f"ps = {pso!r} but psd*ENBW = {pp!r}", dict(sig0, subclaim="ps=psd*ENBW"), c, observed=pso, expected=pp)
        tps = 2 * tXX / (S1 * S1)
        psr = 2 * XXr / (S1 * S1)
        if not abs(pso - psr) <= tps + 1e-12 * psr:
            viol(P, f"power spectrum (density*ENBW) of channel {nm} = {pso!r} but 2*XX/S1^2 of the reference estimator = {psr!r}; L={L} fs={fs} order={order}",
                 dict(sig0, subclaim="ps-vs-ref", channel=nm), c, observed=pso, expected=psr, tol=tps)
            continue
        tgt = amp * amp / 2
        if order == -1 and not abs(psr - tgt) <= tgt * (2 * rho + rho * rho) + 1e-12 * tgt:
            P.notes.append(f"INTERNAL: reference estimate {psr!r} outside the proved bound around {tgt!r} (rho={rho:.3g}) — harness inconsistency")
            P.hit("internal.ref-outside-proved-bound")
        if order in (-1, 0):
            r = rho + (2 * rho0 if order == 0 else 0.0)
            bound = tgt * (2 * r + r * r) + tps + 1e-9 * tgt
            P.hit("calib.bound-checked")
            tight(f"calibration(order {order}) |ps-A^2/2|/bound", abs(pso - tgt) / bound)
            if not abs(pso - tgt) <= bound:
                viol(P, f"sinusoid of amplitude {amp:.6g} analysed at its own frequency (L={L}, bin {f0 * L / fs:.3f}, win={c['win']}, psll={psll}, order={order}, K={K}): "
                        f"power spectrum = {pso!r}, expected A^2/2 = {tgt!r} within {bound:.3g} (rho={rho:.3g}, rho0={rho0:.3g})",
                     dict(sig0, subclaim="calibration", channel=nm), c, observed=pso, expected=tgt, tol=bound)
    if iscsd and not full(P):
        # cross density = 2*XY/(fs*S2) (Gxy_def) and cross spectrum = density*ENBW, against the reference estimator on both tones
        _, _, XYr, a, b = ref_bin_fast(x, chans[1][1], D, L, w, omega, order)
        tXY = _an.bin_tol(L, omega, a, b, order)[2]
        k = 2.0 / (fs * S2)
        for nm, ob, ex_, tl in (("XY", complex(res.XY[0]), XYr, tXY), ("Gxy", complex(res.Gxy[0]), k * XYr, k * tXY + 1e-12 * k * abs(XYr)),
                                ("csd", complex(res.csd[0]), k * XYr, k * tXY + 1e-12 * k * abs(XYr)),
                                ("cs", complex(res.cs[0]), 2 * XYr / (S1 * S1), 2 * tXY / (S1 * S1) + 1e-12 * abs(XYr) / (S1 * S1))):
            if not abs(ob - ex_) <= tl:
                viol(P, f"two tones (A={A:.4g}, B={c['B']:.4g}) at one frequency: {nm} = {ob!r} but the definition (2*XY/(fs*S2), times ENBW for cs) on the "
                        f"reference estimator gives {ex_!r} (tol {tl:.3g}); L={L} fs={fs} order={order}", dict(sig0, subclaim="cross-density", field=nm), c,
                     observed=ob, expected=ex_, tol=tl)
                break
        if order == -1:
            tgt = A * c["B"] / 2 * complex(math.cos(c["phi"] - c["phi2"]), math.sin(c["phi"] - c["phi2"]))
            bound = abs(tgt) * (2 * rho + rho * rho) + 2 * tXY / (S1 * S1) + 1e-9 * abs(tgt)
            tight("cross spectrum |cs-(AB/2)e^{i dphi}|/bound", abs(complex(res.cs[0]) - tgt) / bound)
            if not abs(complex(res.cs[0]) - tgt) <= bound:
                viol(P, f"two tones (A={A:.4g}, B={c['B']:.4g}, phase difference {c['phi'] - c['phi2']:.4f}) at one frequency: cross spectrum cs = {complex(res.cs[0])!r}, "
                        f"expected (AB/2)e^(i dphi) = {tgt!r} within {bound:.3g}", dict(sig0, subclaim="cross-calibration"), c, observed=complex(res.cs[0]), expected=tgt)
    P.sample({"op": "calib", **{k: c[k] for k in ("A", "L", "N", "fs", "f0", "psll", "order", "via", "cross")}, "K": K, "rho": rho,
              "ps": float(res.ps[0]) if not iscsd else None}, cap=3)


# ================================================================ (2) ENBW of full plans, with call history
def gen_enbw(rng: np.random.Generator, thorough: bool) -> Dict[str, Any]:
    N = int(rng.integers(60, 6000 if thorough else 2500))
    o = _an.options(rng, N)
    o.pop("win", None)
    o.pop("psll", None)
    names = list(win_table().keys())
    seq = []
    for _ in range(int(rng.choice([2, 2, 3]))):
        nm = str(rng.choice(names + ["kaiser", "kaiser"]))
        seq.append([nm, float(rng.choice([60.0, 200.0, float(rng.uniform(40, 200))])) if win_table()[nm][2] else None])
    if rng.random() < 0.5:                       # the history that matters most: same window family, different psll
        seq = [["kaiser", 200.0], ["kaiser", float(rng.uniform(40, 150))]] + seq[:1]
    return {"kind": "enbw", "N": N, "dseed": int(rng.integers(0, 2 ** 31)), "fs": float(rng.choice([1.0, 2.0, 1000.0, float(10 ** rng.uniform(-2, 4))])),
            "opts": o, "seq": seq, "cross": bool(rng.random() < 0.4), "rec": str(rng.choice(["noise", "offset", "red", "tone"])),
            "single_L": int(rng.integers(2, max(3, N // 2)))}


def check_enbw(P: C.Part, c: Dict[str, Any]) -> None:
    remember(c)
    import speckit
    r = np.random.default_rng(c["dseed"])
    N, fs = c["N"], c["fs"]
    x = _an.record(r, N, c["rec"])
    data = np.vstack([x, _an.record(r, N, "noise")]) if c["cross"] else x
    cache: Dict[Tuple[str, int, Any], Tuple[float, float]] = {}

    def sums(nm, L, psll):
        k = (nm, L, psll)
        if k not in cache:
            w = ref_window(nm, L, psll).astype(LD)
            cache[k] = (float(w.sum()), float((w * w).sum()), float(np.abs(w).sum()))
        return cache[k]
    for step, (nm, psll) in enumerate(c["seq"]):
        o = dict(c["opts"], **win_opts(nm, psll))
        sig0 = {"subclaim": "enbw", "win": nm, "step": min(step, 1)}
        try:
            res = _an.compute(data, fs, **o)
        except Exception as ex:  # noqa  (a plan the scheduler rejects is C02's business)
            P.hit("enbw.plan-raised")
            P.cases += 1
            continue
        runs = [("plan", res)]
        Ls = c["single_L"]
        try:
            runs.append(("single", speckit.compute_single_bin(data, fs, float(fs * 0.21), L=Ls, **{k: v for k, v in o.items() if k in ("win", "psll", "order", "olap", "backend")})))
        except Exception as ex:  # noqa
            viol(P, f"compute_single_bin raised {ex!r} (L={Ls}, N={N}, win={nm})", dict(sig0, raises=True), c)
        for path, rs in runs:
            P.cases += 1
            E = np.asarray(rs.ENBW, dtype=float)
            LL = np.asarray(rs.L)
            bad = None
            for j in range(len(LL)):
                S1, S2, Sa = sums(nm, int(LL[j]), psll)
                if not abs(S1) > 1e-9 * Sa:
                    P.hit("enbw.zero-sum-window")       # S1 = 0: the definition has no value (guarded to 0 by the code)
                    continue
                ex = fs * S2 / (S1 * S1)
                tight("ENBW rel.dev/1e-10", abs(float(E[j]) - ex) / (1e-10 * abs(ex)))
                if not abs(float(E[j]) - ex) <= 1e-10 * abs(ex):
                    bad = (j, int(LL[j]), float(E[j]), ex)
                    break
            P.hit(f"enbw.{path}.{nm}")
            if len(LL) >= 2 or path == "single":
                P.nontrivial.add(("enbw", path, nm, None if psll is None else round(psll), len(LL), int(LL[0]), step))
            if bad:
                j, Lj, ob, ex = bad
                viol(P, f"ENBW[{j}] = {ob!r} but fs*sum(w^2)/(sum w)^2 = {ex!r} for the {nm} window (psll={psll}) of length L={Lj}, fs={fs} "
                        f"({path} path, analysis #{step + 1} of the sequence {c['seq']})", dict(sig0, path=path), c, observed=ob, expected=ex, bin=j)
    P.sample({"op": "enbw", "N": N, "fs": fs, "seq": c["seq"], "opts": c["opts"], "cross": c["cross"]}, cap=2)


# ================================================================ (3)/(4) scaling laws
def _raw_scale(x: np.ndarray, w: np.ndarray, D, L: int) -> float:
    if len(D) > 64:                       # many segments: the same maximum, gathered block-wise
        Dv = np.asarray(D, dtype=np.int64)
        ar = np.arange(L, dtype=np.int64)
        step = max(1, (1 << 20) // max(L, 1))
        return max(float(np.abs(x[Dv[a:a + step, None] + ar[None, :]] * w).sum(axis=1).max()) for a in range(0, len(Dv), step)) + 1e-300
    return max(float(np.abs(x[int(s):int(s) + L] * w).sum()) for s in D) + 1e-300


def gen_scale(rng: np.random.Generator, thorough: bool, kind: str) -> Dict[str, Any]:
    N = int(rng.integers(100, 5000 if thorough else 1800))
    o = _an.options(rng, N)
    wn = str(rng.choice(["kaiser", "kaiser", "hann", "blackman", "ramp"]))
    o.pop("win", None)
    psll = o.pop("psll", None) or float(rng.uniform(40, 200))
    if kind == "scale":
        fac = [2.0, 0.5, -4.0] + [float(rng.choice([3.7, -0.013, 1e6])), float(rng.choice([-1, 1]) * 10 ** rng.uniform(-3, 3))]
    else:
        fac = [2.0, 0.5] + [float(rng.choice([3.3, 1e-3, 0.1])), float(10 ** rng.uniform(-2, 2))]
    return {"kind": kind, "N": N, "dseed": int(rng.integers(0, 2 ** 31)), "fs": float(rng.choice([1.0, 2.0, 1000.0, float(10 ** rng.uniform(-2, 4))])),
            "opts": o, "win": wn, "psll": psll if win_table()[wn][2] else None, "cross": bool(rng.random() < 0.8),
            "rec": [str(rng.choice(["noise", "offset", "drift", "red", "tone"])), str(rng.choice(["noise", "offset", "drift", "red", "tone"]))],
            "factors": fac, "entry": str(rng.choice(["analyzer", "compute_spectrum", "lpsd"])), "layout": str(rng.choice(["2xN", "Nx2"]))}


def _data_of(c: Dict[str, Any]) -> Tuple[np.ndarray, Optional[np.ndarray]]:
    r = np.random.default_rng(c["dseed"])
    x1 = _an.record(r, c["N"], c["rec"][0])
    if not c["cross"]:
        return x1, None
    x2 = 0.5 * np.roll(x1, 3) + _an.record(r, c["N"], c["rec"][1])
    return x1, x2


def _run(c: Dict[str, Any], x1, x2, fs: float):
    import speckit
    o = dict(c["opts"], **win_opts(c["win"], c["psll"]))
    data = x1 if x2 is None else (np.vstack([x1, x2]) if c["layout"] == "2xN" else np.ascontiguousarray(np.vstack([x1, x2]).T))
    if c["entry"] == "compute_spectrum":
        return speckit.compute_spectrum(data, fs, **o)
    if c["entry"] == "lpsd":
        return speckit.lpsd(data, fs, **o)
    return speckit.SpectrumAnalyzer(data, fs, **o).compute()


def _same_plan(a, b) -> bool:
    if len(a.f) != len(b.f) or not np.array_equal(a.L, b.L) or not np.array_equal(a.K, b.K):
        return False
    return all(np.array_equal(p, q) for p, q in zip(a.D, b.D))


def _budgets(c, res, x1, x2, order, rw=None):
    """per-bin forward rounding budgets (tXX, tYY, tXY) of the raw statistics, from the raw windowed magnitudes
    (rw: L -> reference window; default the window named by the case)"""
    f = np.asarray(res.f)
    n = len(f)
    tx, ty, txy = np.zeros(n), np.zeros(n), np.zeros(n)
    wc: Dict[int, np.ndarray] = {}
    for j in range(n):
        L = int(res.L[j])
        if L not in wc:
            wc[L] = ref_window(c["win"], L, c["psll"]) if rw is None else rw(L)
        a = _raw_scale(x1, wc[L], res.D[j], L)
        b = a if x2 is None else _raw_scale(x2, wc[L], res.D[j], L)
        om = 2 * np.pi * float(f[j]) / float(res.fs)
        tx[j], ty[j], txy[j], _ = _an.bin_tol(L, om, a, b, order)
    return tx, ty, txy


def _cmp_arrays(P, c, sig, name, obs, exp, tol_abs, exact: bool, what: str, mask=None, **extra) -> None:
    """obs vs exp: bit-exact when `exact` (powers of two commute with every rounding; a last-digit difference is counted
    unstable, not a failure), else |obs-exp| <= tol_abs on the bins of `mask` (bins above the rounding-noise level)"""
    obs = np.asarray(obs)
    exp = np.asarray(exp)
    tol_abs = np.broadcast_to(np.asarray(tol_abs, dtype=float), obs.shape)
    if obs.shape != exp.shape:
        viol(P, f"{what}: {name} has shape {obs.shape}, expected {exp.shape}", dict(sig, field=name), c, **extra)
        return
    if exact:
        if np.array_equal(obs, exp):
            return
        if np.all(np.abs(obs - exp) <= 1e-12 * np.abs(exp)):
            P.unstable += 1
            P.hit("pow2-not-bit-exact")
            return
    if mask is not None:
        obs, exp, tol_abs = obs[mask], exp[mask], tol_abs[mask]
    d = np.abs(obs - exp)
    if d.size and not exact:
        tight(f"{sig.get('subclaim')} generic factor: {name} |diff|/tol", float(np.max(np.where(tol_abs > 0, d / (tol_abs + 1e-300), 0.0))))
    badm = ~(d <= tol_abs)
    if np.any(badm):
        j = int(np.argmax(np.where(badm, d / (tol_abs + 1e-300), 0)))
        viol(P, f"{what}: {name}[{j}] = {obs[j].item()!r}, expected {exp[j].item()!r} (|diff| {d[j]:.3g} > tol {float(tol_abs[j]):.3g})",
             dict(sig, field=name), c, bin=j, observed=obs[j].item(), expected=exp[j].item(), **extra)


def _derived_tols(base, ex, ey, exy, rel):
    """absolute tolerances of the derived attributes of `base` given absolute budgets ex, ey, exy on XX, YY, |XY| and a relative slack"""
    XX, YY, XY = np.asarray(base.XX), np.asarray(base.YY), np.asarray(base.XY)
    fs = float(base.fs)
    S2 = np.asarray(base.S2)
    k = np.where(S2 != 0, 2.0 / (fs * np.where(S2 != 0, S2, 1.0)), 0.0)
    ok = (ex <= 0.05 * XX) & (ey <= 0.05 * YY) & (XX > 0) & (YY > 0)
    XXs = np.where(ok, XX, 1.0)
    YYs = np.where(ok, YY, 1.0)
    aXY = np.abs(XY)
    H = aXY / XXs
    coh = aXY ** 2 / (XXs * YYs)
    tH = 1.2 * (exy + H * ex) / XXs + rel * H
    tcoh = 1.3 * ((2 * aXY * exy + exy ** 2) / (XXs * YYs) + coh * (ex / XXs + ey / YYs)) + rel
    # complex coherence XY/sqrt(XX*YY): |d ccoh| <= exy/sqrt(XX'YY') + |ccoh| * |1/sqrt((1+dx)(1+dy)) - 1| with |dx|, |dy| <= 0.05 on the `ok` bins
    rt = np.sqrt(XXs * YYs)
    tcc = 1.3 * (exy / rt + (aXY / rt) * 0.5 * (ex / XXs + ey / YYs)) + rel
    return {"Gxx": k * ex + rel * k * XX, "Gyy": k * ey + rel * k * YY, "Gxy": k * exy + rel * k * aXY, "Hxy": tH, "coh": tcoh, "ccoh": tcc, "ok": ok,
            "XX": ex + rel * XX, "YY": ey + rel * YY, "XY": exy + rel * aXY}


def check_scale(P: C.Part, c: Dict[str, Any]) -> None:
    remember(c)
    x1, x2 = _data_of(c)
    fs = c["fs"]
    order = int(c["opts"]["order"])
    P.cases += 1
    try:
        base = _run(c, x1, x2, fs)
    except Exception:  # noqa
        P.hit("scale.plan-raised")
        return
    tx, ty, txy = _budgets(c, base, x1, x2, order)
    nb = len(base.f)
    P.hit(f"scale.{c['opts']['scheduler']}")
    P.hit(f"scale.order{order}")
    for cf in c["factors"]:
        exact = abs(math.log2(abs(cf)) - round(math.log2(abs(cf)))) == 0.0
        for chan in (("x", "y") if x2 is not None else ("x",)):
            if full(P):
                return
            P.cases += 1
            sig = {"subclaim": "scale-channel", "channel": chan, "exact": exact}
            what = f"channel {chan} multiplied by c={cf!r} ({c['win']} window, order {order}, {c['opts']['scheduler']})"
            try:
                r = _run(c, cf * x1 if chan == "x" else x1, (cf * x2 if chan == "y" else x2) if x2 is not None else None, fs)
            except Exception as ex:  # noqa
                viol(P, f"{what}: analysis raised {ex!r} although the unscaled one succeeded", dict(sig, raises=True), c, factor=cf)
                continue
            if not _same_plan(base, r) or not np.array_equal(base.f, r.f) or not np.array_equal(base.ENBW, r.ENBW):
                viol(P, f"{what}: the plan (f, L, K, D) or ENBW changed with the data scale", dict(sig, field="plan"), c, factor=cf)
                continue
            if nb >= 2 and float(np.max(base.XX)) > 0:
                P.nontrivial.add(("scale", chan, "exact" if exact else "generic", order, c["opts"]["scheduler"], c["win"], nb, c["cross"]))
            c2 = cf * cf
            m = 2.5                                  # both runs carry their own rounding error (+ the rounding of c*x)
            if x2 is None:
                T = _derived_tols(base, m * tx, m * tx, m * tx, 1e-9)
                for nm, ob, ex_, tl in (("XX", r.XX, base.XX * c2, T["XX"] * c2), ("Gxx", r.Gxx, base.Gxx * c2, T["Gxx"] * c2),
                                        ("psd", r.psd, base.psd * c2, T["Gxx"] * c2),
                                        ("ps", r.ps, base.ps * c2, T["Gxx"] * c2 * np.asarray(base.ENBW))):
                    _cmp_arrays(P, c, sig, nm, ob, ex_, tl, exact, what, factor=cf)
                continue
            T = _derived_tols(base, m * tx, m * ty, m * txy, 1e-9)
            ok = T["ok"]
            P.hit("scale.noise-level-bins", int(np.sum(~ok)))
            ac = abs(cf)
            if chan == "x":
                tests = [("XX", r.XX, base.XX * c2, T["XX"] * c2, None), ("YY", r.YY, base.YY, 0.0 * tx, None),
                         ("XY", r.XY, base.XY * cf, T["XY"] * ac, None),
                         ("Gxx", r.Gxx, base.Gxx * c2, T["Gxx"] * c2, None), ("Gyy", r.Gyy, base.Gyy, 0.0 * tx, None),
                         ("Gxy", r.Gxy, base.Gxy * cf, T["Gxy"] * ac, None), ("csd", r.csd, base.csd * cf, T["Gxy"] * ac, None),
                         ("coh", r.coh, base.coh, T["coh"], ok), ("Hxy", r.Hxy, base.Hxy / cf, T["Hxy"] / ac, ok)]
            else:
                tests = [("YY", r.YY, base.YY * c2, T["YY"] * c2, None), ("XX", r.XX, base.XX, 0.0 * tx, None),
                         ("XY", r.XY, base.XY * cf, T["XY"] * ac, None),
                         ("Gyy", r.Gyy, base.Gyy * c2, T["Gyy"] * c2, None), ("Gxx", r.Gxx, base.Gxx, 0.0 * tx, None),
                         ("Gxy", r.Gxy, base.Gxy * cf, T["Gxy"] * ac, None),
                         ("coh", r.coh, base.coh, T["coh"], ok), ("Hxy", r.Hxy, base.Hxy * cf, T["Hxy"] * ac, ok)]
            for nm, ob, ex_, tl, mask in tests:
                # the untouched channel (tolerance 0) goes through the identical computation: same code path, so bit-for-bit
                _cmp_arrays(P, c, sig, nm, ob, ex_, tl, exact, what, mask=mask, factor=cf)
    P.sample({"op": "scale", "N": c["N"], "fs": fs, "opts": c["opts"], "win": c["win"], "factors": c["factors"], "bins": nb, "cross": c["cross"]}, cap=2)


# ================================================================ (3b) scaling laws over the WHOLE range of scale factors
# "for all scale factors c > 0": records expressed in very small / very large units (micro-volts, counts of an ADC, ...), one or
# both channels, full plans and the single-bin entry points.  A threshold with an absolute size anywhere between the samples and
# the attributes (an epsilon guard, np.isclose against 0, a clip, a "negligible power" cut-off) is invisible at moderate factors.
WS_LO, WS_HI = -12.0, 12.0             # decimal exponents; DESIGN 8.5 / D11: |x| in [1e-60, 1e60] is finite and accurate on the unchanged tree


def _ws_class(v: float) -> str:
    return "s" if v < 1e-3 else ("b" if v > 1e3 else "1")


def gen_wscale(rng: np.random.Generator, thorough: bool) -> Dict[str, Any]:
    c = gen_scale(rng, thorough, "scale")
    N, fs = c["N"], c["fs"]

    def sm() -> float:
        return float(10.0 ** int(rng.integers(-12, -3))) if rng.random() < 0.4 else float(10 ** rng.uniform(WS_LO, -4))

    def bg() -> float:
        return float(10.0 ** int(rng.integers(4, 13))) if rng.random() < 0.4 else float(10 ** rng.uniform(4, WS_HI))

    def p2(sign: int) -> float:
        return float(2.0 ** (sign * int(rng.integers(14, 40))))

    def one(v: float) -> List[float]:
        return [v, 1.0] if rng.random() < 0.5 else [1.0, v]
    mixed = [sm(), bg()]
    if rng.random() < 0.5:
        mixed.reverse()
    pow2 = [one(p2(-1)), [p2(-1), p2(-1)], one(p2(1)), [p2(1), p2(1)], [p2(1), p2(-1)], [p2(-1), p2(1)]]
    i, j = (int(v) for v in rng.choice(len(pow2), size=2, replace=False))
    pairs = [one(sm()), one(bg()), [sm(), sm()], [bg(), bg()] if rng.random() < 0.5 else mixed, pow2[i], pow2[j]]
    entry = str(rng.choice(["analyzer", "compute_spectrum", "lpsd", "single-func", "single-method", "single-fres"]))
    L = int(round(math.exp(rng.uniform(math.log(16), math.log(min(N, 1200))))))
    if entry == "single-fres" and not fres_gives(fs, L):
        entry = "single-func"
    c.pop("factors", None)
    c.update(kind="wscale", cross=bool(rng.random() < 0.85), entry=entry, L=L, f0=float(fs * rng.uniform(0.03, 0.47)), pairs=pairs,
             rec=[str(rng.choice(["noise", "noise", "tone", "red", "drift", "offset"])), str(rng.choice(["noise", "noise", "tone", "red"]))])
    return c


def _run_any(c: Dict[str, Any], x1, x2, fs: float):
    """full plans through the three public entries, or one bin through the single-bin entry points"""
    if not str(c["entry"]).startswith("single-"):
        return _run(c, x1, x2, fs)
    o = dict(win_opts(c["win"], c["psll"]), order=int(c["opts"]["order"]), olap=c["opts"]["olap"])
    if c["opts"].get("backend") is not None:
        o["backend"] = c["opts"]["backend"]
    data = x1 if x2 is None else (np.vstack([x1, x2]) if c["layout"] == "2xN" else np.ascontiguousarray(np.vstack([x1, x2]).T))
    return single_bin(data, fs, c["f0"], int(c["L"]), str(c["entry"])[7:], **o)


def _pair_tests(base, r, cx: float, cy: float, T, tx, enbw, auto: bool, same_path: bool = True):
    """the scaling law of the property for the factors (cx, cy) > 0: (attribute, observed, expected, absolute tolerance, bin mask).
    same_path = False: r comes from ANOTHER code path (the other backend), so a channel with factor 1 gets its rounding budget too"""
    ok = T["ok"]
    c2x, c2y, cxy, ratio = cx * cx, cy * cy, cx * cy, cy / cx
    zero = 0.0 * tx                          # a channel that was not touched goes through the identical computation: bit-for-bit
    tXX = zero if (cx == 1.0 and same_path) else T["XX"] * c2x
    tGxx = zero if (cx == 1.0 and same_path) else T["Gxx"] * c2x
    if auto:
        return [("XX", r.XX, base.XX * c2x, tXX, None), ("Gxx", r.Gxx, base.Gxx * c2x, tGxx, None),
                ("psd", r.psd, base.psd * c2x, T["Gxx"] * c2x, None), ("ps", r.ps, base.ps * c2x, T["Gxx"] * c2x * enbw, None)]
    tYY = zero if (cy == 1.0 and same_path) else T["YY"] * c2y
    tGyy = zero if (cy == 1.0 and same_path) else T["Gyy"] * c2y
    return [("XX", r.XX, base.XX * c2x, tXX, None), ("YY", r.YY, base.YY * c2y, tYY, None), ("XY", r.XY, base.XY * cxy, T["XY"] * cxy, None),
            ("Gxx", r.Gxx, base.Gxx * c2x, tGxx, None), ("Gyy", r.Gyy, base.Gyy * c2y, tGyy, None),
            ("Gxy", r.Gxy, base.Gxy * cxy, T["Gxy"] * cxy, None), ("csd", r.csd, base.csd * cxy, T["Gxy"] * cxy, None),
            ("cs", r.cs, base.cs * cxy, T["Gxy"] * cxy * enbw + 1e-9 * np.abs(np.asarray(base.cs)) * cxy, None),
            ("coh", r.coh, base.coh, T["coh"], ok), ("ccoh", r.ccoh, base.ccoh, T["ccoh"], ok),
            ("Hxy", r.Hxy, base.Hxy * ratio, T["Hxy"] * ratio, ok), ("tf", r.tf, base.tf * ratio, T["Hxy"] * ratio, ok),
            ("Hyx", r.Hyx, base.Hyx * ratio, T["Hxy"] * ratio, ok), ("cf", r.cf, base.cf * ratio, T["Hxy"] * ratio, ok)]


def check_wscale(P: C.Part, c: Dict[str, Any]) -> None:
    remember(c)
    x1, x2 = _data_of(c)
    fs = c["fs"]
    order = int(c["opts"]["order"])
    single = str(c["entry"]).startswith("single-")
    path = "single" if single else "plan"
    P.cases += 1
    try:
        base = _run_any(c, x1, x2, fs)
    except Exception:  # noqa
        P.hit("wscale.base-raised")
        return
    tx, ty, txy = _budgets(c, base, x1, x2, order)
    nb = len(base.f)
    m = 2.5                                      # both runs carry their own rounding error (+ the rounding of c*x)
    if x2 is None:
        T = _derived_tols(base, m * tx, m * tx, m * tx, 1e-9)
    else:
        T = _derived_tols(base, m * tx, m * ty, m * txy, 1e-9)
    ok = T["ok"]
    enbw = np.asarray(base.ENBW)
    # can this case SEE a ratio that was zeroed / clipped?  (bins above the rounding-noise level with a coherence well above its tolerance)
    sees = bool(x2 is not None and np.any(ok & (np.asarray(base.coh) > 10 * T["coh"]) & (np.abs(np.asarray(base.Hxy)) > 10 * T["Hxy"])))
    P.hit(f"wscale.{c['entry']}")
    for cx, cy in c["pairs"]:
        if full(P):
            return
        cx, cy = float(cx), float(cy)
        if x2 is None:
            cy = 1.0
        P.cases += 1
        exact = all(math.frexp(v)[0] == 0.5 for v in (cx, cy))
        cls = _ws_class(cx) + (_ws_class(cy) if x2 is not None else "")
        chan = "xy" if (cx != 1.0 and cy != 1.0) else ("x" if cx != 1.0 else "y")
        sig = {"subclaim": "scale-channel", "channel": chan, "exact": exact, "range": cls, "path": path}
        what = (f"channels multiplied by (cx, cy) = ({cx!r}, {cy!r}) ({c['entry']}, {c['win']} window, order {order}"
                + (f", L={c['L']}, f={c['f0']!r}" if single else f", {c['opts']['scheduler']}") + ")")
        try:
            r = _run_any(c, cx * x1, None if x2 is None else cy * x2, fs)
        except Exception as ex:  # noqa
            viol(P, f"{what}: analysis raised {ex!r} although the unscaled one succeeded", dict(sig, raises=True), c, factor=[cx, cy])
            continue
        if not _same_plan(base, r) or not np.array_equal(base.f, r.f) or not np.array_equal(base.ENBW, r.ENBW):
            viol(P, f"{what}: the plan (f, L, K, D) or ENBW changed with the data scale", dict(sig, field="plan"), c, factor=[cx, cy])
            continue
        P.hit(f"wscale.{path}.{cls}")
        if float(np.max(base.XX)) > 0 and (x2 is None or sees):
            P.nontrivial.add(("wscale", c["entry"], cls, "exact" if exact else "generic", order, c["cross"], c["win"]))
        tests = _pair_tests(base, r, cx, cy, T, tx, enbw, x2 is None)
        for nm, ob, ex_, tl, mask in tests:
            if ob is None or ex_ is None:
                viol(P, f"{what}: attribute {nm} is None", dict(sig, field=nm), c, factor=[cx, cy])
                continue
            _cmp_arrays(P, c, sig, nm, ob, ex_, tl, exact, what, mask=mask, factor=[cx, cy])
    P.sample({"op": "wide-scale", "N": c["N"], "fs": fs, "entry": c["entry"], "opts": c["opts"], "win": c["win"], "pairs": c["pairs"], "bins": nb,
              "cross": c["cross"], "sees-ratios": sees}, cap=2)


def _fs_tests(base, r, a: float, T, auto: bool):
    """relabelling fs -> a*fs: frequencies and ENBW times a, densities divided by a, raw statistics / ps / coh / Hxy unchanged"""
    ok = T["ok"]
    tests = [("f", r.f, base.f * a, 1e-12 * np.abs(base.f) * a, None), ("ENBW", r.ENBW, base.ENBW * a, 1e-12 * np.abs(base.ENBW) * a, None),
             ("XX", r.XX, base.XX, T["XX"], None), ("Gxx", r.Gxx, base.Gxx / a, T["Gxx"] / a, None)]
    if auto:
        tests += [("psd", r.psd, base.psd / a, T["Gxx"] / a, None), ("ps", r.ps, base.ps, T["Gxx"] * np.asarray(base.ENBW), None)]
    else:
        tests += [("YY", r.YY, base.YY, T["YY"], None), ("XY", r.XY, base.XY, T["XY"], None), ("Gyy", r.Gyy, base.Gyy / a, T["Gyy"] / a, None),
                  ("Gxy", r.Gxy, base.Gxy / a, T["Gxy"] / a, None), ("coh", r.coh, base.coh, T["coh"], ok), ("Hxy", r.Hxy, base.Hxy, T["Hxy"], ok)]
    return tests


def check_fs(P: C.Part, c: Dict[str, Any]) -> None:
    remember(c)
    x1, x2 = _data_of(c)
    fs = c["fs"]
    order = int(c["opts"]["order"])
    P.cases += 1
    try:
        base = _run(c, x1, x2, fs)
    except Exception:  # noqa
        P.hit("fs.plan-raised")
        return
    tx, ty, txy = _budgets(c, base, x1, x2, order)
    nb = len(base.f)
    for a in c["factors"]:
        if full(P):
            return
        P.cases += 1
        exact = abs(math.log2(a) - round(math.log2(a))) == 0.0
        sig = {"subclaim": "scale-fs", "exact": exact}
        what = f"sampling rate relabelled fs -> {a!r}*fs (fs={fs!r}, {c['win']} window, order {order}, {c['opts']['scheduler']})"
        try:
            r = _run(c, x1, x2, a * fs)
        except Exception:  # noqa  (the relabelled plan was rejected: counted as a changed plan below)
            r = None
        if exact:
            STATS["fs.pow2-trials"] = STATS.get("fs.pow2-trials", 0) + 1
        if r is None or not _same_plan(base, r):
            # a rounding decision of the scheduler flipped (e.g. vectorized_ltf looks fmin up in a grid built as 10**log10(fmin):
            # whether that reproduces fmin exactly depends on fs) — unstable, not a failure; a plan that really depends on the
            # fs label flips in most trials and is reported by the rate test at the end of the oracle
            P.unstable += 1
            P.hit("fs.plan-flipped-pow2" if exact else "fs.plan-flipped")
            if exact:
                STATS["fs.pow2-flips"] = STATS.get("fs.pow2-flips", 0) + 1
                STATS.setdefault("fs.flip-example", {"case": c, "factor": a})
            continue
        if nb >= 2:
            P.nontrivial.add(("fs", "exact" if exact else "generic", order, c["opts"]["scheduler"], c["win"], nb, c["cross"]))
        m = 4.0
        rel = 1e-9
        T = _derived_tols(base, m * tx, m * (ty if x2 is not None else tx), m * (txy if x2 is not None else tx), rel)
        ok = T["ok"]
        tests = _fs_tests(base, r, a, T, x2 is None)
        for nm, ob, ex_, tl, mask in tests:
            _cmp_arrays(P, c, sig, nm, ob, ex_, tl, exact, what, mask=mask, factor=a)
    P.sample({"op": "relabel-fs", "N": c["N"], "fs": fs, "opts": c["opts"], "factors": c["factors"], "bins": nb}, cap=1)


def check_fs_single(P: C.Part, c: Dict[str, Any]) -> None:
    """relabelling on the single-bin path, with a calibration tone: ps stays A^2/2-calibrated, ENBW scales"""
    remember(c)
    L, N, fs, f0 = c["L"], c["N"], c["fs"], c["f0"]
    x = tone(N, c["A"], omega_of(f0, fs), c["phi"])
    o = dict(win_opts(c["win"], c["psll"]), order=c["order"])
    if c.get("backend") is not None:
        o["backend"] = c["backend"]
    P.cases += 1
    try:
        b = single_bin(x, fs, f0, L, "func", **o)
    except Exception:  # noqa
        return
    for a in (2.0, 0.5, 3.3):
        P.cases += 1
        sig = {"subclaim": "scale-fs", "exact": a != 3.3, "path": "single"}
        r = single_bin(x, a * fs, a * f0, L, "func", **o)
        if not np.array_equal(r.D[0], b.D[0]):
            viol(P, f"single-bin starts changed under fs -> {a}*fs", dict(sig, field="plan"), c, factor=a)
            continue
        XX = float(b.XX[0])
        w = ref_window(c["win"], L, c["psll"])
        om = 2 * np.pi * f0 / fs
        araw = _raw_scale(x, w, b.D[0], L)
        t = 4 * _an.bin_tol(L, om, araw, araw, c["order"])[0]
        S12 = float(b.S12[0])
        for nm, ob, ex_, tl in (("ENBW", float(r.ENBW[0]), a * float(b.ENBW[0]), 1e-12 * a * float(b.ENBW[0])),
                                ("ps", float(r.ps[0]), float(b.ps[0]), 2 * t / S12 + 1e-9 * float(b.ps[0])),
                                ("psd", float(r.psd[0]), float(b.psd[0]) / a, (2 * t / (fs * float(b.S2[0])) + 1e-9 * float(b.psd[0])) / a)):
            _cmp_arrays(P, c, sig, nm, np.array([ob]), np.array([ex_]), np.array([tl]), a != 3.3, f"single-bin relabelling fs -> {a}*fs (L={L})", factor=a)
        P.nontrivial.add(("fs-single", a, L, c["order"]))


# ================================================================ (5) option combinations and entry points, on every run
# The statements of this property are quantified over "configurations": a wrong factor, a dropped term or a stale buffer in ONE branch of
# the kernel dispatch (backend x detrending order x auto/cross), in ONE entry point, for ONE scheduler / overlap request / window kind /
# input layout, or only on the second call, violates it for that configuration only.  Every analysis-level case of this stream draws its
# options from ONE generator that walks through all (backend, order, auto/cross) branches on every run and cycles the other axes over the
# run and across seeds; each case gets ALL predicates of this module: window sums and ENBW of every bin, the raw statistics against the
# estimator's definition (extended precision) with the derived ps / density identities, the scaling law for one pair of factors, the
# fs relabelling, the other backend under otherwise identical options, and a second call (same analyzer / same input array).
ENTRIES = ["analyzer", "single-method", "compute_spectrum", "single-method-fres", "lpsd", "single-func", "single-fres"]
PLAN_ENTRIES = ("analyzer", "compute_spectrum", "lpsd")
SCHED6 = ["lpsd", "welch", "ltf", "revisit", "vectorized_ltf", "new_ltf"]
OLAP_FORMS = ["omit", "float", "zero", "default", "high"]
WINS = ["kaiser", "hann", "flattop", "ramp", "default", "hft95", "np_kaiser", "blackman", "neglobe", "sp_kaiser"]
RECS = ["drift", "offset", "tone", "red", "noise"]
LAY_X = ["2xN", "Nx2", "list", "2xN-F"]
LAY_A = ["1d", "list", "strided", "1d"]
RAW_FIELDS = ("f", "L", "K", "XX", "YY", "XY", "S12", "S2", "M2", "ENBW")


def make_sched(spec: str):
    """user schedulers (the analyzer accepts callables).  'welch:L': ONE fixed segment length, hop max(1, floor((1-olap) L)), bins at fractional
    positions; 'revisit:L1:L2': bins with segment lengths L1, L2 and L1 AGAIN (a length listed again after a different one: a window / basis /
    buffer kept from the previous length shows).  Built-in names are returned unchanged."""
    parts = str(spec).split(":")
    if parts[0] not in ("welch", "revisit"):
        return spec
    Ls = [int(parts[1])] if parts[0] == "welch" else [int(parts[1]), int(parts[2]), int(parts[1])]

    def plan(N, fs, olap, bmin=1.0, Lmin=1, Jdes=12, Kdes=1, **kw):
        per = int(min(8, max(2, int(Jdes) // len(Ls))))
        f, Lv, D = [], [], []
        for g, L in enumerate(Ls):
            L = int(min(L, N))
            hop = max(1, int(math.floor((1.0 - float(olap)) * L)))
            d = np.arange(0, int(N) - L + 1, hop, dtype=np.int64)
            lo = min(max(float(bmin), 1.0) + 0.37 + 0.21 * g, L / 4)
            for m_ in np.linspace(lo, max(lo, L / 2 - 1.2), per):
                f.append(float(fs) * float(m_) / L)
                Lv.append(L)
                D.append(d.copy())
        Lv = np.array(Lv, dtype=np.int64)
        f = np.array(f, dtype=float)
        r = float(fs) / Lv
        K = np.array([len(d) for d in D], dtype=np.int64)
        return {"f": f, "r": r, "b": f / r, "L": Lv, "K": K, "navg": K.copy(), "D": D, "O": np.full(len(f), float(olap))}
    plan.__name__ = "user_plan_" + "_".join(parts)
    return plan


def gen_opt(rng: np.random.Generator, i: int, s: int, thorough: bool) -> Dict[str, Any]:
    """case i of a run with seed s: (backend, order, auto/cross) = branch i mod 16 of the dispatch; entry points with period 7, schedulers 6,
    overlap request forms 5, window kinds 7, layouts 4, record kinds 5 (offsets chosen so that the combinations differ between rounds and seeds)"""
    k = i // 16
    backend = ["numpy", ["numba", "auto", None][(k + s) % 3]][i % 2]
    order = [-1, 0, 1, 2][(i // 2) % 4]
    cross = bool((i // 8) % 2)
    entry = ENTRIES[(i + 3 * s) % 7]
    single = entry not in PLAN_ENTRIES
    N = int(rng.integers(200, 4000 if thorough else 1600))
    fs = float(rng.choice([1.0, 2.0, 1000.0, float(10 ** rng.uniform(-2, 4))]))
    wn = WINS[(i + i // 7 + s) % len(WINS)]
    psll = float(rng.choice([60.0, 200.0, float(rng.uniform(60, 200)), float(rng.uniform(40, 200))])) if win_table().get(wn, (0, 0, False))[2] else None
    olf = OLAP_FORMS[(i + 2 * s) % 5]
    c: Dict[str, Any] = {"kind": "opt", "i": i, "dseed": int(rng.integers(0, 2 ** 31)), "fs": fs, "cross": cross, "order": order, "backend": backend,
                         "entry": entry, "win": wn, "psll": psll, "layout": (LAY_X if cross else LAY_A)[(i + k + s) % 4],
                         "rec": [RECS[(i + s) % 5], RECS[(i // 5 + 2 + s) % 5]]}
    q = (i // 7) * 3 + {0: 0, 2: 1, 4: 2}.get((i + 3 * s) % 7, 0)
    sched = SCHED6[(q + s) % 6]
    if single:
        L = int(round(math.exp(rng.uniform(math.log(8), math.log(min(N, 700))))))
        L = max(2, min(N, 2 * (L // 2) + (i + k) % 2))                 # both parities, alternating
        km = (i + k) % 3
        if km == 0:
            N = L                                                      # one segment
        elif km == 1:
            N = L + max(1, L // 3)                                     # two segments for overlaps around 0.5, one for small overlaps
        elif olf == "zero" and rng.random() < 0.6:
            N = L * int(rng.integers(2, 6))                            # record a multiple of the segment length, no overlap
        elif olf == "high":
            N = min(N, L + 400)
        if entry in ("single-fres", "single-method-fres") and not fres_gives(fs, L):
            entry = c["entry"] = "single-func" if entry == "single-fres" else "single-method"
        c["frac"] = bool(entry in ("single-fres", "single-method-fres") and (i // 7) % 2 and int(round(float(fs) / (float(fs) / (L + 0.3)))) == L)
        c.update(L=L, f0=float(fs * rng.uniform(0.03, 0.47)))
    else:
        c.update(Jdes=int(rng.integers(4, 24)), Kdes=int(rng.choice([1, 2, 5, 20])), bmin=float(rng.choice([1.0, 1.0, 2.0, 3.5])),
                 Lmin=int(rng.choice([1, 1, 8])), f0=float(fs * rng.uniform(0.03, 0.47)))
        if sched == "welch":
            if olf == "high":
                N = min(N, 500)
            L = int(rng.integers(max(8, N // 8), max(10, N // 2)))
            L = 2 * (L // 2) + (i + k) % 2
            if olf == "zero" and rng.random() < 0.6:
                N = L * int(rng.integers(2, 6))
            sched, c["Lmin"] = f"welch:{L}", 1
        elif sched == "revisit":
            L1 = int(rng.integers(16, max(18, N // 5)))
            L2 = int(rng.integers(max(20, N // 4), max(22, N // 2)))
            if rng.random() < 0.3 and N >= 1024:
                L1, L2 = 256, 1024
            sched, c["Lmin"] = f"revisit:{L1}:{L2}", 1
        c["sched"] = sched
    if olf == "high" and not (single or str(c.get("sched", "")).startswith("welch")):
        olf = "float"
    if olf == "high":                                                  # (1 - olap) * L < 1
        Lh = c["L"] if single else int(c["sched"].split(":")[1])
        olap: Any = 1.0 - 0.5 / Lh
    else:
        olap = {"omit": "omit", "default": "default", "zero": 0.0}.get(olf, float(rng.choice([0.3, 0.5, 0.75, float(rng.uniform(0.05, 0.9))])))
    pk = (i + k) % 4
    if pk == 0:
        pair = [float(10 ** rng.uniform(-9, -3)), 1.0] if rng.random() < 0.5 else [1.0, float(10 ** rng.uniform(3, 9))]
    elif pk == 1:
        pair = [float(2.0 ** int(rng.integers(-20, 21))), float(2.0 ** int(rng.integers(-20, 21)))]
    elif pk == 2:
        pair = [float(rng.choice([3.7, 0.013, 41.0])), float(10 ** rng.uniform(-3, 3))]
    else:
        pair = [float(2.0 ** int(rng.integers(1, 30))), 1.0] if rng.random() < 0.5 else [1.0, float(2.0 ** -int(rng.integers(1, 30)))]
    c.update(N=int(N), olap=olap, olap_form=olf, pair=pair, fsfac=[2.0, 3.3, 0.5, float(10 ** rng.uniform(-2, 2))][(i // 4 + k) % 4],
             steps=["ref", "repeat", "other", "scale", "fs", "tone"])
    return c


def _opt_single(c) -> bool:
    return c["entry"] not in PLAN_ENTRIES


def _opt_data(c: Dict[str, Any]) -> Tuple[np.ndarray, Optional[np.ndarray]]:
    r = np.random.default_rng(c["dseed"])
    N = int(c["N"])

    def rec(kind: str) -> np.ndarray:
        if kind == "ramptone":      # a tone at the analysed frequency whose level rises along the record, on an offset, plus noise:
            t = np.arange(N)        # every segment contributes differently, so a segment (or a block of segments) lost, repeated or misplaced shows
            return (0.2 + 1.8 * t / max(N - 1, 1)) * np.cos(2 * np.pi * (float(c["f0"]) / float(c["fs"])) * t + 0.7) + 0.3 * r.standard_normal(N) + 2.5
        return _an.record(r, N, kind)
    x1 = rec(c["rec"][0])
    if not c["cross"]:
        return x1, None
    return x1, 0.5 * np.roll(x1, 3) + rec(c["rec"][1])


def _opt_input(c: Dict[str, Any], x1: np.ndarray, x2: Optional[np.ndarray]):
    """the object handed to the library (never the oracle's own arrays: they are compared with it afterwards)"""
    lay = c["layout"]
    if x2 is None:
        if lay == "list":
            return x1.tolist()
        if lay == "strided":
            big = np.zeros(2 * len(x1))
            big[::2] = x1
            return big[::2]
        return x1.copy()
    d = np.vstack([x1, x2])
    if lay == "Nx2":
        return np.ascontiguousarray(d.T)
    if lay == "2xN-F":
        return np.asfortranarray(d)
    if lay == "list":
        return [x1.tolist(), x2.tolist()]
    return d


def _opt_untouched(c, data, x1, x2) -> bool:
    a = np.asarray(data, dtype=float)
    if x2 is None:
        return a.shape == x1.shape and np.array_equal(a, x1)
    if a.shape[0] != 2:
        a = a.T
    return a.shape == (2, len(x1)) and np.array_equal(a[0], x1) and np.array_equal(a[1], x2)


def _opt_refwin(c: Dict[str, Any]):
    cache: Dict[int, np.ndarray] = {}

    def rw(L: int) -> np.ndarray:
        if L not in cache:
            cache[L] = _an.window("kaiser", L, 200.0) if c["win"] == "default" else ref_window(c["win"], L, c["psll"])
        return cache[L]
    return rw


def _opt_kwargs(c: Dict[str, Any], backend="keep") -> Dict[str, Any]:
    o: Dict[str, Any] = {"order": int(c["order"])}
    be = c.get("backend") if backend == "keep" else backend
    if be is not None:
        o["backend"] = be
    if c["win"] != "default":                       # "default": neither win nor psll is passed (np.kaiser, psll 200)
        o.update(win_opts(c["win"], c["psll"]))
    if c["olap"] != "omit":
        o["olap"] = c["olap"]
    if not _opt_single(c):
        o.update(Jdes=int(c["Jdes"]), Kdes=int(c["Kdes"]), bmin=float(c["bmin"]), Lmin=int(c["Lmin"]), scheduler=make_sched(c["sched"]))
    return o


def _opt_run(c: Dict[str, Any], data, fs: float, a: float = 1.0, backend="keep"):
    """(result, again, analyzer or None): the analysis through the case's entry point with the sampling rate a*fs; again() repeats it — on the SAME analyzer where
    the entry point has one (for single-method after an analysis with another segment length in between), else by the same call on the same input"""
    import speckit
    o = _opt_kwargs(c, backend)
    e = c["entry"]
    fsu = float(a) * float(fs)
    f0 = float(a) * float(c["f0"])
    if e == "analyzer":
        an = speckit.SpectrumAnalyzer(data, fsu, **o)
        return an.compute(), an.compute, an
    if e in ("compute_spectrum", "lpsd"):
        fn = getattr(speckit, e)
        return fn(data, fsu, **o), (lambda: fn(data, fsu, **o)), None
    L = int(c["L"])
    if e == "single-func":
        return speckit.compute_single_bin(data, fsu, f0, L=L, **o), (lambda: speckit.compute_single_bin(data, fsu, f0, L=L, **o)), None
    fres = fsu / (L + 0.3) if c.get("frac") else fsu / L       # "frac": a requested resolution that is not fs/L; the analysis still uses L samples
    if e == "single-fres":
        return speckit.compute_single_bin(data, fsu, f0, fres=fres, **o), (lambda: speckit.compute_single_bin(data, fsu, f0, fres=fres, **o)), None
    an = speckit.SpectrumAnalyzer(data, fsu, **o)
    if e == "single-method":
        def again():
            an.compute_single_bin(0.9 * f0, L=max(1, L // 2 + 1))
            return an.compute_single_bin(f0, L=L)
        return an.compute_single_bin(f0, L=L), again, an
    return an.compute_single_bin(f0, fres=fres), (lambda: an.compute_single_bin(f0, fres=fres)), an


def _spread_bins(res, cap: int = 8) -> List[int]:
    """bins spread over the WHOLE result: both ends, interior points, and bins whose segment length was listed before a different one"""
    nb = len(res.f)
    if nb <= cap:
        return list(range(nb))
    Ls = [int(v) for v in res.L]
    pick = [0, nb - 1]
    seen: Dict[int, int] = {}
    for j, l in enumerate(Ls):
        if l in seen and Ls[j - 1] != l and len(pick) < 4:
            pick.append(j)
        seen[l] = j
    pick += [nb // 2, nb - 2, 1, nb // 3, (2 * nb) // 3, nb // 5, (4 * nb) // 5]
    out: List[int] = []
    for j in pick:
        if 0 <= j < nb and j not in out:
            out.append(j)
    return sorted(out[:cap])


def _opt_sig(c: Dict[str, Any], sub: str, **kw) -> Dict[str, Any]:
    return dict({"subclaim": sub, "order": int(c["order"]), "backend": c.get("backend"), "path": "single" if _opt_single(c) else "plan",
                 "cross": bool(c["cross"])}, **kw)


def _opt_brief(c: Dict[str, Any]) -> str:
    return (f"{c['entry']}" + (f"(L={c['L']}, f={c['f0']!r})" if _opt_single(c) else f"({c['sched']}, Jdes={c['Jdes']}, Kdes={c['Kdes']})")
            + f", backend={c.get('backend')!r}, order {c['order']}, {'two channels' if c['cross'] else 'one channel'} ({c['layout']}), N={c['N']}, fs={c['fs']!r}, "
              f"win={c['win']}" + (f"(psll={c['psll']})" if c["psll"] is not None else "") + f", olap={c['olap']!r}")


def _window_checks(P: C.Part, c, res, rw, fs: float, sums: Dict[int, Tuple[float, float, float]]) -> bool:
    """S12 = (sum w)^2, S2 = sum w^2, ENBW = fs*S2/S1^2 of EVERY bin against the independently built window (1e-10, as in the calibration stream)"""
    LL = np.asarray(res.L)
    S12o, S2o, Eo = np.asarray(res.S12, dtype=float), np.asarray(res.S2, dtype=float), np.asarray(res.ENBW, dtype=float)
    for j in range(len(LL)):
        L = int(LL[j])
        if L not in sums:
            wl = rw(L).astype(LD)
            sums[L] = (float(wl.sum()), float((wl * wl).sum()), float(np.abs(wl).sum()))
        S1, S2, Sa = sums[L]
        if not abs(S1) > 1e-9 * Sa:
            P.hit("opt.zero-sum-window")
            continue
        for nm, ob, ex in (("S12", float(S12o[j]), S1 * S1), ("S2", float(S2o[j]), S2), ("ENBW", float(Eo[j]), fs * S2 / (S1 * S1))):
            if nm == "ENBW":
                tight("ENBW rel.dev/1e-10", abs(ob - ex) / (1e-10 * abs(ex)))
            if not abs(ob - ex) <= 1e-10 * abs(ex):
                viol(P, f"{nm}[{j}] = {ob!r} but the {c['win']} window (psll={c['psll']}) of length L={L} gives {ex!r}"
                        + (" = fs*sum(w^2)/(sum w)^2" if nm == "ENBW" else "") + f"; bin {j} of {len(LL)}; {_opt_brief(c)}",
                     _opt_sig(c, "enbw" if nm == "ENBW" else "window", field=nm), c, observed=ob, expected=ex, bin=j)
                return False
    return True


def _ref_checks(P: C.Part, c, res, x1, x2, rw, fs: float, bins: List[int], sums) -> bool:
    """the raw statistics of the chosen bins against the estimator's definition on the result's own plan (extended precision), and the
    identities that turn them into calibrated quantities: ps = psd*ENBW = 2*XX/S1^2, Gxy = csd = 2*XY/(fs*S2), cs = Gxy*ENBW"""
    order = int(c["order"])
    good = True
    spent, cap = 0, int(c.get("ref_cap", 1_600_000)) // (2 if x2 is not None else 1)
    for t, j in enumerate(bins):
        if full(P):
            return good
        L = int(res.L[j])
        D = [int(d) for d in res.D[j]]
        if t >= 1 and j != bins[-1] and spent + L * len(D) > cap:       # extended-precision work of this case is capped (ends always evaluated)
            P.hit("opt.ref-bin-skipped(cost)")
            continue
        spent += L * len(D)
        w = rw(L)
        S1, S2, Sa = sums[L]
        omega = 2.0 * np.pi * float(res.f[j]) / float(fs)
        XXr, YYr, XYr, a, b = ref_bin_fast(x1, x2, D, L, w, omega, order)
        tXX, tYY, tXY, _ = _an.bin_tol(L, omega, a, b, order)
        sig = _opt_sig(c, "estimator")
        where = f"bin {j} of {len(res.f)} (L={L}, K={len(D)}, f={float(res.f[j])!r}); {_opt_brief(c)}"
        rows = [("XX", float(res.XX[j]), XXr, tXX)]
        if x2 is not None:
            rows += [("YY", float(res.YY[j]), YYr, tYY), ("XY", complex(res.XY[j]), XYr, tXY)]
        bad = False
        for nm, ob, ex, tl in rows:
            if tl > 0:
                tight("estimator |XX-ref|/tol" if nm == "XX" else f"estimator |{nm}-ref|/tol", abs(ob - ex) / tl)
            if not abs(ob - ex) <= tl:
                viol(P, f"{nm}[{j}] = {ob!r} but the windowed-DFT definition on the result's own segments gives {ex!r} (tol {tl:.3g}); {where}",
                     dict(sig, field=nm), c, observed=ob, expected=ex, tol=tl, bin=j)
                bad = True
                break
        if bad:
            good = False
            continue
        if not abs(S1) > 1e-9 * Sa:
            continue
        S12 = S1 * S1
        en = float(res.ENBW[j])
        if x2 is None:
            pso, pp = float(res.ps[j]), float(res.psd[j]) * en
            if not abs(pso - pp) <= 4 * U * abs(pp):
                viol(P, f"ps[{j}] = {pso!r} but psd*ENBW = {pp!r}; {where}", _opt_sig(c, "ps=psd*ENBW"), c, observed=pso, expected=pp, bin=j)
                good = False
            chk = [("x", pso, XXr, tXX)]
        else:
            chk = [("x", float(res.Gxx[j]) * en, XXr, tXX), ("y", float(res.Gyy[j]) * en, YYr, tYY)]
        for nm, pso, Xr, tX in chk:
            psr, tps = 2 * Xr / S12, 2 * tX / S12
            if not abs(pso - psr) <= tps + 1e-12 * psr:
                viol(P, f"power spectrum (density*ENBW) of channel {nm} = {pso!r} but 2*XX/S1^2 of the reference estimator = {psr!r}; {where}",
                     _opt_sig(c, "ps-vs-ref", channel=nm), c, observed=pso, expected=psr, tol=tps, bin=j)
                good = False
        if x2 is not None:
            kq = 2.0 / (fs * S2)
            for nm, ob, ex_, tl in (("Gxy", complex(res.Gxy[j]), kq * XYr, kq * tXY + 1e-12 * kq * abs(XYr)),
                                    ("csd", complex(res.csd[j]), kq * XYr, kq * tXY + 1e-12 * kq * abs(XYr)),
                                    ("cs", complex(res.cs[j]), 2 * XYr / S12, 2 * tXY / S12 + 1e-12 * abs(XYr) / S12)):
                if not abs(ob - ex_) <= tl:
                    viol(P, f"{nm}[{j}] = {ob!r} but the definition (2*XY/(fs*S2), times ENBW for cs) on the reference estimator gives {ex_!r} "
                            f"(tol {tl:.3g}); {where}", _opt_sig(c, "cross-density", field=nm), c, observed=ob, expected=ex_, tol=tl, bin=j)
                    good = False
                    break
    return good


def _same_raw(P: C.Part, c, a, b, what: str, sub: str) -> None:
    """two runs of the SAME computation (same code path, same input): bit-identical; a last-digit difference is counted unstable"""
    for nm in RAW_FIELDS + ("D",):
        if nm == "D":
            same = len(a.D) == len(b.D) and all(np.array_equal(p, q) for p, q in zip(a.D, b.D))
            near = False
        else:
            u, v = np.asarray(getattr(a, nm)), np.asarray(getattr(b, nm))
            same = u.shape == v.shape and np.array_equal(u, v)
            near = (not same) and u.shape == v.shape and bool(np.all(np.abs(u - v) <= 1e-12 * np.maximum(np.abs(u), np.abs(v))))
        if same:
            continue
        if near:
            P.unstable += 1
            P.hit("opt.repeat-last-digit")
            continue
        if nm == "D":
            txt = "segment starts differ"
        else:
            j = int(np.argmax(np.abs(u - v))) if u.shape == v.shape and u.size else 0
            txt = f"{nm}[{j}] = {u[j].item()!r} then {v[j].item()!r}" if u.shape == v.shape and u.size else f"{nm} has shapes {u.shape} / {v.shape}"
        viol(P, f"{what}: {txt}; {_opt_brief(c)}", _opt_sig(c, sub, field=nm), c)
        return


def _tone_check(P: C.Part, c: Dict[str, Any], base, rw, fs: float, sums) -> None:
    """the calibration statement through THIS case's entry point and options: a sinusoid (two, for two channels) at the frequency of one bin of
    the case's own plan; density*ENBW of that bin = 2*XX/S1^2 of the reference estimator (every order) and = A^2/2 within the proved bound for
    orders -1, 0 (r = rho + 2*rho0 measured from the window actually used, rebuilt independently; any window with sum w > 0 — Lemmas/Sinusoid,
    Calib0), cross spectrum = (AB/2) e^{i dphi} for order -1.  The bin is the one with the smallest r among up to five spread over the plan
    that lie at least 2.5 bins from 0 and from Nyquist."""
    order = int(c["order"])
    nb = len(base.f)
    cand = [j for j in range(nb) if int(base.L[j]) >= 12 and 2.5 <= float(base.f[j]) * int(base.L[j]) / fs <= int(base.L[j]) / 2 - 2.5]
    if not cand:
        P.hit("opt.tone.no-bin-away-from-0-and-Nyquist")
        return
    if len(cand) > 5:
        cand = sorted({cand[(k_ * (len(cand) - 1)) // 4] for k_ in range(5)})
    best = None
    for j in cand:
        L = int(base.L[j])
        S1, _, Sa = sums[L]
        if not S1 > 1e-9 * Sa:
            continue
        w0 = omega_of(float(base.f[j]), fs)
        rho = abs(win_transform(rw(L), 2 * w0)) / S1
        rho0 = abs(win_transform(rw(L), w0)) * dirichlet_abs(L, w0) / (L * S1) if order == 0 else 0.0
        if best is None or rho + 2 * rho0 < best[1]:
            best = (j, rho + 2 * rho0, rho, rho0, w0)
    if best is None:
        P.hit("opt.tone.no-bin-with-positive-window-sum")
        return
    j, rr, rho, rho0, w0 = best
    r = np.random.default_rng(int(c["dseed"]) + 17)
    A, phi, B, phi2 = float(10 ** r.uniform(-2, 2)), float(r.uniform(0, 2 * np.pi)), float(10 ** r.uniform(-2, 2)), float(r.uniform(0, 2 * np.pi))
    N = int(c["N"])
    xt = tone(N, A, w0, phi)
    yt = tone(N, B, w0, phi2) if c["cross"] else None
    L = int(base.L[j])
    where = (f"sinusoid of amplitude {A:.6g} at the frequency of bin {j} of {nb} (f={float(base.f[j])!r}, L={L}, bin position {float(base.f[j]) * L / fs:.3f}, "
             f"K={int(base.K[j])}); {_opt_brief(c)}")
    P.cases += 1
    try:
        rt = _opt_run(c, _opt_input(c, xt, yt), fs)[0]
    except Exception as ex:  # noqa
        viol(P, f"{where}: analysis raised {ex!r} although the one of the other record succeeded", _opt_sig(c, "calibration", raises=True), c, tone=[j, A, phi, B, phi2])
        return
    if not _same_plan(base, rt) or not np.array_equal(base.f, rt.f) or not np.array_equal(base.ENBW, rt.ENBW):
        viol(P, f"{where}: the plan (f, L, K, D) or ENBW changed with the data", _opt_sig(c, "scale-channel", field="plan"), c, tone=[j, A, phi, B, phi2])
        return
    D = [int(d) for d in rt.D[j]]
    w = rw(L)
    S1, S2, _ = sums[L]
    S12 = S1 * S1
    omega = 2.0 * np.pi * float(rt.f[j]) / float(fs)
    en = float(rt.ENBW[j])
    P.hit("opt.tone.bound-checked" if order in (-1, 0) else "opt.tone.ref-only(order>=1)")
    if rr < 0.05:
        P.nontrivial.add(("tone", c.get("backend"), order, bool(c["cross"]), c["entry"], c["win"], L % 2, min(len(D), 3)))
    else:
        P.hit("opt.tone.r>=0.05(weak)")
    for nm, z, amp in ([("x", xt, A)] + ([("y", yt, B)] if yt is not None else [])):
        XXr, _, _, a, _ = ref_bin_fast(z, None, D, L, w, omega, order)
        tXX = _an.bin_tol(L, omega, a, a, order)[0]
        pso = float(rt.ps[j]) if yt is None else float((rt.Gxx if nm == "x" else rt.Gyy)[j]) * en
        psr, tps = 2 * XXr / S12, 2 * tXX / S12
        if not abs(pso - psr) <= tps + 1e-12 * psr:
            viol(P, f"{where}: power spectrum (density*ENBW) of channel {nm} = {pso!r} but 2*XX/S1^2 of the reference estimator = {psr!r} "
                    f"(S1 = sum w of the independently rebuilt {c['win']} window)", _opt_sig(c, "ps-vs-ref", channel=nm), c, observed=pso, expected=psr,
                 tol=tps, tone=[j, A, phi, B, phi2])
            continue
        if order in (-1, 0):
            tgt = amp * amp / 2
            bound = tgt * (2 * rr + rr * rr) + tps + 1e-9 * tgt
            tight(f"calibration(order {order}) |ps-A^2/2|/bound", abs(pso - tgt) / bound)
            if not abs(pso - tgt) <= bound:
                viol(P, f"{where}: power spectrum of channel {nm} = {pso!r}, expected A^2/2 = {tgt!r} within {bound:.3g} (rho={rho:.3g}, rho0={rho0:.3g})",
                     _opt_sig(c, "calibration", channel=nm), c, observed=pso, expected=tgt, tol=bound, tone=[j, A, phi, B, phi2])
    if yt is not None and order == -1 and not full(P):
        _, _, _, a, b = ref_bin_fast(xt, yt, D, L, w, omega, order)
        tXY = _an.bin_tol(L, omega, a, b, order)[2]
        tgt = A * B / 2 * complex(math.cos(phi - phi2), math.sin(phi - phi2))
        bound = abs(tgt) * (2 * rho + rho * rho) + 2 * tXY / S12 + 1e-9 * abs(tgt)
        tight("cross spectrum |cs-(AB/2)e^{i dphi}|/bound", abs(complex(rt.cs[j]) - tgt) / bound)
        if not abs(complex(rt.cs[j]) - tgt) <= bound:
            viol(P, f"{where} and one of amplitude {B:.6g} (phase difference {phi - phi2:.4f}) in the other channel: cross spectrum cs = {complex(rt.cs[j])!r}, "
                    f"expected (AB/2)e^(i dphi) = {tgt!r} within {bound:.3g}", _opt_sig(c, "cross-calibration"), c, observed=complex(rt.cs[j]), expected=tgt,
                 tone=[j, A, phi, B, phi2])


def check_opt(P: C.Part, c: Dict[str, Any]) -> None:
    remember(c)
    x1, x2 = _opt_data(c)
    fs = float(c["fs"])
    order = int(c["order"])
    single = _opt_single(c)
    steps = c.get("steps", ["ref", "repeat", "other", "scale", "fs", "tone"])
    rw = _opt_refwin(c)
    data = _opt_input(c, x1, x2)
    other_be = "numba" if c.get("backend") == "numpy" else "numpy"
    P.cases += 1
    if not single and len(x1) >= 4000:
        # long records: a scheduler may answer a small Jdes with tens of thousands of bins (new_ltf: 25 153 bins for N = 70 001, Jdes = 12, Kdes = 2,
        # minutes of work): the work of the plan (sum of K*L) is looked at first and such a case is left out
        try:
            import speckit
            pl = speckit.SpectrumAnalyzer(x1 if x2 is None else np.vstack([x1, x2]), fs, **_opt_kwargs(c)).plan()
            work = float(np.sum(np.asarray(pl["K"], dtype=float) * np.asarray(pl["L"], dtype=float)))
        except Exception:  # noqa  (handled below, where the analysis itself is run)
            work = 0.0
        if work > float(c.get("work_cap", 6e7)):
            P.hit("opt.plan-too-much-work(skipped)")
            P.notes.append(f"left out (sum K*L = {work:.3g}): {_opt_brief(c)}")
            return
    try:
        base, again, an = _opt_run(c, data, fs)
    except Exception as ex:  # noqa
        if single:
            viol(P, f"single-bin analysis raised {ex!r}; {_opt_brief(c)}", _opt_sig(c, "calibration", raises=True), c)
            return
        # a plan the scheduler / validation rejects is C02's business — unless the other backend accepts the very same options
        try:
            _opt_run(c, _opt_input(c, x1, x2), fs, backend=other_be)
        except Exception:  # noqa
            P.hit("opt.plan-raised")
            return
        viol(P, f"analysis raised {ex!r} but runs with backend={other_be!r} under otherwise identical options; {_opt_brief(c)}",
             _opt_sig(c, "backend-agreement", raises=True), c)
        return
    nb = len(base.f)
    if c.get("expect_K") is not None:
        P.hit("size.K as planned" if int(base.K[0]) == int(c["expect_K"]) else "size.K differs from the planned one")
    nL = len(set(int(v) for v in base.L))
    if int(np.max(base.K)) > 8000 or len(x1) > 8000 or nb > 500 or nL > 256:
        for key, on in (("size.K>8000", int(np.max(base.K)) > 8000), ("size.N>8000", len(x1) > 8000 and not single), ("size.bins>500", nb > 500),
                        ("size.distinct-L>256", nL > 256)):
            if on:
                P.hit(key)
        P.nontrivial.add(("size", int(np.max(base.K)), int(np.max(base.L)), nb, nL, len(x1), c.get("backend"), order, bool(c["cross"])))
    tag = f"{c.get('backend')}.order{order}.{'cross' if c['cross'] else 'auto'}"
    P.hit(f"opt.branch.{tag}")
    P.hit(f"opt.entry.{c['entry']}")
    P.hit(f"opt.olap.{c.get('olap_form')}")
    P.hit(f"opt.win.{c['win']}")
    P.hit(f"opt.layout.{c['layout']}")
    if not single:
        P.hit(f"opt.sched.{str(c['sched']).split(':')[0]}")
    for j in range(min(nb, 64)):
        P.hit("opt.K=1" if int(base.K[j]) == 1 else ("opt.K=2" if int(base.K[j]) == 2 else "opt.K>=3"))
        P.hit("opt.L odd" if int(base.L[j]) % 2 else "opt.L even")
    if nb >= 1 and float(np.max(base.XX)) > 0:
        P.nontrivial.add(("opt", tag, c["entry"], None if single else str(c["sched"]).split(":")[0], c.get("olap_form"), c["win"], c["layout"],
                          min(nb, 3), int(base.L[0]) % 2, min(int(np.max(base.K)), 3)))
    if single and (int(base.L[0]) != int(c["L"]) or nb != 1 or float(base.f[0]) != float(c["f0"])):
        viol(P, f"single-bin result reports L={int(base.L[0])}, f={float(base.f[0])!r} for requested L={c['L']}, f={c['f0']!r}; {_opt_brief(c)}",
             _opt_sig(c, "calibration", field="L/f"), c)
        return
    N = len(x1)
    for j in range(nb):
        Dj = np.asarray(base.D[j])
        if Dj.size == 0 or int(Dj.min()) < 0 or int(Dj.max()) + int(base.L[j]) > N or int(base.K[j]) != Dj.size:
            viol(P, f"segment starts of bin {j} out of range or K != number of starts (L={int(base.L[j])}, N={N}); {_opt_brief(c)}",
                 _opt_sig(c, "calibration", field="D"), c, bin=j)
            return
    sums: Dict[int, Tuple[float, float, float]] = {}
    if not _window_checks(P, c, base, rw, fs, sums):
        return
    if "ref" in steps and not _ref_checks(P, c, base, x1, x2, rw, fs, _spread_bins(base, int(c.get("nref", 8))), sums):
        return
    if not _opt_untouched(c, data, x1, x2):
        viol(P, f"the analysis changed the caller's input array; {_opt_brief(c)}", _opt_sig(c, "input-untouched"), c)
        return
    # ---- a second call: same analyzer / same input array
    if "repeat" in steps and not full(P):
        P.cases += 1
        try:
            rep = again()
        except Exception as ex:  # noqa
            viol(P, f"the second call raised {ex!r} although the first succeeded; {_opt_brief(c)}", _opt_sig(c, "second-call", raises=True), c)
            return
        _same_raw(P, c, base, rep, "the same analysis run a second time (same analyzer / same input array) gives a different result", "second-call")
        if not _opt_untouched(c, data, x1, x2):
            viol(P, f"the second call changed the caller's input array; {_opt_brief(c)}", _opt_sig(c, "input-untouched"), c)
            return
        P.hit("opt.second-call")
        if an is not None and c["entry"] == "analyzer" and not full(P):
            jm = nb // 2
            P.cases += 1
            try:
                rs = an.compute_single_bin(float(base.f[jm]), L=int(base.L[jm]))
            except Exception as ex:  # noqa
                viol(P, f"compute_single_bin(f[{jm}], L=L[{jm}]) on the analyzer that just ran compute() raised {ex!r}; {_opt_brief(c)}",
                     _opt_sig(c, "second-call", raises=True), c)
                return
            if not (_window_checks(P, c, rs, rw, fs, sums) and _ref_checks(P, c, rs, x1, x2, rw, fs, [0], sums)):
                return
            P.hit("opt.single-after-compute")
    if full(P):
        return
    tx, ty, txy = _budgets(c, base, x1, x2, order, rw=rw)
    m = 2.5                                      # both runs carry their own rounding error (+ the rounding of c*x)
    T = _derived_tols(base, m * tx, m * (ty if x2 is not None else tx), m * (txy if x2 is not None else tx), 1e-9)
    enbw = np.asarray(base.ENBW)
    # ---- the other backend under otherwise identical options: same plan and window sums (backend-independent code), statistics within the
    #      kernels' rounding budgets (each backend is within bin_tol of the exact value, so two of them differ by at most 2 * bin_tol < m * bin_tol)
    if "other" in steps:
        P.cases += 1
        sig = _opt_sig(c, "backend-agreement")
        what = f"backend={other_be!r} against backend={c.get('backend')!r}; {_opt_brief(c)}"
        try:
            ro = _opt_run(c, _opt_input(c, x1, x2), fs, backend=other_be)[0]
        except Exception as ex:  # noqa
            viol(P, f"{what}: raised {ex!r} although the analysis with backend={c.get('backend')!r} succeeded", dict(sig, raises=True), c)
            ro = None
        if ro is not None:
            if not _same_plan(base, ro) or not all(np.array_equal(getattr(base, k_), getattr(ro, k_)) for k_ in ("f", "S12", "S2", "ENBW")):
                viol(P, f"{what}: the plan (f, L, K, D), the window sums or ENBW depend on the backend", dict(sig, field="plan"), c)
            else:
                for nm, ob, ex_, tl, mask in _pair_tests(base, ro, 1.0, 1.0, T, tx, enbw, x2 is None, same_path=False):
                    _cmp_arrays(P, c, sig, nm, ob, ex_, tl, False, what, mask=mask)
                P.hit("opt.other-backend")
    if full(P):
        return
    # ---- the scaling law for one pair of factors
    if "scale" in steps:
        cx, cy = float(c["pair"][0]), (float(c["pair"][1]) if x2 is not None else 1.0)
        if x2 is None and cx == 1.0:
            cx = float(c["pair"][1])
        P.cases += 1
        exact = all(math.frexp(v)[0] == 0.5 for v in (cx, cy))
        chan = "xy" if (cx != 1.0 and cy != 1.0) else ("x" if cx != 1.0 else "y")
        sig = _opt_sig(c, "scale-channel", channel=chan, exact=exact)
        what = f"channels multiplied by (cx, cy) = ({cx!r}, {cy!r}); {_opt_brief(c)}"
        try:
            r = _opt_run(c, _opt_input(c, cx * x1, None if x2 is None else cy * x2), fs)[0]
        except Exception as ex:  # noqa
            viol(P, f"{what}: analysis raised {ex!r} although the unscaled one succeeded", dict(sig, raises=True), c, factor=[cx, cy])
            r = None
        if r is not None:
            if not _same_plan(base, r) or not np.array_equal(base.f, r.f) or not np.array_equal(base.ENBW, r.ENBW):
                viol(P, f"{what}: the plan (f, L, K, D) or ENBW changed with the data scale", dict(sig, field="plan"), c, factor=[cx, cy])
            else:
                for nm, ob, ex_, tl, mask in _pair_tests(base, r, cx, cy, T, tx, enbw, x2 is None):
                    if ob is None or ex_ is None:
                        viol(P, f"{what}: attribute {nm} is None", dict(sig, field=nm), c, factor=[cx, cy])
                        continue
                    _cmp_arrays(P, c, sig, nm, ob, ex_, tl, exact, what, mask=mask, factor=[cx, cy])
                P.hit("opt.scale." + ("exact" if exact else "generic"))
    if full(P):
        return
    # ---- relabelling the sampling rate
    if "fs" in steps:
        a = float(c["fsfac"])
        P.cases += 1
        exact = math.frexp(a)[0] == 0.5
        sig = _opt_sig(c, "scale-fs", exact=exact)
        what = f"sampling rate relabelled fs -> {a!r}*fs; {_opt_brief(c)}"
        try:
            r = _opt_run(c, _opt_input(c, x1, x2), fs, a=a)[0]
        except Exception:  # noqa
            r = None
        if r is None or not _same_plan(base, r):
            # a rounding decision of the scheduler / of round(fs/fres) flipped: unstable, not a failure (the rate of such flips for powers of
            # two is watched by the fs stream)
            P.unstable += 1
            P.hit("opt.fs-plan-flipped")
        else:
            T4 = _derived_tols(base, 4.0 * tx, 4.0 * (ty if x2 is not None else tx), 4.0 * (txy if x2 is not None else tx), 1e-9)
            for nm, ob, ex_, tl, mask in _fs_tests(base, r, a, T4, x2 is None):
                _cmp_arrays(P, c, sig, nm, ob, ex_, tl, exact, what, mask=mask, factor=a)
            P.hit("opt.fs." + ("exact" if exact else "generic"))
    # ---- the calibration statement through this entry point, with this window / backend / order
    if "tone" in steps and not full(P):
        _tone_check(P, c, base, rw, fs, sums)
    P.sample({"op": "options", **{k_: c[k_] for k_ in ("entry", "backend", "order", "cross", "win", "olap", "layout", "N", "fs")},
              "sched": c.get("sched"), "L": c.get("L"), "bins": nb}, cap=3)


# ================================================================ (6) size thresholds
# "for any segment length", "for all records": code that works in blocks / chunks / buffers of c items (the NumPy kernels reduce a bin in chunks
# of 32768 / 16384 / 8192 segments; the CUDA heuristic switches at 1000 segments; a cache may hold a bounded number of windows) can be right
# below c and wrong beyond.  The constants are read from the CURRENT source (C.mined_sizes) and probed as a segment length, as a number of
# segments of one bin and as a record length; independent of what the miner sees, sizes well beyond the quick generator are run every time:
# single-bin calibration at L = 70 001 and L = 1 100 003, bins with 70 001 segments in every NumPy branch, plans with thousands of bins, records
# of 70 001 (and 1 100 003) samples — with the reference evaluated at positions spread over the whole result including its last bin.
SIZE_FILES = ["speckit/core.py", "speckit/analysis.py"]
CAL_ALWAYS = [70_001, 1_100_003]
CAL_MORE = [2 ** 16 + 1, 2 ** 17 + 3, 2 ** 16, 300_007, 2 ** 16 - 1, 2 ** 18 + 1, 2 ** 20 + 1, 2_100_001]
K_ALWAYS = 70_001
BE4 = [None, "numpy", "numba", "auto"]
BE3 = ["numba", "numpy", "auto"]


def mined_thresholds() -> List[int]:
    try:
        return [int(v) for v in C.mined_sizes(SIZE_FILES, lo=512, hi=2_200_000)]
    except Exception:  # noqa  (an unreadable source is the translator's business; the always-sizes still run)
        return []


def calib_at(rng: np.random.Generator, L: int, K: int, order: int, backend, cross: bool) -> Dict[str, Any]:
    """a calibration case (check_calib) with a prescribed segment length and K = 1 (N = L) or K = 2 (olap 0.5, N = L + L//3) segments"""
    psll = float(rng.choice([60.0, 100.0, 200.0, float(rng.uniform(60, 200))]))
    hw = hw_bins(psll)
    L = max(int(L), int(math.ceil(4 * (hw + 1.5))) + 1)
    m0 = float(rng.uniform(hw + 1.0, L / 2 - hw - 1.0))
    fs = float(rng.choice([1.0, 1000.0, 2.0]))
    return {"kind": "calib", "A": float(10 ** rng.uniform(-3, 3)), "phi": float(rng.uniform(0, 2 * np.pi)), "L": L, "N": L if K == 1 else L + L // 3,
            "fs": fs, "f0": m0 * fs / L, "psll": psll, "order": int(order), "olap": None if K == 1 else 0.5, "via": str(rng.choice(["func", "method"])),
            "cross": bool(cross), "B": float(10 ** rng.uniform(-3, 3)), "phi2": float(rng.uniform(0, 2 * np.pi)),
            "win": str(rng.choice(["kaiser", "np_kaiser"])), "backend": backend}


def opt_K_at(rng: np.random.Generator, K: int, order: int, backend, cross: bool, steps: List[str]) -> Dict[str, Any]:
    """one bin with exactly K segments (single-bin entry points: olap 0 and N = K*L, or olap 0.5, even L and N = L + (K-1)*L/2), on a record
    whose level changes along the record"""
    half = bool(rng.random() < 0.5)
    L = int(rng.choice([4, 6, 8])) if half else int(rng.integers(4, 8))
    N = L + (K - 1) * (L // 2) if half else K * L
    fs = float(rng.choice([1.0, 2.0, 1000.0]))
    wn = str(rng.choice(["hann", "kaiser", "ramp"]))
    return {"kind": "opt", "i": -1, "dseed": int(rng.integers(0, 2 ** 31)), "fs": fs, "cross": bool(cross), "order": int(order), "backend": backend,
            "entry": str(rng.choice(["single-func", "single-method"])), "win": wn, "psll": float(rng.uniform(60, 120)) if wn == "kaiser" else None,
            "layout": "2xN" if cross else "1d", "rec": ["ramptone", "ramptone"], "L": L, "f0": float(fs * rng.uniform(0.1, 0.4)), "frac": False,
            "N": int(N), "olap": 0.5 if half else 0.0, "olap_form": "float" if half else "zero", "pair": [float(2.0 ** int(rng.integers(-9, 10))), 4.0],
            "fsfac": 2.0, "steps": list(steps), "expect_K": int(K)}


def opt_plan_at(rng: np.random.Generator, N: int, Jdes: int, order: int, backend, cross: bool, sched: str, steps: List[str], nref: int,
                wins=("kaiser", "hann", "default")) -> Dict[str, Any]:
    fs = float(rng.choice([1.0, 2.0, 1000.0]))
    wn = str(rng.choice(list(wins)))
    return {"kind": "opt", "i": -1, "dseed": int(rng.integers(0, 2 ** 31)), "fs": fs, "cross": bool(cross), "order": int(order), "backend": backend,
            "entry": str(rng.choice(["analyzer", "compute_spectrum"])), "win": wn, "psll": float(rng.choice([200.0, 100.0, 60.0] if "default" in wins else [100.0, 60.0])) if wn == "kaiser" else None,
            "layout": "Nx2" if cross else "1d", "rec": [str(rng.choice(["drift", "offset", "red"])), "tone"], "f0": 0.1 * fs,
            "Jdes": int(Jdes), "Kdes": int(rng.choice([2, 5, 10])), "bmin": 1.0, "Lmin": 1, "sched": sched, "N": int(N),
            "olap": str(rng.choice(["omit", "default"])) if rng.random() < 0.5 else 0.5, "olap_form": "plan", "pair": [8.0, 0.25], "fsfac": 2.0,
            "steps": list(steps), "nref": int(nref), "work_cap": 3e8}


def size_cases(rng: np.random.Generator, s: int, big: bool):
    """yields (cost class, case): first the sizes run on every run, then the probes around the mined constants (rotated by the seed; all of
    them when `big`), then more large sizes"""
    o4 = [-1, 0, 1, 2]
    # --- always: calibration at L = 70 001 (K = 1 and K = 2) and L = 1 100 003
    yield "always", calib_at(rng, CAL_ALWAYS[0], 1, o4[s % 4], BE4[(s + 1) % 4], False)
    yield "always", calib_at(rng, CAL_ALWAYS[0], 2, o4[(s + 2) % 4], BE4[(s + 2) % 4], True)
    yield "always", calib_at(rng, CAL_ALWAYS[1], 1 + (s // 4) % 2, o4[(s + 1) % 4], ["numpy", "numba"][s % 2], False)
    # --- always: a bin with 70 001 segments in each of the six NumPy kernels (window only / mean / polynomial x auto / cross; the polynomial
    #     order alternates with the seed; all eight (order, auto/cross) pairs when `big`), against the definition and against Numba
    for t in range(8):
        if big or o4[t % 4] != (1 if s % 2 else 2):
            yield "always", opt_K_at(rng, K_ALWAYS + 2 * t, o4[t % 4], "numpy", t >= 4, ["ref", "other"] if not big else ["ref", "other", "repeat", "scale"])
    # --- always: a plan with about a thousand bins (every bin's window sums; the estimator at bins spread over the whole plan), and a record
    #     of 70 001 samples
    sch = _an.SCHEDS[s % 4]
    yield "always", opt_plan_at(rng, int(rng.integers(12_000, 20_000)) if big else int(rng.integers(5_000, 8_000)), 2003 + 500 * (s % 3), o4[(s + 3) % 4],
                                ["numba", "numpy"][(s // 2) % 2], bool(s % 2), sch, ["ref"] if not big else ["ref", "other", "scale", "repeat"], 6,
                                wins=("hann", "kaiser", "ramp", "blackman"))     # (windows whose sums are not proportional to L to 1e-10)
    sch3 = ["ltf", "lpsd", "vectorized_ltf"]                 # (new_ltf answers long records with tens of thousands of bins)
    yield "always", opt_plan_at(rng, 70_001, 24 if big else 12, o4[s % 4], ["numpy", "numba"][s % 2], bool((s // 2) % 2), sch3[(s + 1) % 3],
                                ["ref", "other"] if not big else ["ref", "other", "scale"], 5)
    # --- probes around the constants of the current source
    probes: List[Tuple[str, int]] = []
    for cst in sorted(mined_thresholds(), reverse=True):
        for d in (0, 1, -1, 17, cst + 3):
            for what in ("K", "L", "N"):
                probes.append((what, cst + d))
    rot = (7 * s) % max(len(probes), 1)
    for t, (what, v) in enumerate(probes[rot:] + probes[:rot]):
        order, be, cross = o4[(t + s) % 4], ["numpy", "numba", "numpy", "auto"][(t // 4 + s) % 4], bool((t // 2) % 2)
        if what == "K":
            yield "probe", opt_K_at(rng, v, order, "numpy", cross, ["ref", "other"])
        elif what == "L":
            yield "probe", calib_at(rng, v, 1 + t % 2, order, be, cross)
        else:
            yield "probe", opt_plan_at(rng, v, 16, order, be, cross, _an.SCHEDS[t % 4], ["ref", "other"], 4)
    # --- more large sizes (segments / records beyond 10^6 samples only when `big`: several seconds each)
    for t, L in enumerate(CAL_MORE):
        if big or L < 1_000_000:
            yield "more", calib_at(rng, L, 1 + t % 2, o4[(t + s) % 4], BE4[(t + s) % 4], t % 3 == 0)
    if big:
        yield "more", opt_plan_at(rng, 1_100_003, 8, o4[s % 4], ["numba", "numpy"][s % 2], False, sch3[s % 3], ["ref", "other"], 3)


# ================================================================ edge stream
def check_edges(P: C.Part) -> None:
    """degenerate records: a zero record has zero power spectrum (not NaN), scaling a zero record changes nothing"""
    import speckit
    for N, L in ((1, 1), (2, 2), (2, 1), (5, 3), (64, 16)):
        for order in (-1, 0):
            P.cases += 1
            c = {"kind": "edge", "N": N, "L": L, "order": order}
            try:
                r = speckit.compute_single_bin(np.zeros(N), 2.0, 0.5, L=L, order=order, win="kaiser", psll=100.0)
                ps, en = float(r.ps[0]), float(r.ENBW[0])
            except Exception as ex:  # noqa
                viol(P, f"zero record N={N}, L={L}: single-bin analysis raised {ex!r}", {"subclaim": "edge", "raises": True}, c)
                continue
            w = _an.window("kaiser", L, 100.0).astype(LD)
            ex_ = 2.0 * float((w * w).sum()) / float(w.sum()) ** 2
            if not (ps == 0.0 and abs(en - ex_) <= 1e-10 * ex_):
                viol(P, f"zero record N={N}, L={L}, order={order}: ps={ps!r} (expected 0 = A^2/2 with A=0), ENBW={en!r} (expected {ex_!r})",
                     {"subclaim": "edge", "field": "ps/ENBW"}, c)
            P.hit("edge.zero-record")
    for k in ("zero", "const"):
        P.cases += 1
        rr = np.random.default_rng(5)
        x = _an.record(rr, 300, k)
        y = _an.record(rr, 300, "noise")
        c = {"kind": "edge", "rec": k}
        try:
            a = _an.compute(np.vstack([x, y]), 1.0, order=0, Jdes=8, Kdes=2, win="hann")
            b = _an.compute(np.vstack([3.0 * x, y]), 1.0, order=0, Jdes=8, Kdes=2, win="hann")
        except Exception as ex:  # noqa
            viol(P, f"{k} first channel: analysis raised {ex!r}", {"subclaim": "edge", "raises": True}, c)
            continue
        if not (np.all(np.isfinite(b.coh)) and np.all(np.isfinite(np.abs(b.Hxy))) and np.array_equal(a.Gyy, b.Gyy)):
            viol(P, f"{k} first channel scaled by 3: coherence / transfer function not finite or Gyy changed", {"subclaim": "edge", "field": "coh/Hxy"}, c)
        P.hit(f"edge.{k}-channel")


# ================================================================ module interface
def correspondence(ctx) -> C.Part:
    """generated Lean attribute table (Float) vs the real SpectrumResult.__getattr__ on the attributes this property talks about"""
    P = C.Part()
    _an.attr_correspondence(ctx, P, NAMES, ctx.scale(40, 400))
    return P


CORPUS = [
    # the call-history witness of the seeded window-cache mutant (seeded/C06): same L, psll 200 then 60 then 120, same process
    {"kind": "calib", "A": 1.7, "phi": 0.4, "L": 400, "N": 6000, "fs": 2.0, "f0": 57.3 * 2.0 / 400, "psll": 200.0, "order": -1, "olap": None,
     "via": "method", "cross": False, "B": 1.0, "phi2": 0.0, "win": "kaiser"},
    {"kind": "calib", "A": 1.7, "phi": 0.4, "L": 400, "N": 6000, "fs": 2.0, "f0": 57.3 * 2.0 / 400, "psll": 60.0, "order": -1, "olap": None,
     "via": "method", "cross": False, "B": 1.0, "phi2": 0.0, "win": "kaiser"},
    {"kind": "calib", "A": 1.7, "phi": 0.4, "L": 400, "N": 6000, "fs": 2.0, "f0": 57.3 * 2.0 / 400, "psll": 120.0, "order": 0, "olap": 0.5,
     "via": "func", "cross": True, "B": 0.3, "phi2": 1.0, "win": "np_kaiser"},
    {"kind": "enbw", "N": 6000, "dseed": 7, "fs": 2.0, "opts": {"order": 0, "olap": 0.5, "Jdes": 20, "Kdes": 10, "bmin": 1.0, "Lmin": 1, "scheduler": "vectorized_ltf"},
     "seq": [["kaiser", 200.0], ["kaiser", 70.0], ["hann", None], ["np_kaiser", 120.0]], "cross": False, "rec": "noise", "single_L": 400},
    # records in micro-units / mega-units (seeded/C06c: exact zero guards of coh / ccoh / Hxy replaced by np.isclose(., 0), atol 1e-8):
    # one bin through compute_single_bin, and a full plan through compute_spectrum
    {"kind": "wscale", "N": 4000, "dseed": 11, "fs": 10.0, "opts": {"order": 0, "olap": 0.5, "Jdes": 20, "Kdes": 10, "bmin": 1.0, "Lmin": 1, "scheduler": "ltf"},
     "win": "kaiser", "psll": 120.0, "cross": True, "rec": ["noise", "noise"], "entry": "single-func", "layout": "2xN", "L": 500, "f0": 1.2345,
     "pairs": [[1e-6, 1e-6], [3e-5, 1.0], [1.0, 1e-9], [1e-7, 1e2], [1e6, 1e6], [2.0 ** -30, 2.0 ** -30], [2.0 ** 35, 1.0]]},
    {"kind": "wscale", "N": 3000, "dseed": 12, "fs": 1.0, "opts": {"order": 0, "olap": 0.5, "Jdes": 20, "Kdes": 10, "bmin": 1.0, "Lmin": 1, "scheduler": "lpsd"},
     "win": "hann", "psll": None, "cross": True, "rec": ["noise", "tone"], "entry": "compute_spectrum", "layout": "Nx2", "L": 300, "f0": 0.11,
     "pairs": [[1e-6, 1.0], [2e-5, 2e-5], [1e3, 1e-9], [1e12, 1e12], [1e-12, 1e-12], [2.0 ** -25, 1.0]]},
    # callable windows that take negative values (seeded/C06f: S1 computed as sum |w|, bit-identical for Kaiser / Hann, ENBW and ps off by ~27 % for
    # flat-top windows): HFT95 and scipy's flattop through the single-bin entry points, and all three through compute() and compute_single_bin
    {"kind": "calib", "A": 1.7, "phi": 0.4, "L": 1000, "N": 6000, "fs": 1000.0, "f0": 57.3, "psll": None, "order": 0, "olap": None,
     "via": "func", "cross": False, "B": 1.0, "phi2": 0.0, "win": "hft95"},
    {"kind": "calib", "A": 0.3, "phi": 2.1, "L": 257, "N": 700, "fs": 2.0, "f0": 31.4 * 2.0 / 257, "psll": None, "order": -1, "olap": 0.5,
     "via": "fres", "cross": True, "B": 2.0, "phi2": 0.7, "win": "flattop", "backend": "numpy"},
    {"kind": "enbw", "N": 3000, "dseed": 9, "fs": 1000.0, "opts": {"order": 1, "olap": 0.5, "Jdes": 16, "Kdes": 5, "bmin": 1.0, "Lmin": 1, "scheduler": "ltf"},
     "seq": [["hft95", None], ["flattop", None], ["neglobe", None]], "cross": False, "rec": "noise", "single_L": 300},
]

CHECKS = {"calib": check_calib, "enbw": check_enbw, "scale": check_scale, "wscale": check_wscale, "fs": check_fs, "fs_single": check_fs_single,
          "opt": check_opt}


def _blas_threads(n):
    """RUN-TIME ONLY (no predicate depends on it): set the thread count of every OpenBLAS loaded in this process (NumPy's, SciPy's), return the
    previous settings (pass them back to restore).  The NumPy backend multiplies small (K x L) matrices; on a machine shared with other checks
    OpenBLAS's spinning worker threads make each such product 100..1000 times slower (measured: 0.1 ms alone, 50..300 ms at load 80 on 16
    cores), which would eat the time shares of every stream that now runs the NumPy backend.  One thread is also what the products' sizes call
    for.  Any failure leaves the libraries as they are."""
    prev = []
    try:
        import ctypes
        paths = []
        with open("/proc/self/maps") as fh:
            for line in fh:
                q = line.split()[-1]
                if "openblas" in os.path.basename(q).lower() and q not in paths:
                    paths.append(q)
        want = dict(n) if isinstance(n, list) else None
        for path in paths:
            if want is not None and path not in want:
                continue
            lib = ctypes.CDLL(path)
            done = False
            for suf in ("64_", ""):
                for pre in ("scipy_openblas", "openblas"):
                    if not done and hasattr(lib, f"{pre}_set_num_threads{suf}") and hasattr(lib, f"{pre}_get_num_threads{suf}"):
                        prev.append((path, int(getattr(lib, f"{pre}_get_num_threads{suf}")())))
                        getattr(lib, f"{pre}_set_num_threads{suf}")(int(want[path] if want is not None else n))
                        done = True
    except Exception:  # noqa
        pass
    return prev


def oracle(ctx, intensive: bool = False, hints=()) -> C.Part:
    prev = _blas_threads(1)
    try:
        return _oracle(ctx, intensive, hints)
    finally:
        _blas_threads(prev)


def _oracle(ctx, intensive: bool = False, hints=()) -> C.Part:
    P = C.Part()
    STATS.clear()
    mult = 4 if intensive else 1
    for c in CORPUS:
        CHECKS[c["kind"]](P, c)
    check_edges(P)
    plan = [("calib", ctx.scale(600, 5000) * mult), ("enbw", ctx.scale(80, 600) * mult), ("scale", ctx.scale(80, 600) * mult),
            ("wscale", ctx.scale(36, 300) * mult), ("fs", ctx.scale(60, 450) * mult), ("fs_single", ctx.scale(40, 300) * mult)]
    total = float(sum(n for _, n in plan))
    t_all = max(30.0, min(ctx.time_left() - 20.0, (600.0 if ctx.thorough else 70.0) * mult))
    import time
    share = {"calib": 0.3, "enbw": 0.2, "scale": 0.3, "wscale": 0.1, "fs": 0.15, "fs_single": 0.05}
    seed = int(getattr(ctx, "seed", 0))
    big = bool(ctx.thorough or intensive)
    # ---- option combinations and entry points: every (backend, order, auto/cross) branch on every run (the first 16 cases are never cut)
    n_opt = ctx.scale(96, 960) * mult
    t0, cap = time.time(), (150.0 if ctx.thorough else 13.0) * mult
    for i in range(n_opt):
        if full(P):
            return P
        if i >= 16 and (time.time() - t0 > cap or ctx.time_left() < 60):
            P.notes.append(f"opt: time share reached after {i} of {n_opt} cases")
            break
        c = gen_opt(np.random.default_rng(int(ctx.rng.integers(0, 2 ** 62))), i, seed, ctx.thorough)
        t1 = time.time()
        check_opt(P, c)
        if time.time() - t1 > 4.0:
            P.notes.append(f"slow case ({time.time() - t1:.1f} s): {_opt_brief(c)}")
    spent = {"opt": time.time() - t0}
    # ---- size thresholds: the sizes of every run first, then probes around the constants of the current source, then more large sizes
    t0, cap = time.time(), (150.0 if ctx.thorough else 7.5) * mult
    n_size = 0
    for cls, c in size_cases(np.random.default_rng(int(ctx.rng.integers(0, 2 ** 62))), seed, big):
        if full(P):
            return P
        if cls != "always" and (time.time() - t0 > cap or ctx.time_left() < 60):
            P.notes.append(f"size: time share reached after {n_size} cases")
            break
        t1 = time.time()
        CHECKS[c["kind"]](P, c)
        if time.time() - t1 > 8.0:
            P.notes.append(f"slow case ({time.time() - t1:.1f} s): {cls} {c['kind']} " + (_opt_brief(c) if c["kind"] == "opt" else f"L={c['L']} N={c['N']} order={c['order']} backend={c.get('backend')}"))
        n_size += 1
    spent["size"] = time.time() - t0
    for kind, n in plan:
        spent[kind] = -time.time()
        t0 = time.time()
        for i in range(n):
            if full(P):
                return P
            if time.time() - t0 > share[kind] * t_all or ctx.time_left() < 15:
                P.notes.append(f"{kind}: time share reached after {i} of {n} cases")
                break
            sub = np.random.default_rng(int(ctx.rng.integers(0, 2 ** 62)))
            if kind == "calib":
                c = gen_calib(sub, ctx.thorough, order=[-1, 0, -1, 0, 1, 2][i % 6], neg=(i % 5 == 4))    # (5 coprime to 6 and to the backend cycle)
                c["backend"] = BE4[(i + i // 6) % 4]          # every (order, backend) pair within 24 cases; auto / cross drawn by gen_calib
            elif kind == "enbw":
                c = gen_enbw(sub, ctx.thorough)
            elif kind == "wscale":
                c = gen_wscale(sub, ctx.thorough)
                c["entry"] = ["single-func", "compute_spectrum", "single-method", "analyzer", "single-fres", "lpsd"][i % 6]
                if c["entry"] == "single-fres" and not fres_gives(c["fs"], c["L"]):
                    c["entry"] = "single-func"
                c["cross"] = i % 7 != 6
            elif kind == "fs_single":
                c = gen_calib(sub, ctx.thorough, order=[-1, 0][i % 2])
                c.update(kind="fs_single", cross=False, backend=BE4[(i + i // 2) % 4])
            else:
                c = gen_scale(sub, ctx.thorough, kind)
                if kind == "scale" and i % 5 == 4:
                    c["cross"] = False
            if "opts" in c:                                    # the analysis-level streams run on every backend (orders drawn by _an.options)
                c["opts"]["backend"] = BE3[i % 3]
            CHECKS[kind](P, c)
        spent[kind] += time.time()
    P.notes.append("seconds per stream: " + ", ".join(f"{k} {v:.1f}" for k, v in spent.items()))
    tr, fl = int(STATS.pop("fs.pow2-trials", 0)), int(STATS.pop("fs.pow2-flips", 0))
    ex = STATS.pop("fs.flip-example", None)
    P.notes.append(f"fs -> 2*fs / 0.5*fs relabellings: {tr}, of which the plan itself changed (rounding flip in the scheduler): {fl}")
    if fl >= 4 and fl > 0.04 * tr:      # measured on the unchanged tree: 10 flips in 4800 relabellings, all in vectorized_ltf (0.2 %)
        viol(P, f"relabelling fs by a power of two changed the plan (L, K or D) in {fl} of {tr} analyses: the segmentation depends on the fs label",
             {"subclaim": "scale-fs", "field": "plan", "exact": True}, ex["case"], factor=ex["factor"])
    P.notes.append("worst observed deviation/tolerance: " + "; ".join(f"{k} = {v:.3g}" for k, v in sorted(STATS.items())))
    return P


def replay(ctx, data) -> C.Part:
    P = C.Part()
    for v in data.get("violations", []):
        c = v["replay"]["case"]
        for h in v["replay"].get("history", []):          # a failure may depend on the analyses run just before
            if h.get("kind") in CHECKS:
                CHECKS[h["kind"]](C.Part(), h)
        if c.get("kind") == "edge":
            check_edges(P)
        elif c.get("kind") in CHECKS:
            STATS.clear()
            CHECKS[c["kind"]](P, c)
            if c["kind"] == "fs" and v.get("signature", {}).get("field") == "plan" and STATS.get("fs.pow2-flips"):
                viol(P, "relabelling fs by a power of two changed the plan (L, K or D) of this analysis", v["signature"], c)
    return P
