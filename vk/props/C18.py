"""C18 — synthesised noise has the prescribed spectrum (speckit/noise.py: alpha_noise design, white_noise scale,
fftnoise, band_limited_noise).

Claimed strength: PARTIAL.  Proved: the single-section bilinear response (`bilinear_section/_dc/_nyquist`) and the
FFT-synthesiser index logic (Lemmas/FftNoise, when present).  NOT proved (DESIGN §4 C18-b, §5): "the cascade equals
f^-alpha to about 1 dB between the corners".  That sentence is only PROBED here on the real coefficients, with the
documented tolerance `ripple_tol_db` below (measured worst deviation on the unchanged tree + 50 %).
Besides freshly parameterised generators the oracle runs CALL HISTORIES (several generators sharing some parameters in one process, see
"call histories" below; witness: seeded C18c, coefficients memoised without the sampling rate) and back-to-back band_limited_noise siblings.

Sizes and options (class-level widening): fftnoise / band_limited_noise / white_noise.get_series at LONG and awkward lengths (around every integer
constant mined from the current noise.py, 2^k, 2^k +- 1, primes, 70 001, 1 100 003; whole DFT + a spread of bins from the definition; bands placed in
every part of the spectrum incl. the last bins and a hair beside grid frequencies on fine grids; variance window by window incl. the last samples);
the design parameters at the ENDS of their ranges every run (alpha 0.01 / 2, fmax/fmin 1.01 .. 1e8, fmax/fs up to 1/2, fs 1e-3 .. 1e9, bands around
1 Hz); all four generator classes through every CONSTRUCTION FORM (positional / keyword / mixed, init_filter given / default, seed forms, int / float /
np.float64 arguments); and the LEVEL predicate (mid-band and 1 Hz against f^-alpha, same envelope as the ripple probe, D13 unchanged) evaluated with
scipy.signal.freqz from the coefficient arrays of every generator any of these streams constructs (check_level_freqz, first thing in check_alpha).
"""
from __future__ import annotations

import math
from typing import Any, Dict, List, Optional, Tuple

import numpy as np

from .. import common as C

PROP = "C18"
GEN_REGIONS: List[str] = ["Noise", "FftNoise", "GlobalState"]
THEOREMS = {
    "SpecKitV.Lemmas.Bilinear": ["bilinear_section", "bilinear_dc", "bilinear_nyquist"],
    # FFT synthesiser index logic, band mask, corner placement (file present and building at hand-over; names are the ones it contains)
    "SpecKitV.Lemmas.FftNoise": ["fftnoise_hermitian", "fftnoise_dc_real", "fftnoise_nyquist_real", "fftnoise_magnitude_pos",
                                 "fftnoise_magnitude_neg", "fftnoise_dc_magnitude", "fftnoise_nyquist_magnitude", "fftnoise_zero_bins",
                                 "hermitian_idft_real", "fftnoise_series_real", "bandMask_symm", "bandMask_iff", "fftfreqAbs_symm",
                                 "fftfreqAbs_eq", "sectionCorners_ratio", "sectionCorners_step"],
    # the machine-translated coefficient design (Gen/Noise.lean) IS the hand model the bilinear theorems are about
    "SpecKitV.Props.NoiseGen": ["gen_filter_coeffs_eq_model"],
    # region FftNoise (Gen/FftNoise.lean, translated each run from fftnoise / band_limited_noise / alpha_noise.__init__ / white_noise.__init__):
    # translated = hand model for all accepted inputs, the translated validation = the documented preconditions, and the theorems above
    # restated for the translated definitions
    "SpecKitV.Props.FftNoiseGen": [
        "gen_fftnoise_spectrum_eq_model", "gen_fftnoise_rejects_iff", "gen_fftnoise_hermitian", "gen_fftnoise_dc_real", "gen_fftnoise_nyquist_real",
        "gen_fftnoise_magnitude_pos", "gen_fftnoise_magnitude_neg", "gen_fftnoise_dc_magnitude", "gen_fftnoise_nyquist_magnitude",
        "gen_fftnoise_zero_bins", "gen_fftnoise_series_real", "gen_fftnoise_eq", "gen_fftnoise_series", "FftNoiseGen.npifft_toC",
        "gen_band_spectrum_eq_model", "gen_band_rejects_iff", "gen_band_symm", "gen_band_iff", "gen_band_limited_noise_eq",
        "gen_band_limited_zero_outside", "gen_band_limited_unit_inside",
        "gen_alpha_init_eq_model", "gen_alpha_rejects_iff", "gen_alpha_corners", "gen_alpha_corners_ratio", "gen_alpha_corners_step",
        "gen_alpha_section_response", "gen_alpha_effective", "gen_alpha_section_dc_nyquist", "gen_white_init_eq", "gen_white_variance"],
    # no state outlives a call in the files this property is anchored in (no module/class-level containers, memoisers, mutable defaults) and the
    # decorators are exactly the audited ones (region GlobalState, re-scanned from the current source each run)
    "SpecKitV.Props.GlobalStateGen": ["GlobalStateGen.gen_globalState_noise"],
}
CONTRACTS = [
    "np.fft.ifft / np.fft.fft are the inverse / forward DFT (unnormalised forward, 1/N inverse) up to rounding c*u*log2(N)*||F||_2",
    "np.fft.fftfreq(N, d)[k] = k/(N d) for 2k < N, (k-N)/(N d) otherwise",
    "Generator.normal(0, s, n) draws n independent N(0, s^2) samples; Generator.random(n) draws n uniforms in [0,1) "
    "(the same seeded generator re-created by the harness yields the same phases)",
    "_numba_lfilter_cascade / scipy.signal.lfilter realise y = a0 x + z, z' = a1 x - b1c y per section (tied by an impulse-response run of get_series)",
    # contracts of the translated region FftNoise: Lean DEFINITIONS in lean/SpecKitV/Np/FftNoise.lean, each executed against the NumPy routine it stands for
    "NpFN.pySlice / NpFN.sliceGet / NpFN.sliceSet = NumPy basic slicing a[start:stop:step] (read / assign a vector of the slice's length), normalised exactly as "
    "CPython's PySlice_AdjustIndices (negative bounds count from the end, clipping, negative step); a length mismatch (NumPy raises) yields the empty vector",
    "NpFN.map / NpFN.zipWith = elementwise NumPy arithmetic, comparison and ufunc evaluation of vectors of equal length, one temporary per operation "
    "(np.cos, np.sin, np.abs, np.conj, np.real, np.power, np.log10, np.ceil, +, -, *, /, >=, <=, &)",
    "NpFN.maskSet = a[mask] = scalar;  NpFN.full = np.zeros(n, dtype) / np.ones_like;  NpFN.arange = np.arange(n);  NpFN.columns2 = np.vstack([c0, c1]).T",
    "NpFN.rngRandom = Generator.random(k): the next k draws of the generator's stream of uniforms",
    "NpFN.fftfreq = np.fft.fftfreq(n, d): val = 1/(n d); results[:N] = arange(0, N), results[N:] = arange(-(n//2), 0) with N = (n-1)//2 + 1; results * val  (bit-exact in the run)",
    "NpFN.ifft = np.fft.ifft: x[m] = (1/N) sum_k F[k] exp(+2 pi i k m / N)  (proved to be Mathlib's sum: FftNoiseGen.npifft_toC)",
    "Gen._calc_filter_coeffs (Gen/Noise.lean) applied elementwise = alpha_noise._calc_filter_coeffs on the corner vectors",
]
ASSUMPTIONS = [
    "PARTIAL: 'two-sided density equals f^-alpha to about 1 dB between the corners' is not a theorem; it is probed on the real "
    "coefficients with tolerance ripple_tol_db(alpha) = 1.5 x the worst deviation measured on the unchanged tree (full open interval "
    "(gen.fmin, gen.fmax): up to 3.01 dB at alpha = 2 because the corners themselves are -3/+3 dB points, 1.78 dB at alpha = 1; two section "
    "pitches inside the corners: <= 0.81 dB for alpha <= 1.9, 1.13 dB at alpha = 2)",
    "the cascade product formula and the corner placement (log-equispaced, alpha/4 offsets, ratio 10^(dp alpha/2)) are checked numerically "
    "against the real coefficients, per-section response by theorem",
    "white-noise variance psd*fs: the scale is checked exactly, the sample variance statistically (6 sigma; long requests also per eighth and over the last 1000-4096 samples)",
    "sizes: lengths beyond ~1.3e6 (quick) / 4.4e6 (thorough, or when an obligation broke) are not synthesised; thresholds are looked for around the integer constants "
    "that appear literally in noise.py and at the fixed long sizes listed in RULE",
    "red_noise: C18 states no formula for it; only that its design does not depend on the construction form / history is demanded",
    "theorems are over the reals; rounding is covered by the stated forward tolerances",
    "history independence is probed, not proved: generated call histories (see RULE) in the check's own process; the fresh-state reference is the library itself, "
    "run in a forked child of a helper interpreter that has only imported speckit (skipped with a note when the helper cannot be started; red_noise members are then unchecked)",
]
RULE = ("alpha: (fs, fmin, fmax, alpha) with alpha in [0.01,2] (incl. both ends, 1.0 via pink_noise), fmax in 1e-3..1e5 Hz, span 0.001..8 decades, "
        "fs/fmax in [2, 1e4] incl. fmax = fs/2 exactly; distinct by (alpha bucket, section count, fmax=fs/2 flag, 1 Hz inside flag); non-trivial = >= 2 sections. "
        "call histories: 3-8 alpha_noise / pink_noise / red_noise / white_noise generators built in one process that share some of (fs, fmin, fmax, alpha) and differ in "
        "the others (same band and exponent at other rates; same fs, other exponents; same fs, bands sharing an edge or the width; mixed with exact repeats), with "
        "get_series / get_sample calls in between; EVERY member is checked at the end (all alpha predicates on the member itself + its design quantities against the same "
        "constructor call made alone in a fresh process); distinct by (family, members, #rates, #exponents, #bands, used flag); non-trivial = >= 2 coloured members. "
        "fftnoise: N in 2..65 and powers of two to 1024 (4096 thorough), complex spectra with non-real DC/Nyquist, non-Hermitian mirror side, zero bins, real dtype, "
        "rng seeded or None; distinct by (N, kind); non-trivial = N >= 3 and a non-zero spectrum. generated region FftNoise (translated fftnoise / "
        "band_limited_noise / alpha_noise.__init__ / white_noise.__init__ at Float vs the real functions): the same generators from a spawned child stream, N in 2..65 and "
        "128..1024 with every input kind, N < 2 and every validation failure, the 1e-12 Nyquist allowance from both sides; NumPy contracts (slices: all (n <= 7, start, stop, "
        "step in {1,-1,2,-3}); fftfreq bit-exact; ifft) on their own. band_limited_noise: odd/even N, bands with edges on grid "
        "frequencies (exact binary grids), min_freq = 0, max_freq = Nyquist, single-bin and empty bands; distinct by (N, edge class); non-trivial = at least one bin "
        "inside and one outside the band. white_noise: (fs, psd, seed), distinct by (fs, psd). "
        "long / awkward sizes (fftnoise, band_limited_noise, white_noise.get_series): c-1, c, c+1, c+17, 2c+3 around every integer constant of the CURRENT speckit/noise.py "
        "(common.mined_sizes), 70001, 65535..65537, 131071, 131074, 1100003, 2^20 and one of {2^20+-1, 1000003, 524287, 786433} by seed (all of them, 2^21+3 and more when an "
        "obligation broke / thorough), random primes, 2 x prime, odd; fftnoise input kinds 0..8 cycled (8 = complex64, 7 = integer magnitudes), a third of the cases called a "
        "second time on the same array; band edges: 12 placements (last bins, around c and behind the last whole block of c bins, DC, hair-width beside grid frequencies on "
        "1e-8 Hz grids, nearly everything), all 12 at every size <= 10000; distinct by (N, kind) / (N, edge class). "
        "alpha extremes: product of {0.01, 2} x {1.01, 1e8} x fmax/fs {0.5, 0.4, 0.25, 1e-4} x fs {1e-3, 1e9}, 36 bands around 1 Hz, 80 random combinations of the full lists "
        "(the full 2520-product in the thorough tier). forms: (class, call form, init_filter form, seed form, numeric type) cycled with co-prime periods, 60 per run; distinct by that tuple.")

U = 2.0 ** -53
LN10_10 = 10.0 / math.log(10.0)

# ------------------------------------------------------------------------------------------------ ripple tolerance
# Worst deviation |10*log10(S(f) * f^alpha)| of the REAL filter on the unchanged tree.  The response depends on (fs, fmin, fmax) only through
# fmax/fs and the span log10(fmax/fmin) (the scaling fixes the level), so the scan is over: 23 exponents x 438 spans (0.001 .. 8.67 decades,
# dense between 0.45 and 3.6 decades and on both sides of every section-count step k/4.5) x fmax/fs in {0.5, 0.4, 0.3, 0.2, 0.05, 1e-3},
# 801 log-spaced frequencies on [gen.fmin, gen.fmax] INCLUDING the end points and the two interior boundaries; cross-checked with the oracle's
# own random case generator (40 seeds x 1500 cases: nothing above the table).  Columns: alpha, worst over the whole interval, worst at least
# two section pitches (2 dp, dp = log10(fmax/fmin)/sections) inside both effective corners (made non-decreasing in alpha).
# The whole-interval worst is 3.011 dB = 10 log10 2 (alpha = 2: one pole at gen.fmin, one zero at gen.fmax, the corners are -3/+3 dB points);
# the interior worst is 0.81 dB for alpha <= 1.9 and 1.13 dB at alpha = 2 exactly (4-section cascade with fmax = fs/2, where the "interior"
# degenerates to the single mid point).  The oracle allows RIPPLE_MARGIN x (linear interpolation of this table) + 0.01 dB.
RIPPLE_TABLE = np.array([
    # alpha  full    interior
    [0.00, 0.000, 0.000],
    [0.01, 0.022, 0.013],
    [0.05, 0.105, 0.063],
    [0.10, 0.208, 0.122],
    [0.20, 0.408, 0.233],
    [0.30, 0.602, 0.334],
    [0.40, 0.790, 0.425],
    [0.50, 0.970, 0.505],
    [0.60, 1.145, 0.576],
    [0.70, 1.313, 0.636],
    [0.80, 1.476, 0.687],
    [0.90, 1.633, 0.727],
    [1.00, 1.783, 0.757],
    [1.10, 1.929, 0.778],
    [1.20, 2.069, 0.795],
    [1.30, 2.203, 0.805],
    [1.40, 2.333, 0.806],
    [1.50, 2.458, 0.806],
    [1.60, 2.577, 0.806],
    [1.70, 2.692, 0.806],
    [1.80, 2.803, 0.806],
    [1.90, 2.909, 0.806],
    [1.95, 2.960, 0.835],
    [2.00, 3.011, 1.130],
])
RIPPLE_MARGIN = 1.5


STRICT_RIPPLE_DB = 1.25   # 'about 1 dB'


def ripple_tol_db(alpha: float, interior: bool) -> float:
    col = 2 if interior else 1
    return RIPPLE_MARGIN * float(np.interp(alpha, RIPPLE_TABLE[:, 0], RIPPLE_TABLE[:, col])) + 0.01


# ------------------------------------------------------------------------------------------------ helpers
def _noise():
    from speckit import noise
    return noise


def cx_arr(z) -> str:
    z = np.asarray(z, dtype=complex).reshape(-1)
    return str(len(z)) + "".join(" " + C.f2h(v.real) + " " + C.f2h(v.imag) for v in z)


def cx_dump(z) -> Dict[str, List[float]]:
    z = np.asarray(z, dtype=complex).reshape(-1)
    return {"re": [float(v) for v in z.real], "im": [float(v) for v in z.imag]}


def cx_load(d) -> np.ndarray:
    return np.array(d["re"], dtype=float) + 1j * np.array(d["im"], dtype=float)


def fft_tol(N: int, norm2: float) -> float:
    """forward bound for fft(ifft(F).real): both transforms are backward stable with constant ~ log2 N (contract)"""
    return 64.0 * U * (math.log2(max(N, 2)) + 2.0) * norm2 + 1e-300


class _Capture:
    """subclass factory: records the corner arrays handed to the real _calc_filter_coeffs by the real __init__"""
    cls = None

    @classmethod
    def get(cls):
        if cls.cls is None:
            noise = _noise()

            class Probe(noise.alpha_noise):
                def _calc_filter_coeffs(self, f_min, f_max):
                    if not hasattr(self, "_cap"):
                        self._cap = (np.array(f_min, dtype=float, copy=True), np.array(f_max, dtype=float, copy=True))
                    return super()._calc_filter_coeffs(f_min, f_max)
            cls.cls = Probe
        return cls.cls


def make_gen(c: Dict[str, Any], capture: bool = False):
    noise = _noise()
    if c.get("pink") and not capture:
        return noise.pink_noise(c["fs"], c["fmin"], c["fmax"], init_filter=False, seed=0)
    k = _Capture.get() if capture else noise.alpha_noise
    return k(c["fs"], c["fmin"], c["fmax"], c["alpha"], init_filter=False, seed=0)


def sections(g) -> Tuple[np.ndarray, np.ndarray, np.ndarray]:
    """(a0, a1, b1c) of the real generator; b1c is the STORED denominator coefficient (= -b1 of the design formula)"""
    a = np.asarray(g._a_coeffs, dtype=float)
    b = np.asarray(g._b_coeffs, dtype=float)
    return a[:, 0].copy(), a[:, 1].copy(), b[:, 1].copy()


def real_response(g, f: np.ndarray) -> Tuple[np.ndarray, np.ndarray]:
    """|H(f)|^2 of the real cascade (no scaling) and its relative conditioning bound"""
    a0, a1, b1c = sections(g)
    b0 = np.asarray(g._b_coeffs, dtype=float)[:, 0]
    w = 2.0 * np.pi * np.asarray(f, dtype=float) / g.fs
    z = np.exp(-1j * w)
    H2 = np.ones_like(w)
    cond = np.zeros_like(w)
    for i in range(len(a0)):
        nu = np.abs(a0[i] + a1[i] * z)
        de = np.abs(b0[i] + b1c[i] * z)
        H2 = H2 * (nu / de) ** 2
        cond = cond + (abs(a0[i]) + abs(a1[i])) / np.maximum(nu, 1e-300) + (abs(b0[i]) + abs(b1c[i])) / np.maximum(de, 1e-300)
    return H2, 1e-10 + 64.0 * U * cond


def density(g, f: np.ndarray) -> Tuple[np.ndarray, np.ndarray]:
    """two-sided density of the generator's output at f: (white variance / fs) * scaling^2 * |H|^2, and its relative rounding bound"""
    H2, rel = real_response(g, f)
    w0 = float(g._whitenoise.rms) ** 2 / float(g.fs)
    return w0 * float(g._scaling) ** 2 * H2, rel


def closed_form(fs: float, fmins: np.ndarray, fmaxs: np.ndarray, f: np.ndarray) -> np.ndarray:
    """the proved closed form (bilinear_section, product over sections): prod (Om^2 + wmax_i^2)/(Om^2 + wmin_i^2), Om = 2 fs tan(pi f / fs)"""
    Om = 2.0 * fs * np.tan(np.pi * np.asarray(f, dtype=float) / fs)
    out = np.ones_like(Om)
    for lo, hi in zip(fmins, fmaxs):
        out = out * (Om ** 2 + (2.0 * np.pi * hi) ** 2) / (Om ** 2 + (2.0 * np.pi * lo) ** 2)
    return out


# ------------------------------------------------------------------------------------------------ case generators
def alpha_case(rng: np.random.Generator) -> Dict[str, Any]:
    am = int(rng.integers(0, 8))
    alpha = [0.01, 2.0, 1.0, 0.5, float(rng.uniform(0.01, 2.0)), float(rng.uniform(0.01, 2.0)), float(rng.uniform(0.01, 0.3)),
             float(rng.uniform(1.7, 2.0))][am]
    fmax = float(10.0 ** rng.uniform(-3.0, 5.0))
    dm = int(rng.integers(0, 4))
    dec = [float(rng.uniform(0.001, 0.5)), float(rng.uniform(0.5, 3.0)), float(rng.uniform(3.0, 8.0)), float(rng.uniform(1.0, 6.0))][dm]
    fmin = fmax / 10.0 ** dec
    rm = int(rng.integers(0, 4))
    if rm == 0:
        fs = 2.0 * fmax                          # fmax = fs/2 exactly
    elif rm == 1:
        fs = fmax * float(rng.uniform(2.0, 20.0))
    else:
        fs = fmax / float(10.0 ** rng.uniform(-4.0, math.log10(0.5)))
    if rng.integers(0, 6) == 0:                  # make sure 1 Hz is well inside now and then
        fmin, fmax = float(10.0 ** rng.uniform(-4, -0.7)), float(10.0 ** rng.uniform(0.7, 4))
        fs = max(fs, 2.0 * fmax)
    pink = bool(alpha == 1.0 and rng.integers(0, 2) == 0)
    return {"fs": float(fs), "fmin": float(fmin), "fmax": float(fmax), "alpha": float(alpha), "pink": pink}


ALPHA_CORPUS = [
    {"fs": 2.0, "fmin": 1e-3, "fmax": 1.0, "alpha": 1.0, "pink": True},
    {"fs": 1000.0, "fmin": 1e-2, "fmax": 500.0, "alpha": 2.0, "pink": False},        # fmax = fs/2, single effective pole/zero pair
    {"fs": 1000.0, "fmin": 1e-4, "fmax": 100.0, "alpha": 0.01, "pink": False},
    {"fs": 10.0, "fmin": 1e-5, "fmax": 3.0, "alpha": 1.5, "pink": False},
    {"fs": 64.0, "fmin": 0.3, "fmax": 0.31, "alpha": 0.7, "pink": False},             # one section
    {"fs": 2e5, "fmin": 1e-3, "fmax": 1e5, "alpha": 0.5, "pink": False},              # 8 decades, 36 sections
]


# design parameters at the ENDS of their ranges (the random generator above reaches them only by chance): exponent, fmax/fmin, fmax/fs, fs
EXT_ALPHA = [0.01, 2.0, 1.0, 0.5, 1.99, 0.011, 1.5]
EXT_RATIO = [1.01, 1e8, 1.1, 2.0, 31.6, 1e4, 1e6, 3e7]
EXT_FRAC = [0.5, 0.4, 0.25, 1e-4, 0.499, 0.45, 0.3, 0.1, 1e-2]           # fmax / fs: up to fs/2 exactly (0.5 fs is exact in binary)
EXT_FS = [1e-3, 1e9, 1.0, 44100.0, 2.5e6]


def alpha_extreme_cases(rng: np.random.Generator, n_extra: int, full: bool = False) -> List[Dict[str, Any]]:
    """(a) the full product of the two end values of each of (alpha, fmax/fmin) with fmax/fs in {1/2, 0.4, 1/4, 1e-4} and fs in {1e-3, 1e9}: 32 generators, every run;
    (b) bands AROUND 1 Hz (so that the '1 at 1 Hz' clause is evaluated) for the end values of alpha and the ratio, 1 Hz near the lower corner / in the middle /
    near the upper corner, fmax an appreciable fraction of fs and deeply oversampled; (c) n_extra random combinations of the whole lists (all of them when full)."""
    out: List[Dict[str, Any]] = []

    def mk(alpha, ratio, frac, fs):
        fmax = frac * fs
        return {"fs": float(fs), "fmin": float(fmax / ratio), "fmax": float(fmax), "alpha": float(alpha), "pink": bool(alpha == 1.0 and rng.integers(0, 2) == 0)}
    for alpha in EXT_ALPHA[:2]:
        for ratio in EXT_RATIO[:2]:
            for frac in EXT_FRAC[:4]:
                for fs in EXT_FS[:2]:
                    out.append(mk(alpha, ratio, frac, fs))
    for alpha in (0.01, 2.0, 1.0):
        for ratio in (1.01, 1.5, 1e4, 1e8):
            for th in (0.03, 0.5, 0.97):
                fmin = float(ratio ** (-th))
                fmax = fmin * ratio
                frac = [0.5, 0.3, 1e-3][int(rng.integers(0, 3))]
                out.append({"fs": float(fmax / frac), "fmin": fmin, "fmax": float(fmax), "alpha": float(alpha), "pink": bool(alpha == 1.0 and rng.integers(0, 2) == 0)})
    if full:
        for alpha in EXT_ALPHA:
            for ratio in EXT_RATIO:
                for frac in EXT_FRAC:
                    for fs in EXT_FS:
                        out.append(mk(alpha, ratio, frac, fs))
    else:
        for _ in range(n_extra):
            out.append(mk(EXT_ALPHA[int(rng.integers(0, len(EXT_ALPHA)))], EXT_RATIO[int(rng.integers(0, len(EXT_RATIO)))],
                          EXT_FRAC[int(rng.integers(0, len(EXT_FRAC)))], EXT_FS[int(rng.integers(0, len(EXT_FS)))]))
    return out


# ---- construction FORMS: the four generator classes through every way of calling their constructors
FORM_CLASSES = ["alpha", "pink", "red", "alpha", "white", "pink"]
FORM_CALLS = ["pos", "kw", "mixed", "allpos"]
FORM_INITS = ["omit", True, False]                  # omitted = the default (True: the filter is settled with ceil(2 fs / fmin) samples)
FORM_SEEDS = ["omit", None, 0, 12345, 2 ** 40 + 7]
FORM_NUMS = ["float", "int", "np"]
FORM_NAMES = {"alpha": ["f_sample", "f_min", "f_max", "alpha"], "pink": ["f_sample", "f_min", "f_max"], "red": ["f_sample", "f_min"], "white": ["f_sample", "psd"]}


def form_case(rng: np.random.Generator, i: int) -> Dict[str, Any]:
    """case i of the forms stream: class, call form, init_filter form, seed form and numeric type cycle with co-prime periods, so that a run of >= 60 cases
    meets every (class, init_filter form) x seed form and every (class, call form); the design parameters are random, with fs/fmin bounded where the
    constructor settles the filter (cost ~ 2 fs/fmin samples per section)."""
    cls = FORM_CLASSES[i % len(FORM_CLASSES)]
    call = FORM_CALLS[(i // 2) % len(FORM_CALLS)]
    init = FORM_INITS[(i + i // 6) % len(FORM_INITS)]
    seed = FORM_SEEDS[(i + i // 3) % len(FORM_SEEDS)]
    num = FORM_NUMS[(i // 5) % len(FORM_NUMS)]
    if call == "allpos" and (init == "omit" or seed == "omit") and cls != "white":
        init = True if init == "omit" else init     # all-positional needs both trailing arguments
        seed = 4321 if seed == "omit" else seed
    settle = cls != "white" and init is not False
    if num == "int":                                # integer-valued parameters passed as Python ints
        fs, fmin, fmax = [(1000, 5, 500), (48000, 20, 20000), (64, 1, 32), (1000, 1, 100)][int(rng.integers(0, 4))]
        alpha = [1, 2, 1, 2][int(rng.integers(0, 4))]
        psd = int([1, 4, 1000][int(rng.integers(0, 3))])
    else:
        fs = float([1000.0, 2.0, 48000.0, 1e9, 1e-3, float(10.0 ** rng.uniform(-3, 9))][int(rng.integers(0, 6))])
        frac = [0.5, 0.4, 0.25, 0.05, float(10.0 ** rng.uniform(-3, math.log10(0.5)))][int(rng.integers(0, 5))]
        fmax = frac * fs
        rmax = min(1e8, 9e4 * frac) if settle else 1e8        # settled: fs/fmin = ratio/frac <= 9e4
        ratio = min(rmax, [1.01, 3.0, 100.0, 1e4, 1e8, float(10.0 ** rng.uniform(0.005, 8))][int(rng.integers(0, 6))])
        ratio = max(ratio, 1.01)
        fmin = fmax / ratio
        alpha = [0.01, 2.0, 1.0, 0.5, 1.5, float(rng.uniform(0.01, 2.0))][int(rng.integers(0, 6))]
        psd = float(10.0 ** rng.uniform(-6, 6))
    return {"kind": "form", "cls": cls, "call": call, "init": init, "seed": seed, "num": num, "fs": fs, "fmin": fmin, "fmax": fmax,
            "alpha": 1.0 if cls == "pink" else (2.0 if cls == "red" else alpha), "psd": psd}


def _form_num(v, how: str):
    if how == "int" and float(v).is_integer():
        return int(v)
    if how == "np":
        return np.float64(v)
    return float(v)


def form_build(s: Dict[str, Any]):
    """the constructor call the form describes (positional / keyword / mixed / all-positional, init_filter and seed given or left to their defaults)"""
    noise = _noise()
    cls = s["cls"]
    K = {"alpha": noise.alpha_noise, "pink": noise.pink_noise, "red": noise.red_noise, "white": noise.white_noise}[cls]
    names = FORM_NAMES[cls]
    vals = {"f_sample": s["fs"], "f_min": s["fmin"], "f_max": s["fmax"], "alpha": s["alpha"], "psd": s["psd"]}
    args = [_form_num(vals[nm], s["num"]) for nm in names]
    if s["call"] == "allpos":
        if cls == "white":
            return K(*args, *([] if s["seed"] == "omit" else [s["seed"]]))
        return K(*args, bool(s["init"]), s["seed"])
    npos = {"pos": len(names), "kw": 0, "mixed": 1}[s["call"]]
    kw = dict(zip(names[npos:], args[npos:]))
    if cls != "white" and s["init"] != "omit":
        kw["init_filter"] = bool(s["init"])
    if s["seed"] != "omit":
        kw["seed"] = s["seed"]
    return K(*args[:npos], **kw)


def fft_case(rng: np.random.Generator, N: int, kind: Optional[int] = None) -> Dict[str, Any]:
    kind = int(rng.integers(0, 7)) if kind is None else kind
    scale = float(10.0 ** rng.uniform(-3, 3))
    f = (rng.standard_normal(N) + 1j * rng.standard_normal(N)) * scale          # non-Hermitian, complex DC and Nyquist
    dtype = "complex"
    if kind == 1:                                   # some zero bins (both sides, independently)
        f[rng.random(N) < 0.4] = 0.0
    elif kind == 2:                                 # real dtype input
        f = np.abs(f.real) + 0.1 * scale
        dtype = "float"
    elif kind == 3:                                 # real DC/Nyquist with sign, mirror side zero
        f[0] = -abs(f[0])
        if N % 2 == 0:
            f[N // 2] = -abs(f[N // 2])
        f[(N + 1) // 2 + (1 if N % 2 == 0 else 0):] = 0.0
    elif kind == 4:                                 # mirror side much larger than the positive side (must be REPLACED)
        f[N // 2 + 1:] *= 1e3
    elif kind == 5:                                 # purely imaginary DC / Nyquist: their prescribed magnitude |Re f| is 0
        f[0] = 1j * abs(f[0])
        if N % 2 == 0:
            f[N // 2] = 1j * abs(f[N // 2])
    elif kind == 7:                                 # an INTEGER magnitude vector (only requested explicitly: the default draw stays 0..6)
        f = np.floor(np.abs(f.real) / scale * 3.0) + 0j      # small non-negative integers, many zeros, not mirror-symmetric
        dtype = "int64"
    elif kind == 8:                                 # single-precision complex spectrum (the prescription is the value as stored: exact in double)
        f = f.astype(np.complex64).astype(complex)
        dtype = "complex64"
    return {"N": int(N), "kind": kind, "dtype": dtype, "f": f, "seed": int(rng.integers(0, 2 ** 31)), "rng_none": bool(rng.integers(0, 8) == 0)}


def fft_case_from_seed(gseed: int, N: int, kind: int) -> Dict[str, Any]:
    """a case that is a pure function of (gseed, N, kind): long spectra are replayed from these three numbers instead of a stored vector"""
    c = fft_case(np.random.default_rng([int(gseed), int(N), int(kind)]), int(N), kind=int(kind))
    c["gseed"] = int(gseed)
    c["rng_none"] = False
    return c


def _is_prime(n: int) -> bool:
    if n < 2:
        return False
    if n % 2 == 0:
        return n == 2
    r = int(math.isqrt(n))
    return all(n % d for d in range(3, r + 1, 2))


def next_prime(n: int) -> int:
    while not _is_prime(n):
        n += 1
    return n


def mined_constants() -> List[int]:
    """integer constants of the CURRENT speckit/noise.py (buffer / chunk / block sizes: where "for all lengths" breaks)"""
    try:
        return [int(v) for v in C.mined_sizes(["speckit/noise.py"])]
    except Exception:
        return []


def size_probes(consts: List[int], cap: int) -> List[int]:
    """c-1, c, c+1, c+17, 2c+3 around every mined constant, as far as affordable"""
    out: List[int] = []
    for c in consts:
        for n in (c - 1, c, c + 1, c + 17, 2 * c + 3):
            if 2 <= n <= cap and n not in out:
                out.append(int(n))
    return out


# lengths well beyond the random generators: 2^k, 2^k +- 1, primes (65537, 131071, 524287, 1000003 are prime), an even number with a large prime factor,
# 70 001 and 1 100 003.  LONG_SIZES_BIG cost 0.1 .. 1 s per synthesis + DFT: the quick tier takes 1 100 003, 2^20 and one more (by seed), the rest in the
# thorough tier / when an obligation broke.
LONG_SIZES_FIXED = [70001, 65535, 65536, 65537, 131071, 131074]
LONG_SIZES_WIDE = [99991, 100000, 262145, 2 ** 18 - 1, 500000]
LONG_SIZES_BIG = [1100003, 2 ** 20, 2 ** 20 + 1, 2 ** 20 - 1, 1000003, 524287, 786433]


def band_case(rng: np.random.Generator) -> Dict[str, Any]:
    exact = bool(rng.integers(0, 2))
    if exact:                                       # binary grid: every bin frequency and every edge is an exact double
        N = int(2 ** rng.integers(1, 11))
        fs = float(2.0 ** rng.integers(-6, 12))
    else:
        N = int(rng.choice([2, 3, 4, 5, 7, int(rng.integers(6, 200)), int(rng.integers(6, 200)), int(2 * rng.integers(3, 300) + 1), int(rng.integers(200, 1500))]))
        fs = float(rng.choice([1.0, 1000.0, 44100.0, float(10.0 ** rng.uniform(-2, 5))]))
    nyq = fs / 2.0
    grid = np.abs(np.fft.fftfreq(N, d=1.0 / fs))   # only used to pick on-grid edges; the oracle has its own bin frequencies
    half = N // 2
    em = int(rng.integers(0, 8))
    k0 = int(rng.integers(0, half + 1))
    k1 = int(rng.integers(k0, half + 1))
    if em == 0:                                     # both edges on grid frequencies
        lo, hi = float(grid[k0]) if k0 < len(grid) else 0.0, float(grid[k1])
    elif em == 1:                                   # DC included, upper edge on grid
        lo, hi = 0.0, float(grid[k1])
    elif em == 2:                                   # up to Nyquist
        lo, hi = float(grid[k0]), nyq
    elif em == 3:                                   # everything
        lo, hi = 0.0, nyq
    elif em == 4:                                   # single on-grid frequency
        lo = hi = float(grid[k0])
    elif em == 5:                                   # empty band strictly between two grid frequencies
        lo = hi = (k0 + 0.5) * fs / N if (k0 + 0.5) * fs / N <= nyq else nyq * 0.999
    else:                                           # generic
        a, b = sorted(float(v) for v in rng.uniform(0.0, nyq, size=2))
        lo, hi = a, b
    hi = min(hi, nyq)
    lo = min(lo, hi)
    return {"N": N, "fs": fs, "lo": float(lo), "hi": float(hi), "exact": exact, "edge_mode": em, "seed": int(rng.integers(0, 2 ** 31)),
            "rng_none": bool(rng.integers(0, 10) == 0)}


def band_siblings(rng: np.random.Generator, c: Dict[str, Any]) -> List[Dict[str, Any]]:
    """calls that share all but one argument with c: other sampling rate (same samples and band), other band (same samples and rate), other length"""
    out = []
    nyq = c["fs"] / 2.0
    out.append(dict(c, fs=c["fs"] * 2.0, edge_mode=9, seed=int(rng.integers(0, 2 ** 31))))
    out.append(dict(c, lo=0.0 if rng.integers(0, 2) else c["lo"] / 2.0, hi=c["hi"], edge_mode=9, seed=int(rng.integers(0, 2 ** 31))))
    out.append(dict(c, lo=c["lo"], hi=nyq if rng.integers(0, 2) else (c["hi"] + nyq) / 2.0, edge_mode=9, seed=int(rng.integers(0, 2 ** 31))))
    out.append(dict(c, N=2 * c["N"] if (c["exact"] or rng.integers(0, 2)) else c["N"] + 1, edge_mode=9, seed=int(rng.integers(0, 2 ** 31))))
    return out


BAND_LONG_MODES = 12


def band_long_case(rng: np.random.Generator, N: int, mode: int, consts: List[int]) -> Dict[str, Any]:
    """a band on a LONG or awkward grid with its edges placed so that every part of the spectrum is exercised: the last bins below Nyquist, the bins
    around a mined block size c and around N - c, the region behind the last whole block, DC.  Edges sit half way between two grid frequencies
    wherever possible, so that every bin is decided in any arithmetic (nothing is skipped as 'on an edge')."""
    fs = float([1.0, 1000.0, 48000.0, 2.0 ** int(rng.integers(-6, 21)), 1e-3, 1e9, float(10.0 ** rng.uniform(-3, 9)), float(N)][int(rng.integers(0, 8))])
    mode = int(mode) % BAND_LONG_MODES
    if mode in (9, 10) and rng.integers(0, 4) != 0:
        fs = [1e-3, 2.0 ** -10][int(rng.integers(0, 2))]   # hair-width edges mostly on a FINE grid (pitch 1e-8 Hz and below): an absolute closeness tolerance shows there
    nyq = fs / 2.0
    df = fs / N
    half = N // 2
    top = half if N % 2 == 0 else (N - 1) // 2          # highest non-negative-frequency bin
    cs = [c for c in consts if 2 <= c < top - 2]
    c0 = int(cs[int(rng.integers(0, len(cs)))]) if cs else max(2, top // 3)
    if mode == 0:                                   # anywhere, half-integer edges
        k0 = int(rng.integers(0, max(top - 1, 1)))
        k1 = int(rng.integers(k0, max(top - 1, 1)))
        lo, hi = (k0 + 0.5) * df, (k1 + 0.5) * df
    elif mode == 1:                                 # the last three bins, up to Nyquist
        lo, hi = (top - 2.5) * df, nyq
    elif mode == 2:                                 # two bins just below the last one: the very last bin(s) must stay empty
        lo, hi = (top - 2.5) * df, (top - 0.5) * df
    elif mode == 3:                                 # three bins around a mined constant (and, mirrored, around N - c)
        lo, hi = (c0 - 1.5) * df, (c0 + 1.5) * df
    elif mode == 4:                                 # from just behind the last whole block of c bins to the top
        k0 = (top // c0) * c0 + 1 if (top // c0) * c0 + 1 < top else top - 1
        lo, hi = (k0 - 0.5) * df, nyq if rng.integers(0, 2) else (top - 0.5) * df
    elif mode == 5:                                 # DC and the first bin only
        lo, hi = 0.0, 1.5 * df
    elif mode == 6:                                 # generic edges
        lo, hi = sorted(float(v) for v in rng.uniform(0.0, nyq, size=2))
    elif mode == 7:                                 # edges ON grid frequencies at high indices (edge bins themselves are left to rounding unless the grid is binary)
        k0 = int(rng.integers(max(top // 2, 1), top + 1))
        k1 = int(rng.integers(k0, top + 1))
        lo, hi = k0 * df, k1 * df
    elif mode == 8:                                 # the whole spectrum
        lo, hi = 0.0, nyq
    elif mode in (9, 10):                           # edges a hair (1e-4 of the grid pitch) beside grid frequencies at high indices: the two edge bins are just
        k0 = int(rng.integers(max(top // 2, 1), top))     # OUTSIDE (9) / just INSIDE (10); decided in double up to N ~ 1e11, not by a tolerance unrelated to the grid
        k1 = int(rng.integers(k0 + 1, top + 1))
        h = 1e-4 if mode == 9 else -1e-4
        lo, hi = (k0 + h) * df, (k1 - h) * df
    else:                                           # nearly everything: all but DC, the first and the last bin (presence in every part of the spectrum)
        lo, hi = 1.5 * df, (top - 0.5) * df
    hi = float(min(max(hi, 0.0), nyq))
    lo = float(min(max(lo, 0.0), hi))
    exact = bool(N & (N - 1) == 0 and math.frexp(fs)[0] == 0.5)
    return {"N": int(N), "fs": fs, "lo": lo, "hi": hi, "exact": exact, "edge_mode": 20 + mode, "seed": int(rng.integers(0, 2 ** 31)), "rng_none": False}


BAND_CORPUS = [
    {"N": 4096, "fs": 1000.0, "lo": 10.0, "hi": 50.0, "exact": False, "edge_mode": 6, "seed": 1, "rng_none": False},     # docstring example
    {"N": 1024, "fs": 1.0, "lo": 0.0, "hi": 0.5, "exact": True, "edge_mode": 3, "seed": 2, "rng_none": False},
    {"N": 16, "fs": 16.0, "lo": 2.0, "hi": 5.0, "exact": True, "edge_mode": 0, "seed": 3, "rng_none": False},           # edges on bins 2 and 5
    {"N": 16, "fs": 16.0, "lo": 3.0, "hi": 8.0, "exact": True, "edge_mode": 2, "seed": 4, "rng_none": False},           # Nyquist bin included
    {"N": 15, "fs": 15.0, "lo": 0.0, "hi": 7.0, "exact": False, "edge_mode": 1, "seed": 5, "rng_none": False},
    {"N": 2, "fs": 2.0, "lo": 0.0, "hi": 1.0, "exact": True, "edge_mode": 3, "seed": 6, "rng_none": False},
    {"N": 3, "fs": 1.0, "lo": 0.2, "hi": 0.4, "exact": False, "edge_mode": 6, "seed": 7, "rng_none": False},
    {"N": 8, "fs": 8.0, "lo": 4.0, "hi": 4.0, "exact": True, "edge_mode": 4, "seed": 8, "rng_none": False},             # Nyquist only
    {"N": 8, "fs": 8.0, "lo": 0.0, "hi": 0.0, "exact": True, "edge_mode": 4, "seed": 9, "rng_none": False},             # DC only
    # long records: band edges at HIGH bin indices, where a grid-independent closeness tolerance (np.isclose: 1e-5 relative) spans several bins
    # (seeded defect C18d) — edges on grid frequencies, between them, and one bin below Nyquist
    {"N": 400000, "fs": 1000.0, "lo": 100.0, "hi": 300.0, "exact": False, "edge_mode": 0, "seed": 10, "rng_none": False},   # bins 40000 and 120000
    {"N": 2 ** 20, "fs": 1.0, "lo": 0.05, "hi": 0.3, "exact": False, "edge_mode": 6, "seed": 11, "rng_none": False},
    {"N": 600001, "fs": 48000.0, "lo": 1234.5, "hi": 20000.0, "exact": False, "edge_mode": 6, "seed": 12, "rng_none": False},
    {"N": 2 ** 19, "fs": 2.0 ** 19, "lo": 150000.0, "hi": 262143.0, "exact": True, "edge_mode": 0, "seed": 13, "rng_none": False},   # df = 1 exactly
    {"N": 300000, "fs": 3.0e-3, "lo": 1.0e-3, "hi": 1.2e-3, "exact": False, "edge_mode": 0, "seed": 14, "rng_none": False},           # df = 1e-8 Hz
]


def white_case(rng: np.random.Generator, n: int) -> Dict[str, Any]:
    return {"fs": float(10.0 ** rng.uniform(-2, 5)), "psd": float(10.0 ** rng.uniform(-6, 4)), "seed": int(rng.integers(0, 2 ** 31)), "n": int(n)}


# ------------------------------------------------------------------------------------------------ oracle checks (REAL code only)
def _viol(P: C.Part, what: str, sig: Dict[str, Any], rep: Dict[str, Any]):
    P.violations.append(C.Violation(what=what, signature=sig, replay=rep))


def alpha_dump(c):
    return {"kind": "alpha", "fs": c["fs"], "fmin": c["fmin"], "fmax": c["fmax"], "alpha": c["alpha"], "pink": bool(c.get("pink"))}


def freqz_density(g, f: np.ndarray) -> np.ndarray:
    """two-sided density of the generator's output at f from its coefficient ARRAYS as they stand (every column of every row), evaluated with
    scipy.signal.freqz section by section: (white variance / fs) * scaling^2 * prod |A_i(e^jw) / B_i(e^jw)|^2  (the property's `observe_at`)"""
    from scipy import signal
    A = np.atleast_2d(np.asarray(g._a_coeffs, dtype=float))
    B = np.atleast_2d(np.asarray(g._b_coeffs, dtype=float))
    w = 2.0 * np.pi * np.asarray(f, dtype=float) / float(g.fs)
    H2 = np.ones(len(w))
    for i in range(A.shape[0]):
        _, h = signal.freqz(A[i], B[i], worN=w)
        H2 = H2 * np.abs(h) ** 2
    return float(g._whitenoise.rms) ** 2 / float(g.fs) * float(g._scaling) ** 2 * H2


def check_level_freqz(P: C.Part, g, c: Dict[str, Any], rep: Dict[str, Any], pre: str = "") -> None:
    """the LEVEL predicate of C18 on a constructed generator, whatever way it was constructed: the two-sided density computed with freqz from the
    coefficient arrays, at mid-band sqrt(gen.fmin gen.fmax) and at 1 Hz when 1 Hz lies between the generator's corners, against f^-alpha.
    Allowed: exactly what the ripple probe of check_alpha allows at the same frequency (1.5 x reference envelope, interior / near-corner column;
    beyond the literal 1.25 dB but inside the envelope = known finding D13, same signature and the same cap of 4 reports per run)."""
    fs, alpha = float(c["fs"]), float(c["alpha"])
    try:
        ge_lo, ge_hi = float(g.fmin), float(g.fmax)
        n = int(np.atleast_2d(np.asarray(g._a_coeffs)).shape[0])
        nyq = fs / 2.0
        if not (0.0 < ge_lo <= ge_hi and n >= 1 and np.isfinite(ge_hi)):
            return                                  # reported by check_alpha as 'no usable cascade'
        fm = math.sqrt(ge_lo * ge_hi)
        fp = [fm] if ge_lo < fm < min(ge_hi, nyq) else []
        if ge_lo < 1.0 < ge_hi and 1.0 < nyq:
            fp.append(1.0)
        if not fp:
            return
        fp = np.array(fp)
        S = freqz_density(g, fp)
        _, relS = real_response(g, fp)              # conditioning of evaluating a first-order section at these frequencies (same bound as the probe)
    except Exception as ex:
        P.cases += 1
        _viol(P, f"{pre}alpha_noise(fs={fs}, fmin={c['fmin']}, fmax={c['fmax']}, alpha={alpha}): the coefficient arrays cannot be evaluated with scipy.signal.freqz: {ex!r}",
              {"sub": "level-freqz", "envelope": "beyond", "raises": True}, rep)
        return
    dp = (math.log10(c["fmax"]) - math.log10(c["fmin"])) / n
    dev = LN10_10 * (np.log(S) + alpha * np.log(fp))
    slack = LN10_10 * relS * 1.01
    interior = (fp >= ge_lo * 10.0 ** (2 * dp)) & (fp <= ge_hi / 10.0 ** (2 * dp))
    tol = np.where(interior, ripple_tol_db(alpha, True), ripple_tol_db(alpha, False)) + slack
    P.cases += len(fp)
    P.hit("alpha:level-freqz", len(fp))
    if len(fp) == 2 or fp[0] == 1.0:
        P.hit("alpha:level-freqz-1Hz")
    bad = ~(np.abs(dev) <= tol)
    if bad.any():
        j = int(np.argmax(np.where(np.isfinite(dev), np.abs(dev) - tol, np.inf)))
        _viol(P, f"{pre}alpha_noise(fs={fs}, fmin={c['fmin']}, fmax={c['fmax']}, alpha={alpha}): level from the coefficient arrays (scipy.signal.freqz): two-sided density at "
                 f"f={float(fp[j])!r} Hz ({'1 Hz' if fp[j] == 1.0 else 'mid-band'}) is {float(S[j])!r}, f^-alpha = {float(fp[j] ** (-alpha))!r}: {dev[j]:+.3f} dB (allowed {tol[j]:.3f} dB; "
                 f"{'interior' if interior[j] else 'near a corner'}; corners {ge_lo!r}..{ge_hi!r}, {n} sections)",
              {"sub": "level-freqz", "at1Hz": bool(fp[j] == 1.0), "interior": bool(interior[j]), "envelope": "beyond"}, dict(rep, f=float(fp[j])))
    elif (np.abs(dev) > STRICT_RIPPLE_DB + slack).any() and getattr(P, "_d13", 0) < 4:
        j = int(np.argmax(np.abs(dev) - slack))
        P._d13 = getattr(P, "_d13", 0) + 1
        _viol(P, f"{pre}alpha_noise(fs={fs}, fmin={c['fmin']}, fmax={c['fmax']}, alpha={alpha}): two-sided density (freqz of the coefficient arrays) at f={float(fp[j])!r} Hz deviates from "
                 f"f^-alpha by {dev[j]:+.3f} dB (> {STRICT_RIPPLE_DB} dB; {'interior' if interior[j] else 'near a corner'}; corners {ge_lo!r}..{ge_hi!r}, {n} sections)",
              {"sub": "ripple", "interior": bool(interior[j]), "envelope": "within-reference"}, dict(rep, f=float(fp[j])))


class _Impulse:
    """stands in for the generator's white source: a unit impulse, so that get_series returns the impulse response of the real pipeline"""
    def __init__(self, rms):
        self.rms = rms
        self.k = 0

    def get_series(self, n):
        a = np.zeros(int(n), dtype=np.float64)
        if self.k == 0 and n > 0:
            a[0] = 1.0
        self.k += int(n)
        return a


def check_alpha(P: C.Part, c: Dict[str, Any], nfreq: int = 192, impulse_max: int = 60000, g=None, rep: Optional[Dict[str, Any]] = None,
                pre: str = "", pristine: bool = False) -> None:
    """everything C18 says about the 1/f^alpha shaping filter, on the real generator.
    Without `g` the generator is constructed here from `c`.  With `g` (a member of a call HISTORY, see check_history) the very same predicates are
    evaluated on that object as it stands at the end of the history: `rep` is then the replay of the whole history, `pre` a label for the messages,
    and `pristine` says that nothing has been drawn from it yet (only then the impulse run goes through the member itself)."""
    member = g is not None
    rep = alpha_dump(c) if rep is None else rep
    fs, fmin_u, fmax_u, alpha = c["fs"], c["fmin"], c["fmax"], c["alpha"]
    if g is None:
        try:
            g = make_gen(c)
        except Exception as ex:
            P.cases += 1
            _viol(P, f"{pre}alpha_noise(fs={fs}, fmin={fmin_u}, fmax={fmax_u}, alpha={alpha}) raised {ex!r} for valid parameters (0.01 <= alpha <= 2, fs >= 2 fmax)",
                  {"sub": "alpha-construct", "raises": True}, rep)
            return
    a0, a1, b1c = sections(g)
    n = len(a0)
    P.cases += 1
    P.hit("alpha:pink" if c.get("pink") else "alpha")
    P.hit(f"alpha:sections={'1' if n == 1 else '2-5' if n <= 5 else '6-20' if n <= 20 else '>20'}")
    if fs == 2.0 * fmax_u:
        P.hit("alpha:fmax=fs/2")
    ge_lo, ge_hi = float(g.fmin), float(g.fmax)
    inside1 = ge_lo < 1.0 < ge_hi
    if n >= 2:
        P.nontrivial.add(("alpha", round(alpha, 1), n, fs == 2.0 * fmax_u, inside1))
    if not (n >= 1 and np.all(np.isfinite(a0)) and np.all(np.isfinite(a1)) and np.all(np.isfinite(b1c)) and 0.0 < ge_lo <= ge_hi):
        _viol(P, f"{pre}alpha_noise(fs={fs}, fmin={fmin_u}, fmax={fmax_u}, alpha={alpha}): no usable cascade (sections={n}, gen.fmin={ge_lo}, gen.fmax={ge_hi})",
              {"sub": "alpha-construct"}, rep)
        return
    check_level_freqz(P, g, c, rep, pre)           # level at mid-band / 1 Hz from the coefficient arrays via freqz: for EVERY constructed generator, before anything returns
    if c.get("pink"):                              # glue: pink_noise is alpha_noise with alpha = 1
        g1 = _noise().alpha_noise(fs, fmin_u, fmax_u, 1.0, init_filter=False, seed=0)
        same = np.array_equal(g1._a_coeffs, g._a_coeffs) and np.array_equal(g1._b_coeffs, g._b_coeffs) and g1._scaling == g._scaling and g.alpha == 1.0
        P.cases += 1
        if not same:
            _viol(P, f"{pre}pink_noise(fs={fs}, fmin={fmin_u}, fmax={fmax_u}) is not alpha_noise(alpha=1): coefficients / scaling / alpha attribute differ",
                  {"sub": "pink-wrapper"}, rep)

    # (c) white source of the generator: unit two-sided density  (variance fs)
    w0 = float(g._whitenoise.rms) ** 2 / fs
    P.cases += 1
    if not abs(w0 - 1.0) <= 8 * U:
        _viol(P, f"{pre}alpha_noise white source: rms^2/fs = {w0!r}, expected 1 (two-sided unit density), fs={fs}", {"sub": "alpha-white-source"}, rep)

    # (5') the generator's OWN section coefficients = the bilinear design for ITS sampling rate at the prescribed corners (forward form of (5) + (a);
    # this is the predicate that a generator built late in a call history must satisfy exactly like one built alone).  A corner that is off by
    # the relative amount e <= logerr moves a0 by <= 2 e a0, a1 by <= e (pi fmax_i/den + |a1|) <= 2 e a0, b1 by <= 2 e; the library's own
    # three operations per coefficient add <= 16 u a0 (same allowance as (5)).
    ld = np.longdouble
    pi_l = ld(np.pi)
    dp = (math.log10(fmax_u) - math.log10(fmin_u)) / n
    i = np.arange(n)
    exp_lo = fmin_u * 10.0 ** (dp * (i + 0.5 - alpha / 4.0))
    exp_hi = fmin_u * 10.0 ** (dp * (i + 0.5 + alpha / 4.0))
    logerr = 64 * U * (abs(math.log10(2 * np.pi * fmin_u)) + abs(math.log10(2 * np.pi * fmax_u)) + 1.0) * math.log(10.0) + 1e-12   # 10^x amplifies the rounding of x
    den_o = ld(fs) + pi_l * exp_lo.astype(ld)
    d_a0 = np.asarray((ld(fs) + pi_l * exp_hi.astype(ld)) / den_o, dtype=float)
    d_a1 = np.asarray(-(ld(fs) - pi_l * exp_hi.astype(ld)) / den_o, dtype=float)
    d_b1c = np.asarray(-(ld(fs) - pi_l * exp_lo.astype(ld)) / den_o, dtype=float)       # stored with the sign of the denominator polynomial
    tol_o = (16 * U + 2 * logerr) * np.abs(d_a0)
    P.cases += 1
    for nm, got, exp in (("a0", a0, d_a0), ("a1", a1, d_a1), ("-b1", b1c, d_b1c)):
        d = np.abs(got - exp)
        j = int(np.argmax(d - tol_o))
        if not d[j] <= tol_o[j]:
            _viol(P, f"{pre}alpha_noise(fs={fs}, fmin={fmin_u}, fmax={fmax_u}, alpha={alpha}): stored coefficient {nm} of section {j} of {n} is {float(got[j])!r}, the bilinear "
                     f"design for fs={fs} with corners {float(exp_lo[j])!r}..{float(exp_hi[j])!r} Hz gives {float(exp[j])!r} (tol {tol_o[j]:.3g})",
                  {"sub": "coeff-design", "coef": nm, "history": member}, rep)
            return

    # (5) per-section coefficients = the bilinear design formula, and the per-section theorems' conclusions on the real numbers
    t_lo = 10.0 ** np.linspace(math.log10(fmin_u) - 0.3, math.log10(fmax_u) + 0.3, 5)
    t_hi = t_lo * np.array([1.0, 1.3, 4.0, 0.5, 10.0])            # includes fmax < fmin and fmax = fmin: the formula does not care
    r0, r1, r2 = g._calc_filter_coeffs(t_lo.copy(), t_hi.copy())
    den = ld(fs) + pi_l * t_lo.astype(ld)
    e0 = (ld(fs) + pi_l * t_hi.astype(ld)) / den
    e1 = -(ld(fs) - pi_l * t_hi.astype(ld)) / den
    e2 = (ld(fs) - pi_l * t_lo.astype(ld)) / den
    scale = np.asarray((ld(fs) + pi_l * np.maximum(t_lo, t_hi).astype(ld)) / den, dtype=float)
    P.cases += 1
    for nm, got, exp in (("a0", r0, e0), ("a1", r1, e1), ("b1", r2, e2)):
        d = np.abs(np.asarray(got, dtype=float) - np.asarray(exp, dtype=float))
        j = int(np.argmax(d / scale))
        if not d[j] <= 16 * U * scale[j]:
            _viol(P, f"{pre}_calc_filter_coeffs(fs={fs}, f_min={float(t_lo[j])!r}, f_max={float(t_hi[j])!r}): {nm} = {float(np.asarray(got)[j])!r}, bilinear design gives {float(exp[j])!r}",
                  {"sub": "coeff-formula", "coef": nm}, dict(rep, f_lo=float(t_lo[j]), f_hi=float(t_hi[j])))
            return

    # recover the corners of the real sections (inverse of the design formula; in extended precision)
    sec_lo = np.asarray(ld(fs) * (1 + b1c.astype(ld)) / (pi_l * (1 - b1c.astype(ld))), dtype=float)       # b1c = -(fs - pi f)/(fs + pi f)
    sec_hi = np.asarray(ld(fs) * (a0.astype(ld) + a1.astype(ld)) / (pi_l * (a0.astype(ld) - a1.astype(ld))), dtype=float)
    cond_lo = 16 * U * fs / (np.pi * np.maximum(sec_lo, 1e-300)) + 1e-12                                     # relative accuracy of that inversion
    cond_hi = 16 * U * fs / (np.pi * np.maximum(sec_hi, 1e-300)) * np.maximum(1.0, np.abs(a0)) + 1e-12

    # (a) corner placement (DESIGN C18-a): log-equispaced with pitch dp = log10(fmax/fmin)/n, offsets -/+ alpha/4, and gen.fmin / gen.fmax are the outer ones
    P.cases += 1
    for nm, got, exp, cnd in (("fmin_i", sec_lo, exp_lo, cond_lo), ("fmax_i", sec_hi, exp_hi, cond_hi)):
        rel = np.abs(got - exp) / exp
        j = int(np.argmax(rel - cnd))
        if not rel[j] <= cnd[j] + logerr:
            _viol(P, f"{pre}alpha_noise(fs={fs}, fmin={fmin_u}, fmax={fmax_u}, alpha={alpha}): section {j} of {n} has {nm} = {float(got[j])!r}, "
                     f"log-equispaced placement with alpha/4 offset gives {float(exp[j])!r} (rel {rel[j]:.3g}, tol {cnd[j] + logerr:.3g})",
                  {"sub": "corner-placement", "which": nm}, rep)
            return
    P.cases += 1
    for nm, got, exp in (("gen.fmin", ge_lo, exp_lo[0]), ("gen.fmax", ge_hi, exp_hi[-1])):
        if not abs(got - exp) <= logerr * exp:
            _viol(P, f"{pre}alpha_noise(fs={fs}, fmin={fmin_u}, fmax={fmax_u}, alpha={alpha}): {nm} = {got!r}, outer corner of the cascade is {exp!r}",
                  {"sub": "effective-corner", "which": nm}, rep)
            return

    # (4) cascade response of the real coefficients = the closed form at the effective corners and a spread of frequencies; DC and Nyquist gain
    nyq = fs / 2.0
    fint = np.unique(np.concatenate([10.0 ** np.linspace(math.log10(ge_lo), math.log10(ge_hi), nfreq + 2)[1:-1],
                                     [math.sqrt(ge_lo * ge_hi)]]))
    fint = fint[(fint > ge_lo) & (fint < ge_hi) & (fint < nyq)]
    fprobe = np.unique(np.concatenate([fint, [ge_lo, min(ge_hi, nyq * (1 - 1e-9)), ge_lo / 10.0, min(ge_hi * 3.0, nyq * 0.999)]]))
    H2, rel = real_response(g, fprobe)
    cf = closed_form(fs, exp_lo, exp_hi, fprobe)
    # the closed form itself is perturbed by the corner rounding (logerr per corner) -> 2 n logerr relative at most (each factor is monotone in its corner)
    tolr = rel + 4 * n * logerr
    bad = np.abs(H2 - cf) > tolr * cf
    P.cases += len(fprobe)
    if bad.any():
        j = int(np.argmax(np.abs(H2 - cf) / cf - tolr))
        _viol(P, f"{pre}alpha_noise(fs={fs}, fmin={fmin_u}, fmax={fmax_u}, alpha={alpha}): |H|^2 of the real cascade at f={float(fprobe[j])!r} is {float(H2[j])!r}, "
                 f"closed form prod (Om^2+wmax_i^2)/(Om^2+wmin_i^2) gives {float(cf[j])!r} (rel tol {tolr[j]:.3g})",
              {"sub": "cascade-closed-form"}, dict(rep, f=float(fprobe[j])))
        return
    sc2 = float(g._scaling) ** 2
    dc = float(np.prod(((a0.astype(ld) + a1.astype(ld)) / (1 + b1c.astype(ld))) ** 2))
    dc_cond = 1e-10 + 64 * U * float(np.sum(2.0 / np.abs(a0 + a1) + 2.0 / np.abs(1 + b1c)))
    ny = float(np.prod(((a0 - a1) / (1 - b1c)) ** 2))
    exp_dc = (fmax_u / fmin_u) ** alpha
    P.cases += 3
    if not abs(dc - exp_dc) <= (dc_cond + 4 * n * logerr) * exp_dc:
        _viol(P, f"{pre}alpha_noise(fs={fs}, fmin={fmin_u}, fmax={fmax_u}, alpha={alpha}): DC power gain of the cascade = {dc!r}, expected (fmax/fmin)^alpha = {exp_dc!r}",
              {"sub": "dc-gain"}, rep)
    if not abs(ny - 1.0) <= 64 * U * n + 1e-12:
        _viol(P, f"{pre}alpha_noise(fs={fs}, fmin={fmin_u}, fmax={fmax_u}, alpha={alpha}): Nyquist power gain of the cascade = {ny!r}, expected 1", {"sub": "nyquist-gain"}, rep)
    exp_sc2 = ge_hi ** (-alpha)
    if not abs(sc2 - exp_sc2) <= 64 * U * (1 + alpha * abs(math.log(ge_hi))) * exp_sc2:
        _viol(P, f"{pre}alpha_noise(fs={fs}, fmin={fmin_u}, fmax={fmax_u}, alpha={alpha}): output scaling^2 = {sc2!r}, expected gen.fmax^-alpha = {exp_sc2!r} "
                 f"(density continuous at the upper corner)", {"sub": "scaling"}, rep)

    # (b) PROBE (not a theorem): two-sided density vs f^-alpha strictly between the effective corners, and at 1 Hz
    if len(fint):
        fp = fint
        if inside1 and 1.0 < nyq:
            fp = np.unique(np.concatenate([fint, [1.0]]))
        S, relS = density(g, fp)
        dev = LN10_10 * (np.log(S) + alpha * np.log(fp))
        slack = LN10_10 * relS * 1.01
        interior = (fp >= ge_lo * 10.0 ** (2 * dp)) & (fp <= ge_hi / 10.0 ** (2 * dp))
        tol = np.where(interior, ripple_tol_db(alpha, True), ripple_tol_db(alpha, False)) + slack
        P.cases += len(fp)
        P.hit("alpha:ripple-probe-freqs", len(fp))
        P.hit("alpha:ripple-interior-freqs", int(interior.sum()))
        worst = float(np.max(np.abs(dev)))
        P.worst_ripple = max(getattr(P, "worst_ripple", 0.0), worst)
        if interior.any():
            P.worst_ripple_int = max(getattr(P, "worst_ripple_int", 0.0), float(np.max(np.abs(dev[interior]))))
        bad = np.abs(dev) > tol
        if bad.any():
            j = int(np.argmax(np.abs(dev) - tol))
            at1 = bool(fp[j] == 1.0)
            _viol(P, f"{pre}alpha_noise(fs={fs}, fmin={fmin_u}, fmax={fmax_u}, alpha={alpha}): two-sided density at f={float(fp[j])!r} Hz is {float(S[j])!r}, f^-alpha = {float(fp[j] ** (-alpha))!r}: "
                     f"{dev[j]:+.3f} dB (allowed {tol[j]:.3f} dB = 1.5 x worst of the reference tree; {'interior' if interior[j] else 'near a corner'}; "
                     f"effective corners {ge_lo!r}..{ge_hi!r}, {n} sections)",
                  {"sub": "density-at-1Hz" if at1 else "ripple", "interior": bool(interior[j]), "envelope": "beyond"}, dict(rep, f=float(fp[j])))
        elif (np.abs(dev) > STRICT_RIPPLE_DB + slack).any() and getattr(P, "_d13", 0) < 4:
            # the literal reading of "to within about 1 dB" (taken as 1.25 dB) is missed on the unchanged tree near the corners for larger
            # alpha: recorded as known finding D13; only deviations beyond the measured reference envelope (above) are new violations
            j = int(np.argmax(np.abs(dev) - slack))
            P._d13 = getattr(P, "_d13", 0) + 1
            _viol(P, f"{pre}alpha_noise(fs={fs}, fmin={fmin_u}, fmax={fmax_u}, alpha={alpha}): two-sided density at f={float(fp[j])!r} Hz deviates from f^-alpha by "
                     f"{dev[j]:+.3f} dB (> {STRICT_RIPPLE_DB} dB; {'interior' if interior[j] else 'near a corner'}; effective corners {ge_lo!r}..{ge_hi!r}, {n} sections)",
                  {"sub": "ripple", "interior": bool(interior[j]), "envelope": "within-reference"}, dict(rep, f=float(fp[j])))
        if inside1 and 1.0 < nyq:
            P.hit("alpha:1Hz-inside")

    # glue: the filter that get_series really runs has this response (impulse through the real pipeline, DTFT vs the coefficients' response)
    p = float(np.max(np.abs(b1c)))
    if p < 1.0:
        M = int(math.ceil(math.log(1e-11) / math.log(p))) + 32 if p > 0 else 64
        if M <= impulse_max and (pristine or not member):
            g2 = g if member else make_gen(c)      # history member: the impulse goes through the member itself (its first and only use)
            g2._whitenoise = _Impulse(g2._whitenoise.rms)
            h = np.asarray(g2.get_series(M), dtype=float)
            ft = np.array([0.0, ge_lo, math.sqrt(ge_lo * ge_hi), min(ge_hi, nyq), nyq * 0.73, nyq])
            nn = np.arange(M)
            got = np.array([np.sum(h * np.exp(-2j * np.pi * (f / fs) * nn)) for f in ft])
            z = np.exp(-2j * np.pi * ft / fs)
            exp_h = np.full(len(ft), float(g._scaling), dtype=complex)
            for k in range(n):
                exp_h = exp_h * (a0[k] + a1[k] * z) / (1.0 + b1c[k] * z)
            l1 = float(np.sum(np.abs(h)))
            tol_h = 1e-7 * l1 + 10.0 * abs(h[-1]) / (1.0 - p) * n
            P.cases += len(ft)
            P.hit("alpha:impulse-run")
            if len(h) != M or not np.all(np.abs(got - exp_h) <= tol_h):
                j = int(np.argmax(np.abs(got - exp_h))) if len(h) == M else 0
                _viol(P, f"{pre}alpha_noise(fs={fs}, fmin={fmin_u}, fmax={fmax_u}, alpha={alpha}).get_series on a unit impulse: transfer function at f={float(ft[j])!r} is "
                         f"{complex(got[j])!r}, the stored coefficients and scaling give {complex(exp_h[j])!r} (tol {tol_h:.3g})",
                      {"sub": "impulse-response"}, dict(rep, f=float(ft[j])))


def fft_dump(c):
    if "gseed" in c and c["N"] > 2048:             # long spectrum: a pure function of (gseed, N, kind), see fft_case_from_seed
        return {"kind": "fftnoise", "N": c["N"], "fkind": c["kind"], "dtype": c["dtype"], "gseed": c["gseed"], "seed": c["seed"], "rng_none": c["rng_none"],
                "again": bool(c.get("again"))}
    return {"kind": "fftnoise", "N": c["N"], "fkind": c["kind"], "dtype": c["dtype"], "f": cx_dump(c["f"]), "seed": c["seed"], "rng_none": c["rng_none"],
            "again": bool(c.get("again"))}


def fft_input(c: Dict[str, Any]) -> np.ndarray:
    """the array handed to fftnoise, in the dtype the case asks for"""
    f = np.asarray(c["f"])
    dt = c["dtype"]
    if dt == "float":
        return np.array(f.real, dtype=float, copy=True)
    if dt == "int64":
        return np.array(np.rint(f.real), dtype=np.int64)
    if dt == "complex64":
        return np.array(f, dtype=np.complex64)
    return np.array(f, dtype=complex, copy=True)


def prescribed_magnitudes(keep: np.ndarray) -> np.ndarray:
    """what C18 prescribes for |DFT(x)[k]|: |Re f[0]| at DC, |f[k]| on the positive side 1..Np and on its mirror N-k, |Re f[N/2]| at Nyquist (even N)"""
    kc = np.asarray(keep).astype(complex)
    N = len(kc)
    Np = (N - 1) // 2
    mag = np.zeros(N)
    mag[0] = abs(kc[0].real)
    mag[1:Np + 1] = np.abs(kc[1:Np + 1])
    mag[N - np.arange(1, Np + 1)] = mag[1:Np + 1]
    if N % 2 == 0:
        mag[N // 2] = abs(kc[N // 2].real)
    return mag


def direct_dft(x: np.ndarray, bins: List[int]) -> Tuple[np.ndarray, float]:
    """DFT of x at a few bins straight from the definition (independent of np.fft), and a forward bound of its rounding error.
    The phase index (k n) mod N is exact in int64 (k n < 2^53 for N < 9e7); the angle 2 pi r / N carries <= 2 roundings, cos / sin are accurate to
    an ulp: every term is off by <= 16 u |x[n]|; NumPy's pairwise sum (blocks of 128) adds <= (128 + log2 N) u sum|x[n]|."""
    N = len(x)
    n = np.arange(N, dtype=np.int64)
    out = np.zeros(len(bins), dtype=complex)
    for i, k in enumerate(bins):
        th = (2.0 * np.pi / N) * ((int(k) * n) % N).astype(float)
        out[i] = np.sum(x * np.cos(th)) - 1j * np.sum(x * np.sin(th))
    return out, 256.0 * U * float(np.sum(np.abs(x)))


def spread_bins(N: int, consts: List[int], rng: np.random.Generator, n_random: int = 3) -> List[int]:
    """bins spread over the whole spectrum: both ends, both sides of the middle, around every mined constant and its mirror, a few random ones"""
    b = [N - 1, (N - 1) // 2, N // 2 + 1, 1, 0, N // 2, N - 2]
    for c in consts:
        if 0 < c < N:
            b += [c, N - c, (N // c) * c + 1]
    b += [int(v) for v in rng.integers(0, N, size=n_random)]
    out: List[int] = []
    for k in b:
        if 0 <= k < N and k not in out:
            out.append(int(k))
    # cost is O(N) per bin: 16 bins, 10 beyond 3e5 samples; the ends, the middle and the first mined constants are kept
    return out[:10 if N > 300000 else 16]


def _fft_predicate(P: C.Part, c: Dict[str, Any], f_in: np.ndarray, keep: np.ndarray, rng, rep: Dict[str, Any], tag: str = "") -> Optional[np.ndarray]:
    """one call of the real fftnoise on f_in + everything C18 says about its result; returns the series (None after a violation)"""
    noise = _noise()
    N = c["N"]
    try:
        x = noise.fftnoise(f_in, rng=rng)
    except Exception as ex:
        _viol(P, f"fftnoise{tag} raised {ex!r} for a length-{N} spectrum ({c['dtype']})", {"sub": "fftnoise-raises", "parity": N % 2}, rep)
        return None
    if not (isinstance(x, np.ndarray) and x.ndim == 1 and x.shape[0] == N and np.isrealobj(x) and x.dtype.kind == "f"):
        _viol(P, f"fftnoise{tag}: result is not a real float array of length {N}: type={type(x).__name__} dtype={getattr(x, 'dtype', None)} shape={getattr(x, 'shape', None)}",
              {"sub": "fftnoise-real"}, rep)
        return None
    if not np.array_equal(keep.view(np.uint8), f_in.view(np.uint8)):        # bit pattern of the caller's array
        _viol(P, f"fftnoise{tag} modified its input spectrum (N={N}, dtype={c['dtype']})", {"sub": "fftnoise-mutates-input"}, rep)
    Np = (N - 1) // 2
    mag = prescribed_magnitudes(keep)
    X = np.fft.fft(x)
    tol = fft_tol(N, float(np.linalg.norm(mag)))
    d = np.abs(np.abs(X) - mag)
    if not np.all(d <= tol):
        k = int(np.argmax(d))
        where = "dc" if k == 0 else "nyquist" if (N % 2 == 0 and k == N // 2) else "positive" if k <= Np else "mirror"
        _viol(P, f"fftnoise{tag} N={N}: |DFT(x)[{k}]| = {float(abs(X[k]))!r}, prescribed magnitude {float(mag[k])!r} ({where} bin; tol {tol:.3g})",
              {"sub": "fftnoise-magnitude", "bin": where, "parity": N % 2, "long": bool(N > 4096)}, rep)
        return None
    return x


def check_fftnoise(P: C.Part, c: Dict[str, Any], consts: Optional[List[int]] = None) -> None:
    N = c["N"]
    f_in = fft_input(c)
    keep = f_in.copy()
    rng = None if c["rng_none"] else np.random.default_rng(c["seed"])
    P.cases += 1
    P.hit("fft:N=" + ("2" if N == 2 else "3" if N == 3 else "odd" if N % 2 else "even"))
    P.hit(f"fft:kind{c['kind']}")
    if c["rng_none"]:
        P.hit("fft:rng=None")
    rep = fft_dump(c)
    if N >= 3 and np.any(keep != 0):
        P.nontrivial.add(("fft", N, c["kind"]))
    x = _fft_predicate(P, c, f_in, keep, rng, rep)
    if x is None:
        return
    if N > 4096:
        # long spectra: a handful of bins spread over the whole spectrum (first, last, both sides of the middle, around the mined constants and
        # their mirrors) once more from the DEFINITION of the DFT, so that the verdict does not rest on np.fft.fft alone
        P.hit("fft:long")
        P.hit("fft:long:" + ("prime" if _is_prime(N) else "pow2" if N & (N - 1) == 0 else "odd" if N % 2 else "even"))
        bins = spread_bins(N, consts or [], np.random.default_rng([c["seed"], N]))
        Xd, err = direct_dft(x, bins)
        mag = prescribed_magnitudes(keep)
        tol = fft_tol(N, float(np.linalg.norm(mag))) + err
        P.cases += len(bins)
        P.hit("fft:long:direct-dft-bins", len(bins))
        dd = np.abs(np.abs(Xd) - mag[bins])
        if not np.all(dd <= tol):
            j = int(np.argmax(dd))
            _viol(P, f"fftnoise N={N}: DFT of the series at bin {bins[j]} evaluated from the definition has magnitude {float(abs(Xd[j]))!r}, prescribed {float(mag[bins[j]])!r} (tol {tol:.3g})",
                  {"sub": "fftnoise-magnitude", "bin": "direct", "parity": N % 2, "long": True}, rep)
            return
    if c.get("again"):
        # the SAME input array a second time, with other phases: the prescription is a property of every call, the input is still untouched
        P.cases += 1
        P.hit("fft:second-call-same-array")
        _fft_predicate(P, c, f_in, keep, np.random.default_rng(c["seed"] + 1), rep, tag=" (second call on the same input array)")


def band_dump(c):
    return {"kind": "band", **{k: c[k] for k in ("N", "fs", "lo", "hi", "exact", "edge_mode", "seed", "rng_none")}}


def bin_freqs(N: int, fs: float) -> np.ndarray:
    """|frequency| of DFT bin k, computed from the definition (not through the library)"""
    k = np.arange(N)
    kk = np.where(2 * k < N, k, k - N).astype(float)
    return np.abs(kk) * fs / N


def near_edges(fk: np.ndarray, lo: float, hi: float) -> np.ndarray:
    """bins whose |frequency| is within 1e-12 (relative to the grid scale) of a band edge: decided by rounding on a non-binary grid.
    Bin 0 is never one of them: its frequency is exactly 0 in any arithmetic."""
    sc = max(float(fk.max()), 1e-300)
    near = (np.abs(fk - lo) <= 1e-12 * max(lo, sc)) | (np.abs(fk - hi) <= 1e-12 * max(hi, sc))
    return near & (fk != 0.0)


def check_band(P: C.Part, c: Dict[str, Any]) -> None:
    noise = _noise()
    N, fs, lo, hi = c["N"], c["fs"], c["lo"], c["hi"]
    rng = None if c["rng_none"] else np.random.default_rng(c["seed"])
    rep = band_dump(c)
    P.cases += 1
    P.hit(f"band:edge_mode{c['edge_mode']}")
    P.hit("band:" + ("odd" if N % 2 else "even") + ("-exactgrid" if c["exact"] else ""))
    try:
        x = noise.band_limited_noise(lo, hi, samples=N, samplerate=fs, rng=rng)
    except Exception as ex:
        _viol(P, f"band_limited_noise({lo!r}, {hi!r}, samples={N}, samplerate={fs!r}) raised {ex!r} for a valid band (0 <= lo <= hi <= fs/2)",
              {"sub": "band-raises"}, rep)
        return
    if not (isinstance(x, np.ndarray) and x.shape == (N,) and np.isrealobj(x) and x.dtype.kind == "f"):
        _viol(P, f"band_limited_noise: result is not a real float array of length {N}", {"sub": "band-real"}, rep)
        return
    fk = bin_freqs(N, fs)
    # a bin whose frequency is within 1e-12 relative of an edge is decided by rounding unless the grid is exact (binary N and fs)
    near = near_edges(fk, lo, hi)
    inside = (fk >= lo) & (fk <= hi)
    decided = np.ones(N, dtype=bool) if c["exact"] else ~near
    # for an undecided bin its mirror partner is undecided too (same |frequency|)
    P.unstable += int((~decided).sum())
    n_in = int((inside & decided).sum())
    n_out = int((~inside & decided).sum())
    if n_in and n_out:
        P.nontrivial.add(("band", N, c["edge_mode"], lo == 0.0, hi == fs / 2.0))
    if c["exact"] and near.any():
        P.hit("band:edge-exactly-on-bin")
    X = np.fft.fft(x)
    tol = fft_tol(N, math.sqrt(max(int(inside.sum()) + int((near & ~inside).sum()), 0)))
    A = np.abs(X)
    bad_out = decided & ~inside & ~(A <= tol)
    bad_in = decided & inside & ~(np.abs(A - 1.0) <= tol)
    if bad_out.any():
        k = int(np.argmax(np.where(bad_out, A, -1)))
        _viol(P, f"band_limited_noise({lo!r}, {hi!r}, samples={N}, samplerate={fs!r}): bin {k} at |f| = {float(fk[k])!r} Hz is OUTSIDE the band but has |DFT| = {float(A[k])!r} (tol {tol:.3g})",
              {"sub": "band-leak", "nyquist": bool(N % 2 == 0 and k == N // 2), "dc": k == 0}, rep)
    if bad_in.any():
        k = int(np.argmax(np.where(bad_in, np.abs(A - 1.0), -1)))
        on_edge = bool(near[k])
        _viol(P, f"band_limited_noise({lo!r}, {hi!r}, samples={N}, samplerate={fs!r}): bin {k} at |f| = {float(fk[k])!r} Hz is INSIDE the band"
                 f"{' (on an inclusive edge)' if on_edge else ''} but has |DFT| = {float(A[k])!r}, expected 1 (tol {tol:.3g})",
              {"sub": "band-missing", "on_edge": on_edge, "nyquist": bool(N % 2 == 0 and k == N // 2), "dc": k == 0}, rep)


def check_white(P: C.Part, c: Dict[str, Any]) -> None:
    noise = _noise()
    fs, psd, n = c["fs"], c["psd"], c["n"]
    rep = {"kind": "white", **c}
    g = noise.white_noise(fs, psd, seed=c["seed"])
    P.cases += 1
    P.hit("white")
    P.nontrivial.add(("white", round(math.log10(fs), 1), round(math.log10(psd), 1)))
    v = float(g.rms) ** 2
    if not (abs(v - psd * fs) <= 8 * U * psd * fs and float(g.fs) == fs):
        _viol(P, f"white_noise(fs={fs!r}, psd={psd!r}): rms^2 = {v!r}, expected psd*fs = {psd * fs!r}", {"sub": "white-rms"}, rep)
        return
    x = np.asarray(g.get_series(n), dtype=float)
    P.cases += 1
    if x.shape != (n,):
        _viol(P, f"white_noise.get_series({n}) returned shape {x.shape}", {"sub": "white-length"}, rep)
        return
    sv = float(np.var(x))
    band = 6.0 * math.sqrt(2.0 / n) + 6.0 ** 2 / n          # 6 sigma of the variance estimator (+ the mean-removal term)
    if not abs(sv - psd * fs) <= band * psd * fs:
        _viol(P, f"white_noise(fs={fs!r}, psd={psd!r}, seed={c['seed']}): sample variance of {n} samples = {sv!r}, psd*fs = {psd * fs!r} "
                 f"(ratio {sv / (psd * fs):.5f}, 6-sigma band +-{band:.4f})", {"sub": "white-variance"}, rep)
    # default psd = 1 (option handling)
    g1 = noise.white_noise(fs, seed=c["seed"])
    P.cases += 1
    if not abs(float(g1.rms) ** 2 - fs) <= 8 * U * fs:
        _viol(P, f"white_noise(fs={fs!r}) with default psd: rms^2 = {float(g1.rms) ** 2!r}, expected fs", {"sub": "white-rms-default"}, rep)


WHITE_PSD_EXT = [1e-100, 1e-30, 1e-12, 1e-3, 1.0, 1e6, 1e12, 1e30, 1e100]
WHITE_FS_EXT = [1e-3, 1.0, 44100.0, 1e9]


def var_band(m: int) -> float:
    """6 sigma of the variance estimator of m independent Gaussian samples, relative to the variance (+ the mean-removal term): same formula as check_white"""
    return 6.0 * math.sqrt(2.0 / m) + 6.0 ** 2 / m


def check_white_ext(P: C.Part, c: Dict[str, Any]) -> None:
    """'white noise has variance psd*fs' at the ends of the (psd, fs) range, through every call form of the constructor, and for LONG requests:
    the sample variance of every eighth of the series and of its last `tail` samples on its own (a block-wise generator that loses the scale
    behind some block boundary keeps the overall variance nearly right), each against its own 6-sigma band."""
    noise = _noise()
    fs, psd, n, form = c["fs"], c["psd"], int(c["n"]), c.get("form", "pos")
    rep = {"kind": "white-ext", **c}
    P.cases += 1
    P.hit(f"white-ext:form={form}")
    try:
        if form == "kw":
            g = noise.white_noise(f_sample=fs, psd=psd, seed=c["seed"])
        elif form == "mixed":
            g = noise.white_noise(fs, psd=psd, seed=c["seed"])
        elif form == "allpos":
            g = noise.white_noise(fs, psd, c["seed"])
        elif form == "noseed":
            g = noise.white_noise(fs, psd)
        else:
            g = noise.white_noise(fs, psd, seed=c["seed"])
    except Exception as ex:
        _viol(P, f"white_noise(fs={fs!r}, psd={psd!r}) [call form {form}] raised {ex!r}", {"sub": "white-construct", "form": form}, rep)
        return
    P.nontrivial.add(("white-ext", round(math.log10(fs)), round(math.log10(psd)), form, n > 65536))
    target = psd * fs
    v = float(g.rms) ** 2
    if not (abs(v - target) <= 8 * U * target and float(g.fs) == fs):
        _viol(P, f"white_noise(fs={fs!r}, psd={psd!r}) [call form {form}]: rms^2 = {v!r}, expected psd*fs = {target!r}", {"sub": "white-rms", "form": form, "extreme": True}, rep)
        return
    if form == "noseed":                               # unseeded: only the deterministic part (a statistical verdict has to be reproducible)
        return
    x = np.asarray(g.get_series(n), dtype=float)
    P.cases += 1
    if x.shape != (n,):
        _viol(P, f"white_noise.get_series({n}) returned shape {x.shape}", {"sub": "white-length"}, rep)
        return
    parts: List[Tuple[str, int, int]] = [("all", 0, n)]
    if n >= 16000:
        e = [int(round(j * n / 8.0)) for j in range(9)]
        parts += [(f"eighth {j + 1}", e[j], e[j + 1]) for j in range(8)]
        tail = int(c.get("tail", 2000))
        parts.append((f"last {tail} samples", n - tail, n))
    xs = x / float(math.sqrt(target))                  # unit variance expected; avoids squaring 1e+-65 sized samples
    for nm, a, b in parts:
        m = b - a
        sv = float(np.var(xs[a:b]))
        P.cases += 1
        P.hit("white-ext:variance-windows")
        if not abs(sv - 1.0) <= var_band(m):
            _viol(P, f"white_noise(fs={fs!r}, psd={psd!r}, seed={c['seed']}).get_series({n}): sample variance of samples [{a}, {b}) ({nm}) = {sv * target!r}, psd*fs = {target!r} "
                     f"(ratio {sv:.5f}, 6-sigma band +-{var_band(m):.4f})", {"sub": "white-variance", "window": nm.split()[0], "long": bool(n > 65536)}, rep)
            return


# ------------------------------------------------------------------------------------------------ call histories
# The property is a statement about a FUNCTION of (fs, fmin, fmax, alpha): what a generator's filter is may not depend on which other generators
# were built or used before it in the same process.  check_alpha builds every generator for a parameter set nobody used before; a HISTORY builds
# several generators that share some of the parameters and differ in the others (same band and exponent at other sampling rates; same fs with
# other exponents / other bands sharing one edge or the section count; exact repeats; red_noise / white_noise at the same fs / fmin in between),
# draws from some of them in between, and then evaluates on EVERY member, as it stands at the end,
#   (1) all predicates of check_alpha (own coefficients vs the bilinear design for ITS fs, corners, closed form, gains, scaling, density probe,
#       impulse run through get_series for members nothing was drawn from) — same code, same tolerances, same D13 handling;
#   (2) white members: rms^2 = psd * fs;
#   (3) "is what a generator constructed ALONE in a fresh state is": the design quantities (coefficient arrays, scaling, fs/fmin/fmax/alpha, white
#       rms) against the same constructor call made in a forked child of a helper process that has imported speckit and done nothing else.  Same
#       code path on the same inputs, so the comparison is at the 4-ulp level (measured: bit-identical); this is the only reference used for
#       red_noise (C18 states no formula for it, only history independence is demanded).  If the helper cannot be run the part is skipped and noted.
HIST_QUANT = {"alpha": ("_a_coeffs", "_b_coeffs", "_scaling", "fs", "fmin", "fmax", "alpha", "_whitenoise.rms"),
              "pink": ("_a_coeffs", "_b_coeffs", "_scaling", "fs", "fmin", "fmax", "alpha", "_whitenoise.rms"),
              "red": ("_a", "_b", "_scaling", "fs", "fmin", "_whitenoise.rms"),
              "white": ("rms", "fs")}


def hist_build(s: Dict[str, Any]):
    noise = _noise()
    k = s["cls"]
    if k == "alpha":
        return noise.alpha_noise(s["fs"], s["fmin"], s["fmax"], s["alpha"], init_filter=bool(s.get("init")), seed=s.get("seed", 0))
    if k == "pink":
        return noise.pink_noise(s["fs"], s["fmin"], s["fmax"], init_filter=bool(s.get("init")), seed=s.get("seed", 0))
    if k == "red":
        return noise.red_noise(s["fs"], s["fmin"], init_filter=bool(s.get("init")), seed=s.get("seed", 0))
    if k == "white":
        return noise.white_noise(s["fs"], s["psd"], seed=s.get("seed", 0))
    raise ValueError(k)


def hist_describe(g, cls: str) -> Dict[str, Any]:
    """the design quantities of a generator: name -> {"shape", "hex"} (exact); attributes the library does not have are left out"""
    out: Dict[str, Any] = {}
    for nm in HIST_QUANT[cls]:
        o = g
        try:
            for part in nm.split("."):
                o = getattr(o, part)
            a = np.asarray(o, dtype=float)
        except Exception:
            continue
        out[nm] = {"shape": list(a.shape), "hex": [float(v).hex() for v in a.reshape(-1)]}
    return out


def _spec_key(s: Dict[str, Any]) -> str:
    # the design quantities are fixed before anything is drawn: the reference is built with init_filter=False (no settling run, no JIT in the child)
    return repr([s["cls"]] + [s.get(k) for k in ("fs", "fmin", "fmax", "alpha", "psd")])


def _fresh_main() -> None:
    """helper process (see fresh_reference): reads a JSON list of construction specs on stdin; every spec is constructed in its own forked child,
    i.e. alone, in the state the library has right after import; prints {"file": path of speckit.noise, "out": [description | {"error"} | None]}"""
    import json
    import os
    import sys
    noise = _noise()
    specs = json.loads(sys.stdin.read())
    out: List[Any] = []
    for s in specs:
        r, w = os.pipe()
        pid = os.fork()
        if pid == 0:
            try:
                os.close(r)
                try:
                    res: Any = hist_describe(hist_build(s), s["cls"])
                except Exception as ex:
                    res = {"error": repr(ex)}
                buf = json.dumps(res).encode()
                while buf:
                    buf = buf[os.write(w, buf):]
            finally:
                os._exit(0)
        os.close(w)
        chunks = []
        while True:
            ch = os.read(r, 1 << 16)
            if not ch:
                break
            chunks.append(ch)
        os.close(r)
        os.waitpid(pid, 0)
        try:
            out.append(json.loads(b"".join(chunks).decode()))
        except Exception:
            out.append(None)
    sys.stdout.write(json.dumps({"file": os.path.abspath(noise.__file__), "out": out}))
    sys.stdout.flush()


def fresh_reference(P: C.Part, specs: List[Dict[str, Any]], timeout: float = 120.0) -> Dict[str, Any]:
    """spec key -> description of that generator constructed alone in a fresh interpreter state ({} if the helper cannot be run)"""
    import json
    import os
    import subprocess
    import sys
    uniq: Dict[str, Dict[str, Any]] = {}
    for s in specs:
        uniq.setdefault(_spec_key(s), dict(s, init=False, seed=0))
    if not uniq or not hasattr(os, "fork"):
        return {}
    try:
        here = os.path.abspath(_noise().__file__)
        root = os.path.dirname(os.path.dirname(here))
        code = "import sys; sys.path[:0] = [sys.argv[1], sys.argv[2]]; from vk.props import C18; C18._fresh_main()"
        pr = subprocess.run([sys.executable, "-W", "ignore", "-c", code, root, C.VERIF], input=json.dumps(list(uniq.values())),
                            capture_output=True, text=True, timeout=timeout)
        data = json.loads(pr.stdout[pr.stdout.index("{"):])
        if data.get("file") != here or len(data["out"]) != len(uniq):
            P.notes.append(f"history: fresh-state helper imported {data.get('file')!r}, the check runs {here!r}: reference not used")
            return {}
        P.hit("history:fresh-references", len(uniq))
        return {k: d for k, d in zip(uniq.keys(), data["out"]) if isinstance(d, dict)}
    except Exception as ex:
        P.notes.append(f"history: fresh-state helper not available ({ex!r}): members are checked against the design only")
        return {}


def _hist_member(rng: np.random.Generator, cls: str, fs: float, fmin: float, fmax: float, alpha: float) -> Dict[str, Any]:
    if cls == "alpha" and alpha == 1.0 and rng.integers(0, 2) == 0:
        cls = "pink"
    s = {"op": "new", "cls": cls, "fs": float(fs), "fmin": float(fmin), "fmax": float(fmax), "alpha": float(alpha),
         "psd": float(10.0 ** rng.uniform(-3, 3)), "seed": int(rng.integers(0, 2 ** 31)), "init": False}
    if cls != "white" and 2.0 * fs / fmin <= 20000 and rng.integers(0, 3) == 0:
        s["init"] = True                            # settling draws 2 fs/fmin samples: only where that is cheap
    return s


def history_from(rng: np.random.Generator, fam: int, fs0: float, fmin: float, fmax: float, alpha: float) -> Dict[str, Any]:
    """a history around the base configuration (fs0 >= 2 fmax is the LOWEST sampling rate used).  Families:
       0 same (fmin, fmax, alpha) at several sampling rates     1 same (fs, fmin, fmax), several exponents
       2 same (fs, alpha), bands sharing fmin / fmax / the width (hence the section count)
       3 mixed: every member changes a random subset of the four parameters; red_noise / white_noise at the same fs / fmin in between; exact repeats"""
    def other_alpha():
        return [0.01, 0.5, 1.0, 1.5, 2.0, float(rng.uniform(0.01, 2.0)), min(2.0, alpha * (1 + 1e-9)) if alpha < 2.0 else 2.0 - 1e-9][int(rng.integers(0, 7))]

    def other_fs():
        return fs0 * [4.0, 2.0, 16.0, 1.5, 1.0 + 1e-7, float(rng.uniform(1.0, 10.0)), 1000.0][int(rng.integers(0, 7))]

    def other_band():
        m = int(rng.integers(0, 5))
        r = float(10.0 ** rng.uniform(0.1, 1.5))
        if m == 0 and fmax / r > fmin * 1.5:
            return fmin, fmax / r                   # same lower edge
        if m == 1 and fmin * r < fmax / 1.5:
            return fmin * r, fmax                   # same upper edge
        if m == 2:
            return fmin / r, fmax                   # same upper edge, wider
        if m == 3:
            return fmin / r, fmax / r               # same width (same section count, same corner ratios)
        return fmin / 2.0, fmax / 2.0

    mem: List[Dict[str, Any]] = []
    k = int(rng.integers(2, 5))
    if fam == 0:
        rates = [fs0] + [other_fs() for _ in range(k)]
        for j in rng.permutation(len(rates)):       # the lowest rate is not always the first one built
            mem.append(_hist_member(rng, "alpha", rates[int(j)], fmin, fmax, alpha))
    elif fam == 1:
        als = [alpha] + [other_alpha() for _ in range(k)]
        for j in rng.permutation(len(als)):
            mem.append(_hist_member(rng, "alpha", fs0, fmin, fmax, als[int(j)]))
    elif fam == 2:
        bands = [(fmin, fmax)] + [other_band() for _ in range(k)]
        for j in rng.permutation(len(bands)):
            mem.append(_hist_member(rng, "alpha", fs0, bands[int(j)][0], bands[int(j)][1], alpha))
    else:
        mem.append(_hist_member(rng, "alpha", fs0, fmin, fmax, alpha))
        for _ in range(k + 2):
            t = int(rng.integers(0, 9))
            if t <= 1:
                mem.append(_hist_member(rng, "red", fs0 if rng.integers(0, 2) else other_fs(), fmin, fmax, 2.0))
            elif t == 2:
                mem.append(_hist_member(rng, "white", fs0 if rng.integers(0, 2) else other_fs(), fmin, fmax, 0.0))
            elif t == 3:
                mem.append(dict(mem[int(rng.integers(0, len(mem)))], seed=int(rng.integers(0, 2 ** 31))))      # exact repeat of an earlier member
            else:
                lo, hi = other_band() if rng.integers(0, 3) == 0 else (fmin, fmax)
                mem.append(_hist_member(rng, "alpha", other_fs() if rng.integers(0, 2) else fs0, lo, hi, other_alpha() if rng.integers(0, 2) else alpha))
    steps: List[Dict[str, Any]] = []
    for j, s in enumerate(mem):
        steps.append(s)
        if rng.integers(0, 2) == 0:                 # interleave construction and use
            steps.append({"op": "use", "m": int(rng.integers(0, j + 1)), "n": int([0, 1, 5, 64, 500][int(rng.integers(0, 5))]),
                          "via": "sample" if rng.integers(0, 4) == 0 else "series"})
    return {"kind": "history", "family": int(fam), "steps": steps}


def history_case(rng: np.random.Generator, fam: Optional[int] = None) -> Dict[str, Any]:
    fam = int(rng.integers(0, 4)) if fam is None else fam
    fmax = float(10.0 ** rng.uniform(-1.0, 4.0))
    fmin = fmax / float(10.0 ** rng.uniform(0.3, 3.5))
    alpha = [1.0, 1.5, 2.0, 0.5, 0.01, float(rng.uniform(0.01, 2.0)), float(rng.uniform(0.01, 2.0))][int(rng.integers(0, 7))]
    # (max: 10^0.3 = 1.9953 < 2 -- without it one history in ~3500 asked for fs < 2 fmax, which the constructor rightly refuses)
    fs0 = fmax * max(2.0, [2.0, float(rng.uniform(2.0, 8.0)), float(10.0 ** rng.uniform(0.3, 1.5))][int(rng.integers(0, 3))])
    return history_from(rng, fam, fs0, fmin, fmax, alpha)


def _new(cls, fs, fmin, fmax, alpha, init=False):
    return {"op": "new", "cls": cls, "fs": fs, "fmin": fmin, "fmax": fmax, "alpha": alpha, "psd": 1.0, "seed": 7, "init": init}


HIST_CORPUS = [
    # witness of seeded C18c (coefficients memoised by the corner arrays, sampling rate not in the key): one band and exponent at three rates
    {"kind": "history", "family": 0, "steps": [_new("alpha", 1000.0, 5.0, 100.0, 1.0), _new("alpha", 4000.0, 5.0, 100.0, 1.0), _new("alpha", 250.0, 5.0, 100.0, 1.0)]},
    {"kind": "history", "family": 0, "steps": [_new("pink", 4000.0, 5.0, 100.0, 1.0), {"op": "use", "m": 0, "n": 64, "via": "series"}, _new("alpha", 1000.0, 5.0, 100.0, 1.0),
                                                _new("pink", 250.0, 5.0, 100.0, 1.0, True), _new("alpha", 4000.0, 5.0, 100.0, 1.0)]},
    {"kind": "history", "family": 1, "steps": [_new("alpha", 1000.0, 5.0, 100.0, 1.5), _new("alpha", 1000.0, 5.0, 100.0, 0.5), {"op": "use", "m": 0, "n": 5, "via": "sample"},
                                                _new("pink", 1000.0, 5.0, 100.0, 1.0), _new("alpha", 1000.0, 5.0, 100.0, 2.0)]},
    {"kind": "history", "family": 2, "steps": [_new("alpha", 1000.0, 5.0, 100.0, 1.0), _new("alpha", 1000.0, 5.0, 400.0, 1.0), _new("alpha", 1000.0, 0.5, 100.0, 1.0),
                                                _new("alpha", 1000.0, 0.5, 10.0, 1.0)]},
    {"kind": "history", "family": 3, "steps": [_new("red", 1000.0, 5.0, 100.0, 2.0), _new("alpha", 1000.0, 5.0, 100.0, 2.0), _new("red", 4000.0, 5.0, 100.0, 2.0),
                                                _new("white", 1000.0, 5.0, 100.0, 0.0), {"op": "use", "m": 0, "n": 500, "via": "series"}, _new("alpha", 4000.0, 5.0, 100.0, 2.0),
                                                _new("white", 4000.0, 5.0, 100.0, 0.0), _new("red", 1000.0, 50.0, 100.0, 2.0)]},
]


def history_members(h: Dict[str, Any]) -> List[Dict[str, Any]]:
    return [s for s in h["steps"] if s.get("op") == "new"]


def check_history(P: C.Part, h: Dict[str, Any], fresh: Optional[Dict[str, Any]] = None, nfreq: int = 96, impulse_max: int = 20000) -> None:
    fresh = fresh or {}
    rep = {"kind": "history", "family": h.get("family", -1), "steps": [dict(s) for s in h["steps"]]}
    gens: List[Any] = []
    specs: List[Dict[str, Any]] = []
    used: List[bool] = []
    P.cases += 1
    P.hit(f"history:family{h.get('family', -1)}")
    for s in h["steps"]:
        if s["op"] == "new":
            try:
                gens.append(hist_build(s))
            except Exception as ex:
                _viol(P, f"history, member {len(gens)} of {len(history_members(h))}: {s['cls']}(fs={s['fs']}, fmin={s['fmin']}, fmax={s['fmax']}, alpha={s['alpha']}) raised {ex!r} "
                         f"for valid parameters after {len(gens)} earlier constructions", {"sub": "history-construct", "cls": s["cls"]}, dict(rep, member=len(gens)))
                return
            specs.append(s)
            used.append(bool(s.get("init")))
        else:
            g = gens[s["m"]]
            used[s["m"]] = True
            if s["via"] == "sample":
                for _ in range(s["n"]):
                    g.get_sample()
            else:
                g.get_series(s["n"])
            P.hit("history:use-steps")
    colored = [s for s in specs if s["cls"] in ("alpha", "pink")]
    if len(colored) >= 2:
        P.nontrivial.add(("history", h.get("family", -1), len(specs), len({s["fs"] for s in colored}), len({s["alpha"] for s in colored}),
                          len({(s["fmin"], s["fmax"]) for s in colored}), any(used)))
    for m, (g, s) in enumerate(zip(gens, specs)):
        cls = s["cls"]
        pre = f"history of {len(specs)} generators in one process, member {m} ({cls}): "
        mrep = dict(rep, member=m)
        P.hit(f"history:member-{cls}")
        nv = len(P.violations)
        # (3) the same constructor call made alone in a fresh state
        ref = fresh.get(_spec_key(s))
        if ref is not None and "error" not in ref:
            now = hist_describe(g, cls)
            for nm in HIST_QUANT[cls]:
                if nm not in ref or nm not in now:
                    continue
                P.cases += 1
                a = np.array([float.fromhex(v) for v in now[nm]["hex"]])
                b = np.array([float.fromhex(v) for v in ref[nm]["hex"]])
                if now[nm]["shape"] != ref[nm]["shape"]:
                    _viol(P, f"{pre}(fs={s['fs']}, fmin={s['fmin']}, fmax={s['fmax']}, alpha={s['alpha']}): {nm} has shape {now[nm]['shape']}, the same generator constructed alone "
                             f"in a fresh process has {ref[nm]['shape']}", {"sub": "history-fresh", "what": nm, "cls": cls}, mrep)
                    break
                d = np.abs(a - b)
                tol = 4 * U * np.maximum(1.0, np.abs(b))
                if not np.all(d <= tol):
                    j = int(np.argmax(d - tol))
                    _viol(P, f"{pre}(fs={s['fs']}, fmin={s['fmin']}, fmax={s['fmax']}, alpha={s['alpha']}): {nm}[{j}] = {float(a[j])!r}, the same generator constructed alone in a "
                             f"fresh process has {float(b[j])!r}", {"sub": "history-fresh", "what": nm, "cls": cls}, mrep)
                    break
        elif ref is not None:
            P.cases += 1
            _viol(P, f"{pre}(fs={s['fs']}, fmin={s['fmin']}, fmax={s['fmax']}, alpha={s['alpha']}) was constructed in the history but raises {ref['error']} when constructed alone "
                     f"in a fresh process", {"sub": "history-fresh", "what": "construct", "cls": cls}, mrep)
        # (1) / (2) the property's own predicates on the member as it stands
        if cls in ("alpha", "pink") and len(P.violations) == nv:
            check_alpha(P, {"fs": s["fs"], "fmin": s["fmin"], "fmax": s["fmax"], "alpha": 1.0 if cls == "pink" else s["alpha"], "pink": cls == "pink"},
                        nfreq=nfreq, impulse_max=impulse_max, g=g, rep=mrep, pre=pre, pristine=not used[m])
        elif cls == "white":
            P.cases += 1
            v = float(g.rms) ** 2
            if not (abs(v - s["psd"] * s["fs"]) <= 8 * U * s["psd"] * s["fs"] and float(g.fs) == s["fs"]):
                _viol(P, f"{pre}white_noise(fs={s['fs']!r}, psd={s['psd']!r}): rms^2 = {v!r}, expected psd*fs = {s['psd'] * s['fs']!r}", {"sub": "white-rms", "history": True}, mrep)


# ------------------------------------------------------------------------------------------------ construction forms
def check_form(P: C.Part, s: Dict[str, Any], nfreq: int = 64, impulse_max: int = 20000) -> None:
    """one generator constructed through the call form `s` (see form_case):
       alpha / pink: ALL predicates of check_alpha on the object as constructed (level via freqz first), whether or not the constructor settled the filter;
       white: rms^2 = psd fs;
       every class: its design quantities equal those of the plain form (positional floats, init_filter=False, seed=0) built right after it -- the same code
       path on the same numbers (integers convert exactly), so agreement is demanded at the 4-ulp level as in the call histories."""
    cls = s["cls"]
    rep = dict(s)
    settle = cls != "white" and s["init"] is not False
    P.cases += 1
    P.hit(f"form:{cls}:init={s['init']}")
    P.hit(f"form:call={s['call']}")
    P.hit(f"form:seed={'int' if isinstance(s['seed'], int) else s['seed']}")
    P.hit(f"form:num={s['num']}")
    pre = f"{cls}_noise [{s['call']} call, init_filter {'default' if s['init'] == 'omit' else s['init']}, seed {'default' if s['seed'] == 'omit' else s['seed']}, {s['num']} arguments]: "
    try:
        g = form_build(s)
    except Exception as ex:
        _viol(P, f"{pre}(fs={s['fs']}, fmin={s['fmin']}, fmax={s['fmax']}, alpha={s['alpha']}, psd={s['psd']}) raised {ex!r} for valid parameters",
              {"sub": "form-construct", "cls": cls, "call": s["call"]}, rep)
        return
    P.nontrivial.add(("form", cls, s["call"], str(s["init"]), "int" if isinstance(s["seed"], int) else str(s["seed"]), s["num"]))
    plain = {"cls": cls, "fs": float(s["fs"]), "fmin": float(s["fmin"]), "fmax": float(s["fmax"]), "alpha": float(s["alpha"]), "psd": float(s["psd"]), "init": False, "seed": 0}
    try:
        ref = hist_describe(hist_build(plain), cls)
    except Exception as ex:
        _viol(P, f"{pre}the plain form {cls}(fs={s['fs']}, fmin={s['fmin']}, fmax={s['fmax']}, alpha={s['alpha']}, init_filter=False, seed=0) raised {ex!r}",
              {"sub": "form-construct", "cls": cls, "call": "plain"}, rep)
        return
    now = hist_describe(g, cls)
    for nm in HIST_QUANT[cls]:
        if nm not in ref or nm not in now:
            continue
        P.cases += 1
        a = np.array([float.fromhex(v) for v in now[nm]["hex"]])
        b = np.array([float.fromhex(v) for v in ref[nm]["hex"]])
        if now[nm]["shape"] != ref[nm]["shape"] or not np.all(np.abs(a - b) <= 4 * U * np.maximum(1.0, np.abs(b))):
            j = int(np.argmax(np.abs(a - b))) if now[nm]["shape"] == ref[nm]["shape"] else -1
            _viol(P, f"{pre}(fs={s['fs']}, fmin={s['fmin']}, fmax={s['fmax']}, alpha={s['alpha']}): {nm}{'' if j < 0 else '[%d]' % j} = "
                     f"{'shape %s' % now[nm]['shape'] if j < 0 else repr(float(a[j]))}, the same generator built as {cls}(..., init_filter=False, seed=0) has "
                     f"{'shape %s' % ref[nm]['shape'] if j < 0 else repr(float(b[j]))}", {"sub": "form-design", "what": nm, "cls": cls, "settled": settle}, rep)
            break
    if cls in ("alpha", "pink"):
        check_alpha(P, {"fs": float(s["fs"]), "fmin": float(s["fmin"]), "fmax": float(s["fmax"]), "alpha": float(s["alpha"]), "pink": cls == "pink"},
                    nfreq=nfreq, impulse_max=impulse_max, g=g, rep=rep, pre=pre, pristine=not settle)
    elif cls == "white":
        P.cases += 1
        v = float(g.rms) ** 2
        t = float(s["psd"]) * float(s["fs"])
        if not (abs(v - t) <= 8 * U * t and float(g.fs) == float(s["fs"])):
            _viol(P, f"{pre}white_noise(fs={s['fs']!r}, psd={s['psd']!r}): rms^2 = {v!r}, expected psd*fs = {t!r}", {"sub": "white-rms", "form": s["call"]}, rep)


# ------------------------------------------------------------------------------------------------ oracle
FFT_SIZES_SMALL = list(range(2, 66))


def oracle(ctx, intensive: bool = False, hints=()) -> C.Part:
    """the property's predicate on the real implementation only"""
    P = C.Part()
    mult = 4 if intensive else 1
    rng = ctx.rng

    # --- call histories: several generators sharing some parameters in one process, every member checked (corpus, around the hints, generated)
    hcases = [{"kind": "history", "family": h["family"], "steps": [dict(s) for s in h["steps"]]} for h in HIST_CORPUS]
    nh = 0
    for h in hints or ():
        cc = h.get("case") if isinstance(h, dict) else None
        if isinstance(cc, dict) and cc.get("kind") == "alpha" and nh < 6 and cc["fs"] >= 2.0 * cc["fmax"] and 0.01 <= cc["alpha"] <= 2.0:
            nh += 1
            hcases.append(history_from(rng, 0 if nh % 2 else 3, cc["fs"], cc["fmin"], cc["fmax"], cc["alpha"]))
    for i in range(ctx.scale(24, 240) * mult):
        hcases.append(history_case(rng, fam=i % 4))
    fresh = fresh_reference(P, [s for h in hcases for s in history_members(h)])
    for i, h in enumerate(hcases):
        if ctx.time_left() < 60 or len(P.violations) >= 8:
            P.notes.append("history: stopped early (time budget or enough violations)")
            break
        check_history(P, h, fresh, nfreq=ctx.scale(96, 200), impulse_max=ctx.scale(20000, 60000))
        if i == len(HIST_CORPUS):
            P.sample({"op": "history", "family": h["family"], "steps": h["steps"]})

    # --- alpha filter: corpus, hints, then generated cases
    cases = [dict(c) for c in ALPHA_CORPUS]
    for h in hints or ():
        cc = h.get("case") if isinstance(h, dict) else None
        if isinstance(cc, dict) and cc.get("kind") == "alpha":
            cases.append({k: cc[k] for k in ("fs", "fmin", "fmax", "alpha")} | {"pink": False})
    n_alpha = ctx.scale(400, 4000) * mult
    for i in range(n_alpha):
        cases.append(alpha_case(rng))
    for i, c in enumerate(cases):
        if ctx.time_left() < 40 or len(P.violations) >= 8:
            P.notes.append("alpha: stopped early (time budget or enough violations)")
            break
        check_alpha(P, c, nfreq=ctx.scale(160, 400), impulse_max=ctx.scale(40000, 200000))
        if i in (0, len(ALPHA_CORPUS)):
            P.sample({"op": "alpha", **alpha_dump(c)})
    P.notes.append(f"ripple probe on this run: worst |10log10(S f^alpha)| = {getattr(P, 'worst_ripple', 0.0):.4f} dB over the open interval, "
                   f"{getattr(P, 'worst_ripple_int', 0.0):.4f} dB two section pitches inside the corners (allowed: 1.5 x RIPPLE_TABLE, "
                   f"i.e. {ripple_tol_db(2.0, False):.2f} / {ripple_tol_db(2.0, True):.2f} dB at alpha = 2, {ripple_tol_db(1.0, False):.2f} / {ripple_tol_db(1.0, True):.2f} dB at alpha = 1)")

    # --- alpha filter at the ENDS of the parameter ranges (own child stream: the draws above and below are what they were before this was added)
    wide = bool(intensive or ctx.thorough)
    r_ext = np.random.default_rng([int(ctx.seed), 1801])
    for i, c in enumerate(alpha_extreme_cases(r_ext, n_extra=80 * mult, full=ctx.thorough)):
        if ctx.time_left() < 40 or len(P.violations) >= 12:
            P.notes.append("alpha extremes: stopped early (time budget or enough violations)")
            break
        P.hit("alpha:extreme-grid")
        check_alpha(P, c, nfreq=ctx.scale(64, 128), impulse_max=ctx.scale(20000, 60000))
        if i == 1:
            P.sample({"op": "alpha-extreme", **alpha_dump(c)})

    # --- construction forms: the four classes x call form x init_filter form x seed form x numeric type
    r_form = np.random.default_rng([int(ctx.seed), 1802])
    for i in range(ctx.scale(60, 480) * mult):
        if ctx.time_left() < 40 or len(P.violations) >= 16:
            P.notes.append("forms: stopped early (time budget or enough violations)")
            break
        s = form_case(r_form, i + 7 * int(ctx.seed))
        check_form(P, s, nfreq=ctx.scale(64, 128), impulse_max=ctx.scale(20000, 60000))
        if i == 3:
            P.sample({"op": "form", **s})

    # --- fftnoise
    sizes = [2, 3, 2, 3, 4, 5] + FFT_SIZES_SMALL + [2 ** k for k in range(7, ctx.scale(11, 13))]
    fcases = [fft_case(np.random.default_rng(1000 + k), N, kind=k % 7) for k, N in enumerate([2, 3, 4, 5, 8, 9, 64, 65, 1024])]      # fixed corpus
    for h in hints or ():
        cc = h.get("case") if isinstance(h, dict) else None
        if isinstance(cc, dict) and cc.get("kind") == "fftnoise" and "f" in cc:
            fcases.append({"N": cc["N"], "kind": cc.get("fkind", 0), "dtype": cc.get("dtype", "complex"), "f": cx_load(cc["f"]), "seed": cc["seed"], "rng_none": False})
    for rep_i in range(ctx.scale(4, 16) * mult):
        for N in sizes:
            fcases.append(fft_case(rng, N))
    for N in rng.integers(66, 3000, size=ctx.scale(40, 300) * mult):
        fcases.append(fft_case(rng, int(N)))
    for i, c in enumerate(fcases):
        if ctx.time_left() < 25 or len(P.violations) >= 16:
            P.notes.append("fftnoise: stopped early")
            break
        check_fftnoise(P, c)
        if i == 5:
            P.sample({"op": "fftnoise", "N": c["N"], "kind": c["kind"], "dtype": c["dtype"], "seed": c["seed"], "f_head": cx_dump(c["f"][:3])})

    # --- fftnoise, LONG and awkward lengths: around every integer constant of the current noise.py, 2^k, 2^k +- 1, primes, 70 001, 1 100 003; every input kind
    # (incl. integer and single-precision magnitude vectors) on every run; the whole DFT is compared, a spread of bins once more from the definition
    consts = mined_constants()
    cap = 4_400_000 if wide else 1_300_000
    r_long = np.random.default_rng([int(ctx.seed), 1803])
    P.notes.append(f"integer constants mined from speckit/noise.py: {consts}")
    big = list(LONG_SIZES_BIG) if wide else LONG_SIZES_BIG[:2] + [LONG_SIZES_BIG[2 + int(ctx.seed) % (len(LONG_SIZES_BIG) - 2)]]
    if ctx.thorough:
        big.append(2 ** 21 + 3)
    awkward = [next_prime(int(r_long.integers(4097, 60000))), 2 * next_prime(int(r_long.integers(4097, 60000))), int(r_long.integers(4097, 300000)) | 1,
               int(r_long.integers(2049, 150000)) * 2, 3 * 2 ** int(r_long.integers(11, 16)) + 1][:5 if wide else 3]
    # most telling first (the stream has a time cap): around the mined constants, 70 001, 1 100 003, then the rest
    lsizes = size_probes(consts, cap) + LONG_SIZES_FIXED[:1] + big[:1] + LONG_SIZES_FIXED[1:] + awkward + big[1:] + (LONG_SIZES_WIDE if wide else [])
    LONG_KINDS = [0, 4, 1, 3, 5, 2, 7, 8]
    t_long = ctx.time_left()
    long_reps = 2 if intensive else 1
    long_cap_s = ctx.scale(40 if intensive else 15, 150)
    for rep_i in range(long_reps):
        for j, N in enumerate(lsizes):
            if ctx.time_left() < 25 or len(P.violations) >= 20 or (t_long - ctx.time_left()) > long_cap_s:
                P.notes.append(f"fftnoise long: stopped early at size index {j} of {len(lsizes)}")
                break
            c = fft_case_from_seed(int(r_long.integers(0, 2 ** 31)), N, LONG_KINDS[(j + rep_i + int(ctx.seed)) % len(LONG_KINDS)])
            c["again"] = bool(j % 3 == 0 and N <= 300000)
            check_fftnoise(P, c, consts)
    P.notes.append(f"fftnoise long / awkward lengths: sizes {lsizes}")

    # --- band_limited_noise
    bcases = [dict(c) for c in BAND_CORPUS]
    for h in hints or ():
        cc = h.get("case") if isinstance(h, dict) else None
        if isinstance(cc, dict) and cc.get("kind") == "band":
            bcases.append({**{k: cc[k] for k in ("N", "fs", "lo", "hi")}, "exact": False, "edge_mode": 6, "seed": 0, "rng_none": False})
    for i in range(ctx.scale(600, 6000) * mult):
        bcases.append(band_case(rng))
        if i % 8 == 0:                              # the same call with ONE argument changed, back to back (history: nothing may be remembered from the previous call)
            bcases.extend(band_siblings(rng, bcases[-1]))
    for i, c in enumerate(bcases):
        if ctx.time_left() < 15 or len(P.violations) >= 24:
            P.notes.append("band: stopped early")
            break
        check_band(P, c)
        if i == 2:
            P.sample({"op": "band_limited_noise", **band_dump(c)})

    # --- band_limited_noise, LONG and awkward lengths with the band in every part of the spectrum (last bins, around the mined constants, behind the last whole block)
    r_band = np.random.default_rng([int(ctx.seed), 1804])
    bl_sizes = [n for n in size_probes(consts, cap) if n >= 16] + [70001] + big[:1] + [262147, 65537, 65536, 131071, 100000] + awkward[:2] + big[1:2] + (big[2:] if wide else [])
    t_bl = ctx.time_left()
    for rep_i in range(long_reps):
        for j, N in enumerate(bl_sizes):
            if ctx.time_left() < 15 or len(P.violations) >= 28 or (t_bl - ctx.time_left()) > long_cap_s:
                P.notes.append(f"band long: stopped early at size index {j} of {len(bl_sizes)}")
                break
            c = band_long_case(r_band, N, j + 5 * rep_i + int(ctx.seed), consts)
            P.hit("band:long" if N > 4096 else "band:around-mined-constant")
            check_band(P, c)
            if N <= 10000:                          # cheap: every edge placement at every short probe size, every run
                for md in range(BAND_LONG_MODES):
                    check_band(P, band_long_case(r_band, N, md, consts))
            if N > 500000:                          # the longest records also with the band covering nearly everything (a narrow band shows leaks, a wide one gaps)
                check_band(P, band_long_case(r_band, N, 11, consts))
            if j % 4 == 0 and N <= 300000:              # the neighbouring length right after it, same band in Hz
                check_band(P, dict(c, N=N + 1, exact=False, seed=int(r_band.integers(0, 2 ** 31))))

    # --- white noise
    for i in range(ctx.scale(6, 40) * mult):
        if ctx.time_left() < 8:
            break
        check_white(P, white_case(rng, ctx.scale(200000, 1000000)))
    # extreme psd / fs through every call form, and long requests checked window by window (incl. the last samples)
    r_w = np.random.default_rng([int(ctx.seed), 1805])
    forms = ["pos", "kw", "mixed", "allpos", "noseed"]
    k = int(ctx.seed)
    for psd in WHITE_PSD_EXT:
        for fs in WHITE_FS_EXT:
            if ctx.time_left() < 6:
                break
            k += 1
            check_white_ext(P, {"fs": fs, "psd": psd, "seed": int(r_w.integers(0, 2 ** 31)), "n": 20000, "form": forms[k % len(forms)]})
    for n in [v for v in size_probes(consts, 2_200_000) if v >= 16000] + [16384 + 1, 65536, 65537, 70001, 2 ** 17 + 17, 1100003] + ([2 ** 21 + 3, 4_000_037] if wide else []):
        if ctx.time_left() < 6:
            break
        k += 1
        check_white_ext(P, {"fs": float(10.0 ** r_w.uniform(-3, 9)), "psd": float(10.0 ** r_w.uniform(-12, 12)), "seed": int(r_w.integers(0, 2 ** 31)), "n": int(n),
                            "form": forms[k % 4], "tail": int([1000, 2000, 4096][k % 3])})
    return P


# ------------------------------------------------------------------------------------------------ correspondence
def _rel_close(a: float, b: float, tol: float) -> bool:
    return abs(a - b) <= tol * max(abs(a), abs(b), 1e-300)


def correspondence(ctx) -> C.Part:
    """model (driver, Float) vs the real implementation:
       (a) section count, per-section corners, per-section coefficients; (b) proved closed form vs scipy.signal.freqz of the real coefficients;
       (c) fftnoise: model spectrum vs fft of the returned series; (d) band mask."""
    from scipy import signal
    P = C.Part()
    noise = _noise()
    rng = ctx.rng
    drv = ctx.driver

    # ---- (a) + (b)
    acases = [dict(c, pink=False) for c in ALPHA_CORPUS] + [dict(alpha_case(rng), pink=False) for _ in range(ctx.scale(80, 800))]
    for idx, c in enumerate(acases):
        if ctx.time_left() < 90:
            P.notes.append("alpha correspondence: time budget reached")
            break
        fs, fmin_u, fmax_u, alpha = c["fs"], c["fmin"], c["fmax"], c["alpha"]
        try:
            g = make_gen(c, capture=True)
        except Exception as ex:
            P.cases += 1
            P.disagreements.append({"op": "corners", "what": f"real alpha_noise constructor raised {ex!r} on in-range parameters",
                                    "case": {"kind": "alpha", "fs": fs, "fmin": fmin_u, "fmax": fmax_u, "alpha": alpha}})
            continue
        cap = getattr(g, "_cap", None)
        r = drv.ask(f"corners {C.f2h(fmin_u)} {C.f2h(fmax_u)} {C.f2h(alpha)}")
        if r.startswith("ERR"):
            raise RuntimeError(f"driver error {r}")
        left, right = r.split("|")
        lt = left.split()
        m_num = int(lt[0])
        m_lo = np.array([C.h2f(t) for t in lt[1:]])
        m_hi = np.array([C.h2f(t) for t in right.split()])
        P.cases += 1
        P.hit("corners")
        n_real = int(g._num_spectra)
        case = {"kind": "alpha", "fs": fs, "fmin": fmin_u, "fmax": fmax_u, "alpha": alpha}
        if n_real >= 2:
            P.nontrivial.add(("corners", n_real, round(alpha, 1)))
        if m_num != n_real:
            v = 4.5 * (math.log10(2 * math.pi * fmax_u) - math.log10(2 * math.pi * fmin_u))
            if abs(v - round(v)) <= 1e-9 * max(1.0, abs(v)):
                P.unstable += 1
                continue
            P.disagreements.append({"op": "corners", "what": "section count", "impl": n_real, "model": m_num, "case": case})
            continue
        if cap is None:
            P.notes.append("real __init__ no longer calls _calc_filter_coeffs: corners recovered from coefficients")
            a0, a1, b1c = sections(g)
            cap = (fs * (1 + b1c) / (np.pi * (1 - b1c)), fs * (a0 + a1) / (np.pi * (a0 - a1)))
            ctol = 1e-6
        else:
            ctol = 1e-12 + 64 * U * (abs(math.log10(2 * np.pi * fmin_u)) + abs(math.log10(2 * np.pi * fmax_u)) + 1.0) * math.log(10.0)
        bad = [i for i in range(n_real) if not (_rel_close(cap[0][i], m_lo[i], ctol) and _rel_close(cap[1][i], m_hi[i], ctol))]
        if bad or not (float(g.fmin) == float(cap[0][0]) and float(g.fmax) == float(cap[1][-1])) and ctol < 1e-9:
            P.disagreements.append({"op": "corners", "what": "corner frequencies / gen.fmin, gen.fmax", "sections": bad[:5], "impl_lo": cap[0].tolist(), "impl_hi": cap[1].tolist(),
                                    "model_lo": m_lo.tolist(), "model_hi": m_hi.tolist(), "gen_fmin": float(g.fmin), "gen_fmax": float(g.fmax), "case": case})
            continue
        # per-section coefficients: model filterCoeffs on the REAL corner values vs the stored arrays
        a0, a1, b1c = sections(g)
        bad_c = []
        for i in range(n_real):
            m0, m1, m2 = drv.floats(f"coeffs {C.f2h(fs)} {C.f2h(cap[0][i])} {C.f2h(cap[1][i])}")
            g0, g1, g2 = drv.floats(f"gencoeffs {C.f2h(cap[0][i])} {C.f2h(cap[1][i])} {C.f2h(fs)}")      # translated _calc_filter_coeffs
            if not (abs(g0 - m0) <= 1e-13 * max(1.0, abs(m0)) and abs(g1 - m1) <= 1e-13 * max(1.0, abs(m0)) and abs(g2 - m2) <= 1e-13 * max(1.0, abs(m0))):
                P.disagreements.append({"op": "gencoeffs", "generated": [g0, g1, g2], "model": [m0, m1, m2], "case": case})
            P.cases += 1
            sc = max(1.0, abs(m0))
            if not (abs(m0 - a0[i]) <= 1e-12 * sc and abs(m1 - a1[i]) <= 1e-12 * sc and abs(-m2 - b1c[i]) <= 1e-12 * sc and float(g._b_coeffs[i, 0]) == 1.0):
                bad_c.append({"section": i, "model": [m0, m1, m2], "impl": [float(a0[i]), float(a1[i]), float(b1c[i])]})
        P.hit("coeffs", n_real)
        if bad_c:
            P.disagreements.append({"op": "coeffs", "what": "a0, a1, -b1 (stored)", "bad": bad_c[:4], "case": case})
            continue
        # (b) proved closed form (model corners) x scaling^2 vs scipy.signal.freqz of the real coefficients
        ge_lo, ge_hi = float(m_lo[0]), float(m_hi[-1])
        nyq = fs / 2
        fgrid = np.unique(np.concatenate([10.0 ** np.linspace(math.log10(ge_lo) - 1, math.log10(min(ge_hi * 3, nyq * 0.999)), 24), [ge_lo, min(ge_hi, nyq * 0.999999)]]))
        fgrid = fgrid[fgrid < nyq]
        w = 2 * np.pi * fgrid / fs
        Hz = np.ones(len(w), dtype=complex)
        for i in range(n_real):
            _, hi_ = signal.freqz(np.asarray(g._a_coeffs[i], dtype=float), np.asarray(g._b_coeffs[i], dtype=float), worN=w)
            Hz = Hz * hi_
        got = np.abs(Hz) ** 2 * float(g._scaling) ** 2
        _, relc = real_response(g, fgrid)
        exp = closed_form(fs, m_lo, m_hi, fgrid) * (ge_hi ** (-alpha))
        tolr = 1e-9 + relc + 4 * n_real * ctol
        P.cases += len(fgrid)
        P.hit("freqz-vs-closed-form", len(fgrid))
        badf = np.abs(got - exp) > tolr * exp
        if badf.any():
            j = int(np.argmax(np.abs(got - exp) / exp - tolr))
            P.disagreements.append({"op": "response", "what": "freqz of the real coefficients x scaling^2 vs proved closed form x fmax_eff^-alpha", "f": float(fgrid[j]),
                                    "impl": float(got[j]), "model": float(exp[j]), "tol_rel": float(tolr[j]), "case": case})
        if idx < 2:
            P.sample({"op": "corners+coeffs+response", **case, "sections": n_real, "gen_fmin": float(g.fmin), "gen_fmax": float(g.fmax)})

    # ---- (c) fftnoise
    sizes = FFT_SIZES_SMALL + [128, 256, 512, 1024] + ([2048] if ctx.thorough else [])
    for rep_i in range(ctx.scale(1, 6)):
        for N in sizes:
            if ctx.time_left() < 60:
                break
            c = fft_case(rng, N)
            f_in = np.array(c["f"].real if c["dtype"] == "float" else c["f"], dtype=(float if c["dtype"] == "float" else complex))
            try:
                x = noise.fftnoise(f_in, rng=np.random.default_rng(c["seed"]))
            except Exception as ex:
                P.cases += 1
                P.disagreements.append({"op": "fftspec", "what": f"real fftnoise raised {ex!r}; the model is total for N >= 2", "case": fft_dump(c)})
                continue
            Np = (N - 1) // 2
            ph = np.random.default_rng(c["seed"]).random(Np) * 2.0 * np.pi if Np > 0 else np.zeros(0)
            rot = np.cos(ph) + 1j * np.sin(ph)
            out = drv.floats(f"fftspec {cx_arr(f_in)} {cx_arr(rot)}")
            Fm = np.array(out[0::2]) + 1j * np.array(out[1::2])
            P.cases += 1
            P.hit("fftspec:" + ("odd" if N % 2 else "even"))
            if N >= 3:
                P.nontrivial.add(("fftspec", N, c["kind"]))
            X = np.fft.fft(np.asarray(x, dtype=float)) if np.isrealobj(x) else np.fft.fft(x)
            tol = fft_tol(N, float(np.linalg.norm(Fm)))
            if len(Fm) != N or np.shape(x) != (N,) or not np.all(np.abs(X - Fm) <= tol):
                k = int(np.argmax(np.abs(X - Fm))) if len(Fm) == N and np.shape(x) == (N,) else -1
                P.disagreements.append({"op": "fftspec", "bin": k, "impl": None if k < 0 else [X[k].real, X[k].imag], "model": None if k < 0 else [Fm[k].real, Fm[k].imag],
                                        "tol": tol, "case": fft_dump(c)})
            if rep_i == 0 and N == 6:
                P.sample({"op": "fftspec", "N": N, "f": cx_dump(f_in), "rot": cx_dump(rot), "model_F": cx_dump(Fm), "fft_of_series": cx_dump(X)})

    # ---- (d) band mask: the spectrum band_limited_noise hands to fftnoise vs Model.bandMask
    captured = {}
    orig = noise.fftnoise

    def spy(F, rng=None):
        captured["F"] = np.array(F, copy=True)
        return orig(F, rng=rng)
    noise.fftnoise = spy
    try:
        bcases = [dict(c) for c in BAND_CORPUS] + [band_case(rng) for _ in range(ctx.scale(150, 1500))]
        for i, c in enumerate(bcases):
            if ctx.time_left() < 30:
                break
            captured.clear()
            try:
                noise.band_limited_noise(c["lo"], c["hi"], samples=c["N"], samplerate=c["fs"], rng=np.random.default_rng(c["seed"]))
            except Exception as ex:
                if "F" not in captured:
                    P.cases += 1
                    P.disagreements.append({"op": "bandmask", "what": f"real band_limited_noise raised {ex!r} on a valid band", "case": band_dump(c)})
                    continue
            if "F" not in captured:
                P.notes.append("band_limited_noise no longer calls noise.fftnoise through the module global: mask correspondence skipped")
                break
            F = captured["F"]
            r = drv.ask(f"bandmask {c['N']} {C.f2h(c['fs'])} {C.f2h(c['lo'])} {C.f2h(c['hi'])}")
            if r.startswith("ERR"):
                raise RuntimeError(f"driver error {r}")
            mm = np.array([t == "1" for t in r.split()])
            im = np.asarray(F) != 0
            P.cases += 1
            P.hit(f"bandmask:edge_mode{c['edge_mode']}")
            fk = bin_freqs(c["N"], c["fs"])
            near = near_edges(fk, c["lo"], c["hi"])
            if im.any() and not im.all():
                P.nontrivial.add(("bandmask", c["N"], c["edge_mode"]))
            ok_vals = np.all((F == 0) | (F == 1.0))
            if len(mm) != c["N"] or F.shape != (c["N"],) or not ok_vals:
                P.disagreements.append({"op": "bandmask", "what": "shape / values", "case": band_dump(c)})
                continue
            diff = (mm != im)
            if c["exact"]:
                near = np.zeros(c["N"], dtype=bool)       # binary grid: every bin frequency and edge is exact, nothing is decided by rounding
            if (diff & ~near).any():
                k = int(np.argmax(diff & ~near))
                P.disagreements.append({"op": "bandmask", "bin": k, "impl": bool(im[k]), "model": bool(mm[k]), "freq": float(fk[k]), "case": band_dump(c)})
            elif diff.any():
                P.unstable += int(diff.sum())
    finally:
        noise.fftnoise = orig

    # ---- (e) the TRANSLATED region FftNoise executed at Float vs the functions it was translated from.  Own child generator
    # (Generator.spawn does not advance ctx.rng: the streams of the runs above and of the oracle are unchanged).
    gen_correspondence(ctx, P, rng.spawn(1)[0] if hasattr(rng, "spawn") else np.random.default_rng(int(ctx.seed) + 180018))
    return P


def _cx_parse(toks: List[str]) -> Tuple[np.ndarray, List[str]]:
    n = int(toks[0])
    v = [C.h2f(t) for t in toks[1:1 + 2 * n]]
    return np.array(v[0::2], dtype=float) + 1j * np.array(v[1::2], dtype=float), toks[1 + 2 * n:]


def _arr_parse(toks: List[str]) -> np.ndarray:
    n = int(toks[0])
    return np.array([C.h2f(t) for t in toks[1:1 + n]], dtype=float)


def gen_correspondence(ctx, P: C.Part, rng: np.random.Generator) -> None:
    """generated Lean (Gen/FftNoise.lean, `Float`) vs the real Python it was generated from, plus the NumPy contracts on their own.
    Both sides follow the CURRENT source, so a disagreement here means the translator (or a contract) is wrong, not the library."""
    noise = _noise()
    drv = ctx.driver
    t_start = ctx.time_left()

    def ask(line: str) -> List[str]:
        r = drv.ask(line)
        if r.startswith("ERR"):
            raise RuntimeError(f"driver error {r} on {line[:120]}")
        return r.split()

    # -- contracts on their own: slicing, fftfreq, ifft
    bad_sl = None
    for n in range(0, 8):
        for a in [None] + list(range(-9, 10, 1)):
            for b in [None, -9, -8, -4, -3, -2, -1, 0, 1, 2, 3, 4, 7, 8, 9]:
                for st in (1, -1, 2, -3):
                    s0, e0, st0 = slice(a, b, st).indices(n)
                    ln = len(range(s0, e0, st0))
                    r = ask(f"npslice {n} {'none' if a is None else a} {'none' if b is None else b} {st}")
                    P.cases += 1
                    if not (int(r[1]) == st and int(r[2]) == ln and (ln == 0 or int(r[0]) == s0)):
                        bad_sl = {"n": n, "start": a, "stop": b, "step": st, "python": [s0, st0, ln], "contract": [int(t) for t in r]}
    P.hit("np-contract:slice")
    if bad_sl:
        P.disagreements.append({"op": "npslice", "what": "NpFN.pySlice differs from Python's slice.indices", **bad_sl})
    for n in [1, 2, 3, 4, 5, 8, 9, 16, 17, 64, 65, 1000, 1024, int(rng.integers(6, 3000)), int(rng.integers(6, 3000))]:
        for d in (1.0, 1.0 / 1000.0, 1.0 / 44100.0, float(10.0 ** rng.uniform(-5, 2))):
            got = _arr_parse(ask(f"npfftfreq {n} {C.f2h(d)}"))
            exp = np.fft.fftfreq(n, d=d)
            P.cases += 1
            P.hit("np-contract:fftfreq")
            if got.shape != exp.shape or not np.array_equal(got, exp):
                P.disagreements.append({"op": "npfftfreq", "what": "NpFN.fftfreq differs from np.fft.fftfreq (bit-exact comparison)", "n": n, "d": d})
    for n in (1, 2, 3, 4, 7, 8, 16, 31):
        Fz = rng.standard_normal(n) + 1j * rng.standard_normal(n)
        got, _ = _cx_parse(ask(f"npifft {cx_arr(Fz)}"))
        P.cases += 1
        P.hit("np-contract:ifft")
        if len(got) != n or not np.all(np.abs(got - np.fft.ifft(Fz)) <= 1e-13 * np.linalg.norm(Fz)):
            P.disagreements.append({"op": "npifft", "what": "NpFN.ifft differs from np.fft.ifft", "n": n, "F": cx_dump(Fz)})

    # -- fftnoise: generated spectrum-before-ifft (fed the ACTUAL uniform draws of a same-seed generator) vs the array the real function hands to
    #    np.fft.ifft (captured) and vs np.fft.fft of the returned series
    sizes = FFT_SIZES_SMALL + [128, 256, 512, 1024]
    real_ifft = np.fft.ifft
    cap: Dict[str, Any] = {}

    def spy_ifft(a, *args, **kw):
        cap["F"] = np.array(a, dtype=complex, copy=True)
        return real_ifft(a, *args, **kw)
    for j, N in enumerate(sizes * ctx.scale(3, 7) + [0, 1]):
        if ctx.time_left() < 45:
            P.notes.append("generated fftnoise correspondence: time budget reached")
            break
        c = fft_case(rng, N, kind=j % 7) if N >= 2 else {"N": N, "kind": 0, "dtype": "complex", "f": (rng.standard_normal(N) + 1j * rng.standard_normal(N)),
                                                         "seed": int(rng.integers(0, 2 ** 31)), "rng_none": False}
        f_in = np.array(c["f"].real if c["dtype"] == "float" else c["f"], dtype=(float if c["dtype"] == "float" else complex))
        Np_ = (N - 1) // 2
        u = np.random.default_rng(c["seed"]).random(Np_) if Np_ > 0 else np.zeros(0)        # what rng.random(Np) returns for this seed
        cap.clear()
        raised = None
        np.fft.ifft = spy_ifft
        try:
            x = noise.fftnoise(f_in, rng=np.random.default_rng(c["seed"]))
        except ValueError as ex:
            raised = ex
        finally:
            np.fft.ifft = real_ifft
        r = ask(f"genfftspec {cx_arr(f_in)} {C.arr(u)}")
        rej = r[0] == "1"
        Fg, _ = _cx_parse(r[1:])
        P.cases += 1
        P.hit("gen-fftspec:" + ("rejected" if N < 2 else "odd" if N % 2 else "even"))
        if N >= 3:
            P.nontrivial.add(("gen-fftspec", N, c["kind"]))
        if raised is not None and not rej and len(Fg) == 0 and N >= 2:
            P.hit("gen-fftspec:shape-error-on-both-sides")      # NumPy refused the shapes of a slice store / elementwise operation; the contracts' marker is the empty vector
            continue
        if (raised is not None) != rej:
            P.disagreements.append({"op": "gen-fftspec", "what": "validation: generated fftnoise_rejects vs the real function raising ValueError",
                                    "generated_rejects": rej, "real_raised": repr(raised), "case": fft_dump(c)})
            continue
        if raised is not None:
            continue
        scale = float(np.max(np.abs(f_in))) if N else 0.0
        if len(Fg) != N:
            P.disagreements.append({"op": "gen-fftspec", "what": f"length of the generated spectrum {len(Fg)} != {N}", "case": fft_dump(c)})
            continue
        if "F" in cap and cap["F"].shape == (N,):
            d = np.abs(Fg - cap["F"])
            if not np.all(d <= 64 * U * scale):
                k = int(np.argmax(d))
                P.disagreements.append({"op": "gen-fftspec", "what": "generated spectrum vs the array the real fftnoise hands to np.fft.ifft", "bin": k,
                                        "generated": [Fg[k].real, Fg[k].imag], "impl": [cap["F"][k].real, cap["F"][k].imag], "tol": 64 * U * scale, "case": fft_dump(c)})
                continue
            P.hit("gen-fftspec:vs-captured-ifft-argument")
        else:
            P.notes.append("fftnoise no longer calls np.fft.ifft on a length-N array: generated spectrum compared with fft(x) only")
        # the series is `ifft(F).real`: its DFT is the Hermitian part (F[k] + conj F[-k]) / 2 of the spectrum, which IS the spectrum when the source
        # makes it Hermitian (proved for the translated code: gen_fftnoise_series); taking the Hermitian part keeps this comparison a check of the
        # TRANSLATION (both sides follow the current source) rather than of the property
        X = np.fft.fft(np.asarray(x))
        Fh = 0.5 * (Fg + np.conj(Fg[(-np.arange(N)) % N]))
        tol = fft_tol(N, float(np.linalg.norm(Fg)))
        if np.shape(x) != (N,) or not np.all(np.abs(X - Fh) <= tol):
            k = int(np.argmax(np.abs(X - Fh))) if np.shape(x) == (N,) else -1
            P.disagreements.append({"op": "gen-fftspec", "what": "Hermitian part of the generated spectrum vs np.fft.fft(fftnoise(f, rng))", "bin": k, "tol": tol, "case": fft_dump(c)})
            continue
        if np.all(np.abs(Fh - Fg) <= 64 * U * scale):
            P.hit("gen-fftspec:spectrum-is-hermitian")
        if N <= 16:                                   # the whole translated function (contract NpFN.ifft, O(N^2)) on small sizes
            xs = _arr_parse(ask(f"genfftnoise {cx_arr(f_in)} {C.arr(u)}"))
            P.cases += 1
            P.hit("gen-fftnoise:series")
            if xs.shape != (N,) or not np.all(np.abs(xs - x) <= 1e-12 * max(float(np.linalg.norm(f_in)), 1e-300)):
                P.disagreements.append({"op": "gen-fftnoise", "what": "generated series (NpFN.ifft contract) vs the real fftnoise", "case": fft_dump(c)})

    # -- band_limited_noise: generated mask spectrum vs the array the real function hands to fftnoise; validation
    captured: Dict[str, Any] = {}
    orig = noise.fftnoise

    def spy(F, rng=None):
        captured["F"] = np.array(F, copy=True)
        return orig(F, rng=rng)
    bcases = [dict(c) for c in BAND_CORPUS] + [band_case(rng) for _ in range(ctx.scale(300, 2000))]
    # invalid requests (each validation, and the 1e-12 allowance above Nyquist from both sides)
    for bad in ({"N": 1, "fs": 8.0, "lo": 0.0, "hi": 1.0}, {"N": 0, "fs": 8.0, "lo": 0.0, "hi": 1.0}, {"N": 8, "fs": 0.0, "lo": 0.0, "hi": 0.0},
                {"N": 8, "fs": -1.0, "lo": 0.0, "hi": 0.0}, {"N": 8, "fs": 8.0, "lo": -1e-9, "hi": 1.0}, {"N": 8, "fs": 8.0, "lo": 2.0, "hi": 1.0},
                {"N": 8, "fs": 8.0, "lo": 1.0, "hi": 4.0 + 5e-13}, {"N": 8, "fs": 8.0, "lo": 1.0, "hi": 4.0 + 2e-12}, {"N": 8, "fs": 8.0, "lo": 1.0, "hi": 4.001}):
        bcases.append({**bad, "exact": True, "edge_mode": 10, "seed": 1, "rng_none": False})
    noise.fftnoise = spy
    try:
        for c in bcases:
            if ctx.time_left() < 40:
                P.notes.append("generated band correspondence: time budget reached")
                break
            captured.clear()
            raised = None
            x = None
            try:
                x = noise.band_limited_noise(c["lo"], c["hi"], samples=c["N"], samplerate=c["fs"], rng=np.random.default_rng(c["seed"]))
            except ValueError as ex:
                raised = ex
            r = ask(f"genband {C.f2h(c['lo'])} {C.f2h(c['hi'])} {c['N']} {C.f2h(c['fs'])}")
            rej = r[0] == "1"
            Fg, _ = _cx_parse(r[1:])
            P.cases += 1
            P.hit("gen-band:" + ("rejected" if rej else f"edge_mode{c['edge_mode']}"))
            if raised is not None and "F" in captured and not rej:
                P.hit("gen-band:fftnoise-raised")            # the callee refused the spectrum (covered by the fftnoise comparison above)
                continue
            if (raised is not None and "F" not in captured) != rej:
                P.disagreements.append({"op": "gen-band", "what": "validation: generated band_limited_noise_rejects vs the real function raising ValueError",
                                        "generated_rejects": rej, "real_raised": repr(raised), "case": band_dump(c)})
                continue
            if rej:
                continue
            if "F" not in captured:
                P.notes.append("band_limited_noise no longer calls noise.fftnoise through the module global: generated mask not compared")
                break
            F = np.asarray(captured["F"])
            if F.shape != (c["N"],) or len(Fg) != c["N"]:
                P.disagreements.append({"op": "gen-band", "what": f"length: generated {len(Fg)}, real {F.shape}", "case": band_dump(c)})
                continue
            diff = Fg != F
            if diff.any():
                near = np.zeros(c["N"], dtype=bool) if c["exact"] else near_edges(bin_freqs(c["N"], c["fs"]), c["lo"], c["hi"])
                if (diff & ~near).any():
                    k = int(np.argmax(diff & ~near))
                    P.disagreements.append({"op": "gen-band", "what": "generated mask spectrum vs the array the real band_limited_noise hands to fftnoise", "bin": k,
                                            "generated": [Fg[k].real, Fg[k].imag], "impl": [F[k].real, F[k].imag], "case": band_dump(c)})
                    continue
                P.unstable += int(diff.sum())
            if (F != 0).any() and not (F != 0).all():
                P.nontrivial.add(("gen-band", c["N"], c["edge_mode"]))
            if c["N"] <= 12 and x is not None:        # the whole translated function on small sizes
                Np_ = (c["N"] - 1) // 2
                u = np.random.default_rng(c["seed"]).random(Np_) if Np_ > 0 else np.zeros(0)
                xs = _arr_parse(ask(f"genbandnoise {C.f2h(c['lo'])} {C.f2h(c['hi'])} {c['N']} {C.f2h(c['fs'])} {C.arr(u)}"))
                P.cases += 1
                P.hit("gen-band:series")
                if xs.shape != (c["N"],) or not np.all(np.abs(xs - x) <= 1e-12 * max(1.0, float(np.linalg.norm(F)))):
                    P.disagreements.append({"op": "gen-bandnoise", "what": "generated series vs the real band_limited_noise", "case": band_dump(c)})
    finally:
        noise.fftnoise = orig

    # -- alpha_noise.__init__ design arithmetic and white_noise.__init__
    acases = [dict(c) for c in ALPHA_CORPUS] + [alpha_case(rng) for _ in range(ctx.scale(150, 1000))]
    acases += [{"fs": 100.0, "fmin": 0.1, "fmax": 10.0, "alpha": 0.0099, "pink": False}, {"fs": 100.0, "fmin": 0.1, "fmax": 10.0, "alpha": 2.0000001, "pink": False},
               {"fs": 19.999, "fmin": 0.1, "fmax": 10.0, "alpha": 1.0, "pink": False}, {"fs": 20.0, "fmin": 0.1, "fmax": 10.0, "alpha": 1.0, "pink": False}]
    for c in acases:
        if ctx.time_left() < 35:
            P.notes.append("generated alpha-design correspondence: time budget reached")
            break
        fs, fmin_u, fmax_u, alpha = c["fs"], c["fmin"], c["fmax"], c["alpha"]
        case = {"kind": "alpha", "fs": fs, "fmin": fmin_u, "fmax": fmax_u, "alpha": alpha}
        raised = None
        other = None
        g = None
        try:
            g = (noise.pink_noise(fs, fmin_u, fmax_u, init_filter=False, seed=0) if c.get("pink") else noise.alpha_noise(fs, fmin_u, fmax_u, alpha, init_filter=False, seed=0))
        except ValueError as ex:
            raised = ex
        except Exception as ex:                   # e.g. IndexError at filter_f_min_vals[0] when the section count is <= 0
            other = ex
        r = drv.ask(f"genalpha {C.f2h(fs)} {C.f2h(fmin_u)} {C.f2h(fmax_u)} {C.f2h(1.0 if c.get('pink') else alpha)}")
        if r.startswith("ERR"):
            raise RuntimeError(f"driver error {r}")
        parts = [p.split() for p in r.split("|")]
        rej, m_num = parts[0][0] == "1", int(parts[0][1])
        P.cases += 1
        P.hit("gen-alpha:" + ("rejected" if rej else "design"))
        if other is not None:
            # not input validation: the translated arithmetic has no notion of IndexError; the equality theorem excludes exactly this case (0 < numSections)
            if rej or m_num > 0:
                P.disagreements.append({"op": "gen-alpha", "what": f"the real constructor raised {other!r}; generated: rejects={rej}, _num_spectra={m_num}", "case": case})
            else:
                P.hit("gen-alpha:no-sections-real-raises")
            continue
        if (raised is not None) != rej:
            P.disagreements.append({"op": "gen-alpha", "what": "validation: generated alpha_noise_init_rejects vs the real constructor raising ValueError",
                                    "generated_rejects": rej, "real_raised": repr(raised), "case": case})
            continue
        if rej:
            continue
        n_real = int(g._num_spectra)
        if m_num != n_real:
            v = 4.5 * (math.log10(2 * math.pi * fmax_u) - math.log10(2 * math.pi * fmin_u))
            if abs(v - round(v)) <= 1e-9 * max(1.0, abs(v)):
                P.unstable += 1
                continue
            P.disagreements.append({"op": "gen-alpha", "what": "_num_spectra", "impl": n_real, "generated": m_num, "case": case})
            continue
        m_fs, m_al, m_fmin, m_fmax, m_sc = (C.h2f(t) for t in parts[1])
        A = np.array([C.h2f(t) for t in parts[2][2:]]).reshape(int(parts[2][0]), int(parts[2][1]))
        B = np.array([C.h2f(t) for t in parts[3][2:]]).reshape(int(parts[3][0]), int(parts[3][1]))
        ctol = 1e-12 + 64 * U * (abs(math.log10(2 * np.pi * fmin_u)) + abs(math.log10(2 * np.pi * fmax_u)) + 1.0) * math.log(10.0)
        ra, rb = np.asarray(g._a_coeffs, dtype=float), np.asarray(g._b_coeffs, dtype=float)
        what = None
        if not (m_fs == float(g.fs) and m_al == float(g.alpha)):
            what = "fs / alpha attributes"
        elif not (_rel_close(m_fmin, float(g.fmin), ctol) and _rel_close(m_fmax, float(g.fmax), ctol)):
            what = "effective corners fmin / fmax"
        elif not _rel_close(m_sc, float(g._scaling), (1.0 + abs(alpha)) * ctol):
            what = "_scaling"
        elif A.shape != ra.shape or B.shape != rb.shape:
            what = f"coefficient matrix shapes {A.shape}, {B.shape} vs {ra.shape}, {rb.shape}"
        else:
            tolc = (16 * U + 2 * ctol) * np.maximum(1.0, np.abs(ra[:, :1]))
            if not (np.all(np.abs(A - ra) <= tolc) and np.all(np.abs(B - rb) <= tolc)):
                what = "_a_coeffs / _b_coeffs"
        if n_real >= 2:
            P.nontrivial.add(("gen-alpha", n_real, round(alpha, 1)))
        if what:
            P.disagreements.append({"op": "gen-alpha", "what": what, "generated": {"fmin": m_fmin, "fmax": m_fmax, "scaling": m_sc, "a": A.tolist(), "b": B.tolist()},
                                    "impl": {"fmin": float(g.fmin), "fmax": float(g.fmax), "scaling": float(g._scaling), "a": ra.tolist(), "b": rb.tolist()}, "case": case})
    for _ in range(12):
        wc = white_case(rng, 1)
        w = noise.white_noise(wc["fs"], wc["psd"], seed=0)
        m_fs, m_rms = (C.h2f(t) for t in ask(f"genwhite {C.f2h(wc['fs'])} {C.f2h(wc['psd'])}"))
        P.cases += 1
        P.hit("gen-white")
        if not (m_fs == float(w.fs) and abs(m_rms - float(w.rms)) <= 2 * U * abs(float(w.rms))):
            P.disagreements.append({"op": "gen-white", "what": "fs / rms", "generated": [m_fs, m_rms], "impl": [float(w.fs), float(w.rms)], "case": {"kind": "white", **wc}})
    P.notes.append(f"generated-region (FftNoise) differential took {t_start - ctx.time_left():.1f} s")


# ------------------------------------------------------------------------------------------------ replay
def replay(ctx, data) -> C.Part:
    P = C.Part()
    for v in data.get("violations", []):
        r = v["replay"]
        k = r.get("kind")
        if k == "alpha":
            check_alpha(P, {"fs": r["fs"], "fmin": r["fmin"], "fmax": r["fmax"], "alpha": r["alpha"], "pink": r.get("pink", False)}, nfreq=400, impulse_max=200000)
        elif k == "fftnoise" and "f" not in r:            # long spectrum: regenerated from (gseed, N, kind)
            c = fft_case_from_seed(r["gseed"], r["N"], r.get("fkind", 0))
            c["again"] = bool(r.get("again"))
            check_fftnoise(P, c, mined_constants())
        elif k == "fftnoise":
            check_fftnoise(P, {"N": r["N"], "kind": r.get("fkind", 0), "dtype": r["dtype"], "f": cx_load(r["f"]), "seed": r["seed"], "rng_none": r.get("rng_none", False),
                               "again": bool(r.get("again"))}, mined_constants())
        elif k == "form":
            check_form(P, {k2: r[k2] for k2 in ("kind", "cls", "call", "init", "seed", "num", "fs", "fmin", "fmax", "alpha", "psd")}, nfreq=200, impulse_max=60000)
        elif k == "white-ext":
            check_white_ext(P, {k2: r[k2] for k2 in ("fs", "psd", "seed", "n", "form", "tail") if k2 in r})
        elif k == "band":
            check_band(P, {k2: r[k2] for k2 in ("N", "fs", "lo", "hi", "exact", "edge_mode", "seed", "rng_none")})
        elif k == "white":
            check_white(P, {k2: r[k2] for k2 in ("fs", "psd", "seed", "n")})
        elif k == "history":
            h = {"kind": "history", "family": r.get("family", -1), "steps": r["steps"]}
            check_history(P, h, fresh_reference(P, history_members(h)), nfreq=200, impulse_max=60000)
    return P


# ------------------------------------------------------------------------------------------------ calibration aid (not used by the check)
def measure_ripple(seed: int = 0, n: int = 2000):
    """worst deviation of the real filter over the oracle's own case generator: returns {alpha bucket: (full, interior)}"""
    rng = np.random.default_rng(seed)
    out: Dict[float, List[float]] = {}
    for _ in range(n):
        c = alpha_case(rng)
        c["pink"] = False
        g = make_gen(c)
        ge_lo, ge_hi = float(g.fmin), float(g.fmax)
        nyq = c["fs"] / 2
        f = 10.0 ** np.linspace(math.log10(ge_lo), math.log10(ge_hi), 1202)[1:-1]
        f = f[f < nyq]
        S, _ = density(g, f)
        dev = np.abs(LN10_10 * (np.log(S) + c["alpha"] * np.log(f)))
        dp = (math.log10(c["fmax"]) - math.log10(c["fmin"])) / len(g._a_coeffs)
        inter = (f >= ge_lo * 10.0 ** (2 * dp)) & (f <= ge_hi / 10.0 ** (2 * dp))
        b = out.setdefault(c["alpha"], [0.0, 0.0])
        b[0] = max(b[0], float(dev.max()))
        if inter.any():
            b[1] = max(b[1], float(dev[inter].max()))
    return out
