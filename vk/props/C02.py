"""C02 — every plan segments the record safely and completely."""
from __future__ import annotations

from typing import Any, Dict, List

import numpy as np

from .. import common as C
from . import _sched as S

PROP = "C02"
GEN_REGIONS: List[str] = ["Sched", "Utils", "SchedGlue", "ConfigGlue", "GlobalState"]
THEOREMS = {
    "SpecKitV.Lemmas.Starts": ["roundHalfUp_eq", "capK_le", "capK_ge_one", "nsegRaw_ge_one", "nsegRaw_eq", "startsEven_one", "startsAccum_one",
                               "startsEven_safe", "startsAccum_safe", "startsEven_uncapped_collide"],
    "SpecKitV.Lemmas.SchedLtf": ["ltfStep_L_bounds", "ltfStep_K", "ltf_walk_fuel", "ltf_walk_nonempty", "walk_entry_is_step"],
    "SpecKitV.Lemmas.SchedNewVec": ["SchedNV.newStep_L_bounds", "SchedNV.newStep_K", "SchedNV.newWalk_bins", "SchedNV.newWalk_fuel",
                                    "SchedNV.vecGridPoint_props", "SchedNV.vecWalk_entry_from_map", "SchedNV.searchLeft_le"],
    "SpecKitV.Props.C02": ["ltfPlan_safe", "lpsdPlan_safe", "newPlan_safe", "vecPlan_safe", "planValidate_ok", "planValidate_ok_lpsd"],
    "SpecKitV.Props.SchedGen": ["gen_ltf_round_eq", "gen_ltf_walk_eq_model", "gen_new_walk_eq_model"],
    "SpecKitV.Props.VecGen": ["Arr.memo_eq", "Np.logspace_get", "Np.searchsortedLeft_eq", "gen_vec_walk_eq_model", "gen_vec_walk_eq_plan"],
    "SpecKitV.Props.StartsGen": ["gen_ltf_starts_eq_model", "gen_ltf_starts_safe"],
    "SpecKitV.Props.PostGen": ["gen_vec_post_eq_model", "gen_new_post_eq_vec_post", "gen_post_starts_safe"],
    "SpecKitV.Props.Utils": ["gen_round_half_up_eq_model", "gen_round_half_up_eq_floor"],
    "SpecKitV.Props.SchedGlueGen": ["SchedGlue.gen_require_args_eq", "SchedGlue.gen_ltf_post_eq", "SchedGlue.gen_vec_post_glue_eq", "SchedGlue.gen_new_post_glue_eq", "SchedGlue.gen_ltf_plan_eq_model", "SchedGlue.gen_vec_plan_eq_model", "SchedGlue.gen_new_plan_eq_model", "SchedGlue.gen_lpsd_forward", "SchedGlue.gen_lpsd_plan_eq_ltf", "SchedGlue.gen_lpsd_plan_eq_model", "SchedGlue.gen_plan_missing_key", "SchedGlue.gen_lpsd_missing_key", "SchedGlue.planDict_keys", "SchedGlue.gen_plan_wiring", "SchedGlue.planDict_overlap", "SchedGlue.gen_ltf_plan_props", "SchedGlue.gen_lpsd_plan_props", "SchedGlue.gen_new_plan_props", "SchedGlue.gen_vec_plan_props", "SchedGlue.gen_plan_overlap_key"],
    "SpecKitV.Props.ConfigGlueGen": ["ConfigGlue.gen_window_eq_spec", "ConfigGlue.gen_window_explicit_olap", "ConfigGlue.gen_window_explicit_olap_ok",
                                     "ConfigGlue.gen_sched_eq_spec", "ConfigGlue.gen_sched_new_ltf", "ConfigGlue.gen_sched_callable", "ConfigGlue.gen_cg_plan_eq_model"],
    # no state outlives a call in the files this property is anchored in (no module/class-level containers, memoisers, mutable defaults) and the
    # decorators are exactly the audited ones (region GlobalState, re-scanned from the current source each run)
    "SpecKitV.Props.GlobalStateGen": ["GlobalStateGen.gen_globalState_schedulers", "GlobalStateGen.gen_globalState_utils"],
}
CONTRACTS = ["np.round is round-half-even; Python round_half_up(v) = floor(v+1/2) (proved of the model)",
             'Python dict with string keys = association list, most recent binding first (Py.Dict in Np/SchedGlue.lean): d[k]=v (last write wins), d[k], k in d, dict(d) copies, d.update(e), dict(k=v,...)',
             'np.array(list) = NpSG.ofList: element i is list[i], length len(list); NpSG.toList / NpSG.toList2: the elements of a (nested) array in order (the view under which the output dictionary is stated)',
             "NumPy basic slicing a[lo:hi] (step 1) = NpSG.slice with Python's normalisation of negative / out-of-range bounds; np.mean = left-to-right sum / length (Arr.mean)",
]
ASSUMPTIONS = ["the main walks of ltf_plan and new_ltf_plan are TRANSLATED from schedulers.py each run and proved equal to the model walks (Props/SchedGen); start positions, overlaps and the vectorised scheduler are hand-modelled (Model/Sched.lean) and tied by the plan correspondence; "
               "float vs real branch choice at exact rounding ties is outside the theorems (counted as unstable-boundary)",
               "region SchedGlue (vk/regions/sched_glue.py): _require_args, lpsd_plan's forwarding, the argument unpacking, the statements after the walk "
               "(navg bookkeeping, the overlap loop of ltf_plan, array conversions) and the output dictionary of ltf_plan / vectorized_ltf_plan / "
               "new_ltf_plan are TRANSLATED each run and proved equal, key by key, to the record view of the model plans (Props/SchedGlueGen); "
               "keyword values are typed as in region Sched (N, Lmin, Jdes, Kdes Python ints; fs, olap, bmin numbers)"]
RULE = ("admissible configurations drawn branch-directed (tiny/medium/large N, (1-olap)L<1 corner, Lmin=N, bmin near N/2, Jdes=1, olap=0) × 4 schedulers, "
        "directly and through SpectrumAnalyzer.plan(); distinct by (scheduler, configuration); non-trivial = every generated configuration (plans have >= 1 bin)")

WITNESSES = [
    {"N": 1013, "fs": 3.3, "olap": 0.9, "bmin": 3.7, "Lmin": 1, "Jdes": 10, "Kdes": 2},      # D6(i), D7: (1-olap)L<1
    {"N": 169, "fs": 1.0, "olap": 0.1, "bmin": 1.0, "Lmin": 1, "Jdes": 100, "Kdes": 1},       # D6(ii): K vs navg tie
    {"N": 1718, "fs": 1000.0, "olap": 0.3, "bmin": 1.5, "Lmin": 1718, "Jdes": 2, "Kdes": 1},  # D8: ZeroDivisionError
    {"N": 92, "fs": 1.0, "olap": 0.3, "bmin": 3.7, "Lmin": 2, "Jdes": 10, "Kdes": 100},       # D8: bmin branch
    {"N": 20000, "fs": 2.0, "olap": 0.9999999999999999, "bmin": 1.0, "Lmin": 1, "Jdes": 50, "Kdes": 10},  # D14: olap = 1 - 2^-53 (known finding)
]


def correspondence(ctx) -> C.Part:
    P = C.Part()
    cfgs = S.correspondence_plans(ctx, P, ctx.scale(80, 600))
    # region SchedGlue: the generated schedulers (unpacking, lpsd forwarding, statements after the walk, output dictionary) vs the real ones
    S.correspondence_glue(ctx, P, cfgs)
    return P


NEAR_ONE = (0.999, 0.9995, 0.9996, 0.9999, 0.99999, 1 - 1e-7, 1 - 2.0 ** -30)


def check_cfg(P: C.Part, cfg, scheds=S.SCHEDS, through_analyzer: bool = True) -> None:
    for sched in scheds:
        P.cases += 1
        P.hit(sched)
        P.nontrivial.add((sched,) + S.cfg_key(cfg))
        try:
            plan = S.real_plan(sched, cfg)
        except BaseException as ex:  # noqa  (sys.exit inside a scheduler is a failure too)
            P.violations.append(S.viol(PROP, sched, cfg, "scheduler-raises", f"scheduler raised {ex!r} for an admissible configuration"))
            continue
        P.violations.extend(S.pred_C02(sched, cfg, plan))
        if through_analyzer:
            # both documented forms of the `scheduler` option: its name and the scheduler function itself
            for form, arg in (("name", sched), ("callable", S.sched_fn(sched))):
                try:
                    ap = S.analyzer_plan(arg, cfg)
                    P.hit(f"analyzer:{form}")
                    if int(ap["nf"]) != plan["nf"]:
                        P.violations.append(S.viol(PROP, sched, cfg, "analyzer-plan", f"analyzer plan (scheduler given as {form}) has {int(ap['nf'])} bins, scheduler {plan['nf']}"))
                except BaseException as ex:  # noqa
                    P.violations.append(S.viol(PROP, sched, cfg, "analyzer-raises",
                                               f"SpectrumAnalyzer.plan() (scheduler given as {form}) raised {ex!r} for an admissible configuration"))


def oracle(ctx, intensive: bool = False, hints=()) -> C.Part:
    P = C.Part()
    for w in WITNESSES:
        check_cfg(P, w)
    for h in hints:
        if isinstance(h, dict) and "cfg" in h:
            check_cfg(P, h["cfg"])
    # overlaps at the upper end of the admissible range [0, 1): the analyzer's own handling of `olap` (range check, window defaults, storage as
    # final_olap) must hand every scheduler the value the user gave, and the plan must still be built
    for olap in NEAR_ONE:
        for N, (bmin, Lmin, Jdes, Kdes) in ((64, (1.0, 1, 50, 10)), (600, (2.5, 4, 10, 2)), (4096, (1.0, 1, 50, 10)), (4096, (1.0, 4096, 3, 1)), (20000, (1.0, 1, 60, 100))):
            if ctx.time_left() < 15 or len(P.violations) >= 8:
                break
            P.hit("olap-near-one")
            check_cfg(P, {"N": N, "fs": 2.0, "olap": olap, "bmin": bmin, "Lmin": Lmin, "Jdes": Jdes, "Kdes": Kdes})
    n = ctx.scale(150, 2500) * (4 if intensive else 1)
    for i in range(n):
        if ctx.time_left() < 15 or len(P.violations) >= 8:
            break
        cfg = S.gen_cfg(ctx.rng, ctx.thorough, small=(i % 4 == 0))
        check_cfg(P, cfg, through_analyzer=(i % 3 == 0))
        if i < 4:
            P.sample({"op": "oracle", "cfg": cfg})
    if ctx.thorough:
        # exhaustive small domain: all N <= 40 on a grid of the other parameters
        for N in range(8, 41):
            for olap in (0.0, 0.5, 0.9):
                for bmin in (1.0, 2.5):
                    for Lmin in (1, N // 2, N):
                        for Jdes, Kdes in ((1, 1), (5, 2), (20, 10)):
                            if bmin < N / 2 and ctx.time_left() > 15:
                                check_cfg(P, {"N": N, "fs": 1.0, "olap": olap, "bmin": bmin, "Lmin": max(1, Lmin), "Jdes": Jdes, "Kdes": Kdes},
                                          through_analyzer=False)
        P.notes.append("exhaustive grid N in 8..40 x olap x bmin x Lmin x (Jdes,Kdes)")
    return P


def replay(ctx, data) -> C.Part:
    P = C.Part()
    for v in data.get("violations", []):
        check_cfg(P, v["replay"]["cfg"], scheds=[v["replay"]["scheduler"]])
    return P
